#!/bin/sh
# tools/regress_seeds.sh <ws-name> <file with seed ids> : in the private workspace /tmp/ag/<ws> (tools/mkws.sh), apply every
# listed seed's patch to the private repo, run the owning property's quick check, record exit code + last line.
WS=/tmp/ag/$1; LIST=$2; OUT=/tmp/ag/$1.results
: > $OUT
cd $WS/verif || exit 2
for id in $(cat $LIST); do
  prop=$(python3 -c "import json;print(json.load(open('/verif/seeded/$id/meta.json'))['property'])")
  # checks that reported it last time (first of checks_run), falling back to the owning property
  chk=$(python3 -c "
import json;m=json.load(open('/verif/seeded/$id/meta.json'));d=m.get('detected',{})
print(' '.join(d.get('checks_run',[m['property']])))")
  p=/verif/seeded/$id/patch.diff
  if ! git -C $WS/repo apply $p 2>/dev/null; then echo "$id $prop APPLY-FAILED" >> $OUT; continue; fi
  res=""
  for c in $chk; do
    VERIF_OUT=$WS/out ./check $c --tier quick > $WS/last.log 2>&1; rc=$?
    n=$(grep -c '^VIOLATION' $WS/last.log); nf=$(grep -c 'no-failing-input-found' $WS/last.log)
    res="$res $c:rc$rc:v$n:nf$nf"
  done
  echo "$id $prop$res" >> $OUT
  git -C $WS/repo checkout -- . ; git -C $WS/repo clean -fdq 2>/dev/null
done
echo DONE >> $OUT
