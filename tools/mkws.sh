#!/bin/sh
# tools/mkws.sh <name>: private workspace for one builder: /tmp/ag/<name>/{verif,repo}
set -e
N=$1
mkdir -p /tmp/ag/$N
git -C /verif worktree add -q -b ag-$N /tmp/ag/$N/verif HEAD
git -C /repo worktree add -q --detach /tmp/ag/$N/repo HEAD
cp /repo/Cargo.lock /tmp/ag/$N/verif/harness/Cargo.lock
cp /repo/Cargo.lock /tmp/ag/$N/repo/Cargo.lock   # untracked in /repo, needed by setup.sh and check
echo /tmp/ag/$N
