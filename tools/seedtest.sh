#!/bin/sh
# tools/seedtest.sh <patch.diff> <Cxx>... : apply a seeded change to /repo, run the checks, undo.
P=$1; shift
git -C /repo apply "$P" || { echo "patch does not apply"; exit 2; }
for c in "$@"; do (cd /verif && VERIF_OUT=/tmp/seedtest-out ./check $c 2>&1 | grep -E "^(C[0-9]+ \[|VIOLATION|KNOWN)" ); done
git -C /repo checkout -- .
git -C /repo status --short | grep -v '^??' | head -3
