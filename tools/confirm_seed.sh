#!/bin/sh
# tools/confirm_seed.sh <name> <Cxx> : in scratch worktree /tmp/mut/<name> (patch applied, seed/ present)
#  1. demo fails with the patch   2. demo passes without   3. full baseline suite passes with the patch
#  then copy seed into /verif/seeded/<name>/ with a confirmation record.
N=$1; PROP=$2; W=/tmp/mut/$N; OUT=/verif/seeded/$N
cd $W || exit 2
DEMO=$(python3 -c "import json;print(json.load(open('$W/seed/meta.json'))['demo_cmd'])")
git apply -R --check seed/patch.diff 2>/dev/null || git apply seed/patch.diff
sh -c "$DEMO" > /tmp/mut/$N.demo_patched.log 2>&1; RC1=$?
git apply -R seed/patch.diff
sh -c "$DEMO" > /tmp/mut/$N.demo_clean.log 2>&1; RC2=$?
git apply seed/patch.diff
cargo nextest run --workspace --no-fail-fast --tool-config-file pb:/w/lib/nextest.toml --profile pb --test-threads 8 --offline --target-dir $W/target < /dev/null > /tmp/mut/$N.suite.log 2>&1
SUM=$(grep -E "Summary" /tmp/mut/$N.suite.log | tail -1)
FAILS=$(grep -E "^\s+FAIL" /tmp/mut/$N.suite.log | sed 's/.*) //' | sort -u | tr '\n' ';')
mkdir -p $OUT
cp seed/patch.diff $OUT/patch.diff
rm -rf $OUT/demo; cp -r seed/demo $OUT/demo 2>/dev/null; rm -rf $OUT/demo/target
python3 - <<PY
import json
m=json.load(open('$W/seed/meta.json'))
m['property']='$PROP'
m['confirmed']={'demo_with_patch_rc':$RC1,'demo_without_patch_rc':$RC2,'baseline_with_patch':'''$SUM'''.strip(),'baseline_failures':'''$FAILS'''.strip(),
  'note':'rc!=0 with the patch and rc==0 without is required; the only accepted baseline failure is integration-tests::connection connect_handles_tls (fails on the unchanged tree too)'}
json.dump(m,open('$OUT/meta.json','w'),indent=1)
print('$N',m['confirmed'])
PY
