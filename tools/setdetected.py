#!/usr/bin/env python3
"""tools/setdetected.py <seed-id> <checks,comma-separated> <result text> : record what the checks said about a seed."""
import json, sys, os
root = os.path.dirname(os.path.dirname(os.path.abspath(__file__)))
p = os.path.join(root, "seeded", sys.argv[1], "meta.json")
m = json.load(open(p))
m["detected"] = {"checks_run": sys.argv[2].split(","), "result": sys.argv[3]}
m["ran"] = "tools/seedtest.sh, tools/confirm_seed.sh"
json.dump(m, open(p, "w"), indent=1)
