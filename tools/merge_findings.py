#!/usr/bin/env python3
"""tools/merge_findings.py <branch> : resolve a merge conflict in known_findings.json as the union (by id / by text) of
ours (HEAD) and theirs (<branch>); entries present in both keep OUR version (ours may carry later regex adjustments)."""
import json, subprocess, sys
def load(ref):
    return json.loads(subprocess.check_output(["git", "show", f"{ref}:known_findings.json"], text=True))
ours, theirs = load("HEAD"), load(sys.argv[1])
def key(e):
    return e["id"] if isinstance(e, dict) and "id" in e else json.dumps(e, sort_keys=True)
out = dict(ours)
for sect in ("findings", "fixed"):
    seen = {key(e) for e in ours.get(sect, [])}
    out[sect] = list(ours.get(sect, [])) + [e for e in theirs.get(sect, []) if key(e) not in seen]
for k, v in theirs.items():
    if k not in out:
        out[k] = v
json.dump(out, open("known_findings.json", "w"), indent=1)
print("findings:", [e.get("id") for e in out["findings"]], "fixed:", len(out["fixed"]))
