#!/usr/bin/env python3
"""Regenerate MANIFEST.json from props.json (claimed properties) and properties.jsonl."""
import json, os, subprocess
ROOT = os.path.dirname(os.path.dirname(os.path.abspath(__file__)))
props = {n[:-5]: json.load(open(os.path.join(ROOT, "props.d", n))) for n in sorted(os.listdir(os.path.join(ROOT, "props.d"))) if n.endswith(".json")}
all_ids = [json.loads(l)["id"] for l in open(os.path.join(ROOT, "properties.jsonl")) if l.strip()]
pending = json.load(open(os.path.join(ROOT, "tools", "pending.json")))
hooks = subprocess.run(["git", "-C", "/repo", "log", "--format=%H %s"], stdout=subprocess.PIPE, text=True).stdout.splitlines()
hook_commits = [l.split(" ")[0] for l in hooks if l.split(" ", 1)[1].startswith("verif-hooks:")]
checks = []
for pid in all_ids:
    if pid not in props:
        continue
    c = props[pid]
    checks.append({
        "property_id": pid,
        "quick_cmd": f"./check {pid} --tier quick",
        "thorough_cmd": f"./check {pid} --tier thorough",
        "evidence_file": f"/verif/evidence/{pid}.json",
        "replay_cmd_template": f"./check {pid} --replay {{path}}",
        "engine": "lean-proof+correspondence",
        "level_claimed": {"category": "proof", "text": c["level_text"], "design_ref": c.get("design_ref", "DESIGN.md §4")},
        "level_note": c["level_note"],
        "technique": c["technique"],
    })
manifest = {
    "version": 1,
    "setup_cmd": "./setup.sh",
    "hooks": {
        "guard": "cargo feature `verif-hooks` of crate tonic",
        "enable": "the harness (harness/Cargo.toml) depends on /repo/tonic by path with features = [\"verif-hooks\", …]; nothing in /repo's workspace enables it",
        "baseline_off_cmd": "cd /repo && cargo nextest run --workspace --no-fail-fast --tool-config-file pb:/w/lib/nextest.toml --profile pb --test-threads 8 --offline || cargo test --workspace --no-fail-fast --offline",
        "source_commits": hook_commits,
        "add_only": True,
    },
    "engines": [{
        "name": "lean-proof+correspondence",
        "path": "/verif/check",
        "serves_properties": [c["property_id"] for c in checks],
        "kind_free_text": "Lean 4 theorems about hand-written models (lean/TonicModel), kernel-checked + axiom-audited on every run; Rust harness (harness/) drives the real crates from /repo's working tree and the compiled Lean driver on the same cases and diffs; the Lean spec predicate is evaluated on the implementation's outputs to find concrete violations",
    }],
    "checks": checks,
    "notes": "See DESIGN.md. known_findings.json lists recorded and fixed genuine defects.",
    "not_applicable": [{"property_id": pid, "reason": pending.get(pid, "not yet claimed: check under construction (DESIGN.md §7 build order); no verdict is given for it")} for pid in all_ids if pid not in props],
}
json.dump(manifest, open(os.path.join(ROOT, "MANIFEST.json"), "w"), indent=1)
print("claimed:", [c["property_id"] for c in checks])
