#!/usr/bin/env python3
"""tools/seedprompt.py <seed-id> <Cxx> : prompt text for an independent seeding sub-agent.
The agent gets the property's text and its own scratch worktree /tmp/mut/<seed-id>, and the one-line
summaries of the seeds already kept for that property (so that it goes somewhere else) - nothing from
/verif's machinery."""
import json, sys, os, glob
sid, prop = sys.argv[1], sys.argv[2]
root = os.path.dirname(os.path.dirname(os.path.abspath(__file__)))
p = None
for l in open(os.path.join(root, "properties.jsonl")):
    d = json.loads(l)
    if d["id"] == prop:
        p = d
taken = []
for m in sorted(glob.glob(os.path.join(root, "seeded", "*", "meta.json"))):
    d = json.load(open(m))
    if d.get("property") == prop:
        taken.append("- (" + ", ".join(d.get("files", [])) + ") " + d.get("summary", "")[:600])
W = f"/tmp/mut/{sid}"
print(f"""You are playing a careful adversary to test a verification effort for the Rust gRPC library hyperium/tonic.
You have your own scratch git worktree of tonic at {W} . Work ONLY inside {W}. Never modify /repo. Never read or
touch /verif (it holds the machinery under test; your change must be independent of it). The sandbox is offline:
always use `cargo ... --offline` and always pass `--target-dir {W}/target` (disk is shared; do not create other target dirs).

THE PROPERTY (a semantic guarantee that users of tonic rely on):
id: {p['id']}
title: {p['title']}
statement: {p['statement']}
quantified over: {p['quantifier']['text']}
why the existing tests cannot settle it: {p['why_tests_cant']}
anchors: {json.dumps(p['anchors'])}

YOUR TASK: make ONE realistic change to tonic's source - the kind of slip a maintainer could make in a refactor, an
optimisation or a well-meant bug fix, with a plausible rationale - that BREAKS this property while
 (a) everything still compiles,
 (b) the existing test suite still passes:
     cd {W} && cargo nextest run --workspace --no-fail-fast --tool-config-file pb:/w/lib/nextest.toml --profile pb --test-threads 8 --offline --target-dir {W}/target
     (on the unchanged tree exactly one test fails: integration-tests::connection connect_handles_tls - it needs DNS; 214 pass), and
 (c) the breakage needs something SPECIFIC to manifest: a particular interleaving or schedule, a crash or fault at a
     particular point, a multi-step sequence of operations, an unusual input or configuration, or two cooperating code
     sites that each look fine alone. NOT something ordinary use (or a smoke test) would expose at once.
Keep the change small (a few lines to a few dozen), in non-test source files of the workspace crates. If you change
tonic-build so that generated code changes, regenerate the checked-in generated files consistently so that the suite passes.

ALREADY TAKEN - earlier adversaries produced these for the same property; pick a DIFFERENT code site and a DIFFERENT mechanism
(different clause of the statement if possible):
{chr(10).join(taken) if taken else '(none)'}

DELIVER, in {W}/seed/ :
 - patch.diff : `git diff` of your change (source files only; must apply with `git apply` at the worktree root of a clean checkout)
 - demo/ : a small standalone cargo crate that demonstrates the breakage: its own Cargo.toml with an empty `[workspace]` table and
   path dependencies on the crates inside {W} (e.g. tonic = {{ path = "../../tonic" }}), a copy of {W}/Cargo.lock next to it,
   and `.cargo/config.toml` containing `[net]\\noffline = true`. Its test(s) must FAIL with the patch applied and PASS without it.
   Use only crates that are already in {W}/Cargo.lock (tokio, tokio-stream, http, http-body, http-body-util, bytes, prost, tower, hyper, ...).
 - meta.json : {{"property": "{prop}", "summary": "<what you changed and why it looks plausible>", "needs": "<exactly what is required for it to manifest>",
   "files": ["<changed files>"], "tests_run": ["<commands you ran and their results>"],
   "demo_cmd": "cd {W}/seed/demo && cargo test --offline --target-dir {W}/target"}}
VERIFY YOURSELF before finishing: (1) demo fails with the patch; (2) `git apply -R seed/patch.diff`, demo passes; re-apply the patch;
(3) the full suite command above passes with the patch applied (only connect_handles_tls may fail).
Leave the worktree with the patch APPLIED and uncommitted. Do not commit anything. Your final answer: a five-line summary
(change, needs, demo result with/without, suite result).""")
