#!/usr/bin/env python3
"""
tools/mutsweep.py <repo-copy> <out.jsonl> <seed> <max-per-file> <file:Cxx,Cyy>...

Mechanical mutation sweep (support tool, not a check): applies small syntactic mutations to a
COPY of the tonic repository, one at a time, rebuilds the harness against it and runs the quick
checks of the properties mapped to the file.  A mutant is `caught` when some check exits 1,
`survived` when all exit 0, `nocompile` when the harness does not build.  Survivors are either
equivalent mutants or blind spots of the generators; they are triaged by hand.

Must be run from a /verif snapshot whose ../repo symlink points at <repo-copy>.
"""
import json, os, random, re, subprocess, sys

ROOT = os.path.dirname(os.path.dirname(os.path.abspath(__file__)))

OPS = [
    ("rel", re.compile(r"(?<![<>=!\-])(<=|>=|==|!=|<|>)(?![<>=])")),
    ("bool", re.compile(r"(&&|\|\|)")),
    ("neg", re.compile(r"\bif !")),
    ("num", re.compile(r"(?<![\w.])(\d+)(?![\w.])")),
    ("del", None),
    ("true", re.compile(r"\bif (?!let)([^{]+)\{")),
]
SWAP = {"<": "<=", "<=": "<", ">": ">=", ">=": ">", "==": "!=", "!=": "==", "&&": "||", "||": "&&"}


def code_lines(path):
    src = open(path).read().split("\n")
    out = []
    for i, l in enumerate(src):
        if l.strip().startswith("#[cfg(test)]"):
            break
        s = l.strip()
        if not s or s.startswith("//") or s.startswith("#[") or s.startswith("use ") or s.startswith("///"):
            continue
        out.append(i)
    return src, out


def mutants_of(path, rng, limit):
    src, idxs = code_lines(path)
    cands = []
    for i in idxs:
        line = src[i]
        code = line.split("//")[0]
        if "trace!" in code or "debug!" in code or "warn!" in code or "format!" in code and "if " not in code:
            continue
        for name, rx in OPS:
            if name == "del":
                s = code.strip()
                if s.endswith(";") and not s.startswith("let ") and not s.startswith("return") and "(" in s and "=>" not in s and not s.startswith("}"):
                    cands.append((i, name, line, line.replace(s, "/* deleted: " + s.replace("*/", "") + " */")))
                continue
            for m in rx.finditer(code):
                if name in ("rel",):
                    if not re.search(r"\b(if|while|match|=>|&&|\|\||assert)\b|return ", code):
                        continue
                    # skip generics / arrows / shifts
                    a, b = m.start(), m.end()
                    ctx = code[max(0, a - 1):b + 1]
                    if "->" in code[max(0, a - 1):b + 1] or "=>" in ctx or "::<" in code[max(0, a - 3):b] or re.search(r"[A-Za-z_>]<[A-Za-z_&(\[]", code[max(0, a - 1):b + 1]) and m.group(1) == "<":
                        continue
                    if m.group(1) == ">" and re.search(r"[A-Za-z_)\]]>", code[max(0, a - 1):b]) and "<" in code[:a]:
                        continue
                    new = code[:a] + SWAP[m.group(1)] + code[b:]
                elif name == "bool":
                    new = code[:m.start()] + SWAP[m.group(1)] + code[m.end():]
                elif name == "neg":
                    new = code[:m.start()] + "if " + code[m.end():]
                elif name == "num":
                    n = int(m.group(1))
                    if n > 100000 or "[" in code[max(0, m.start() - 1):m.start()]:
                        continue
                    new = code[:m.start()] + str(n + 1) + code[m.end():]
                elif name == "true":
                    new = code[:m.start()] + "if !(" + m.group(1).strip() + ") {" + code[m.end():]
                else:
                    continue
                cands.append((i, name, line, new + line[len(code):]))
    rng.shuffle(cands)
    return src, cands[:limit]


def sh(cmd, cwd, timeout=2400):
    try:
        p = subprocess.run(cmd, cwd=cwd, stdout=subprocess.PIPE, stderr=subprocess.STDOUT, text=True, timeout=timeout, stdin=subprocess.DEVNULL)
    except subprocess.TimeoutExpired:
        return 124, "TIMEOUT"
    return p.returncode, p.stdout


def main():
    repo, outp, seed, per = sys.argv[1], sys.argv[2], int(sys.argv[3]), int(sys.argv[4])
    rng = random.Random(seed)
    out = open(outp, "a")
    for spec in sys.argv[5:]:
        rel, props = spec.split(":")
        props = props.split(",")
        path = os.path.join(repo, rel)
        src, muts = mutants_of(path, rng, per)
        original = "\n".join(src)
        for (i, name, before, after) in muts:
            cur = list(src)
            cur[i] = after
            open(path, "w").write("\n".join(cur))
            rec = {"file": rel, "line": i + 1, "op": name, "before": before.strip(), "after": after.strip()}
            rc, o = sh(["cargo", "build", "--offline"], os.path.join(ROOT, "harness"))
            if rc != 0:
                rec["status"] = "nocompile"
            else:
                caught = []
                for p in props:
                    rc, o = sh(["env", "VERIF_OUT=/tmp/mutsweep-out", os.path.join(ROOT, "check"), p], ROOT)
                    if rc != 0:
                        kinds = re.findall(r"VIOLATION property=\S+ replay=\S*?([^/]+)\.json( no-failing-input-found)?", o)
                        caught.append({"prop": p, "how": [k[0][:60] + (" (nfi)" if k[1] else "") for k in kinds][:3]})
                rec["status"] = "caught" if caught else "survived"
                rec["caught_by"] = caught
            out.write(json.dumps(rec) + "\n")
            out.flush()
        open(path, "w").write(original)


if __name__ == "__main__":
    main()
