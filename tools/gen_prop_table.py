#!/usr/bin/env python3
"""Rewrite DESIGN.md §9.5's table from props.d/ and Props/*.lean."""
import json, os, re
ROOT = os.path.dirname(os.path.dirname(os.path.abspath(__file__)))
ids = [f"C{i:02d}" for i in range(1, 21)]
files = {
 'C01': 'Model/Framing, Spec/Framing (+ RichError prost model for the instantiated theorem)',
 'C02': 'Model/Call (composition of Framing, Status, Metadata), Spec/Call',
 'C03': 'Model/Framing, Model/Interceptor (prepare_request, into_http), Model/RecoverError, Spec/Framing, Spec/GrpcResponse',
 'C04': 'Model/Status, Model/Framing (+FramingAsFound), Basic/{Percent,Utf8,HMap,Base64}, Spec/Status',
 'C05': 'Model/Compression, Spec/Compression',
 'C06': 'Model/Framing, Spec/Framing',
 'C07': 'Model/Framing, Spec/Framing (batch reference decoder)',
 'C08': 'Model/Metadata, Model/MetadataEntry, Model/MetadataApi, Basic/{HMap,MetaOps}, Spec/Metadata, Spec/MetadataEntry',
 'C09': 'Model/Timeout, Spec/Timeout',
 'C10': 'Model/Router, Spec/Router',
 'C11': 'Model/Codegen, Spec/Codegen',
 'C12': 'Model/Interceptor, Basic/HMapLite, Spec/Interceptor',
 'C13': 'Model/Shutdown, Spec/Shutdown',
 'C14': 'Model/Reconnect, Model/Balance, Basic/{ConnScript,ErrChain,BalScript}, Spec/Reconnect, Spec/Balance',
 'C15': 'Model/Tls, Basic/{TlsVocab,TlsTestPki}, Spec/Tls',
 'C16': 'Model/WebServer, Basic/TrailerMap, Spec/GrpcWeb',
 'C17': 'Model/WebClient, Model/WebCaller, Spec/GrpcWeb',
 'C18': 'Model/Health, Basic/{HealthTypes,HealthLin}, Spec/Health',
 'C19': 'Model/Reflection(+Wire), Basic/ReflDescriptor, Spec/Reflection(+Wire)',
 'C20': 'Model/RichError, Basic/{PbWire,RichErrorTypes,Utf8Rust}, Spec/RichError',
}
ties = {
 'C01': 'framing.rs/c01.rs: enc, dec, penc, pdec (ProstCodec), >32 KiB messages; thorough: every chunking of short streams',
 'C02': 'c02.rs: real client::Grpc ↔ real server::Grpc, all four shapes (+ mismatched), re-chunking bodies both ways, callz (compression on), malformed; thorough: h2 / h2x over real hyper on fragmenting duplex',
 'C03': 'c03.rs: enc (+errors, limits), resp (real server::Grpc), req (real client::Grpc); c03_prod.rs: prod rec/fb/icpt/srv (every producer of responses: RecoverError, Routes fallback, generated default arm, interceptor rejection, real transport::Server read by a raw h2 client); thorough: every schedule ≤ 5',
 'C04': 'c04.rs: code, codei, enc, dec, rt, rth, infer / inferb (all HTTP statuses, bodies with DATA), h2 (all reasons), rst (real Channel against an h2 server resetting with every reason), toh2, u8 — tables exhaustive; statuses up to 1 MiB',
 'C05': 'c05.rs: srv.*, cli.*, pair.* (real client against real server, 4×16×16×16 matrix), zero-length flagged frames',
 'C06': 'c06.rs: enc/dec around limits, declared lengths to 2^32−1, allocation observer, lim.srv/lim.cli (all four shapes, builder/apply/clone)',
 'C07': 'c07.rs: hostile dec (mutations, truncation at every byte, wrong length prefixes, body errors, mid-stream trailers); thorough: exhaustive small chunkings × special events',
 'C08': 'c08.rs: bin, binw, bineq, ascv, key, acc, iter, ops, hmap, e2e (real client↔server); c08_entry.rs: eops (entry API operation sequences); c08_api.rs: kctor, vctor, veq, ferr (Status::from_error chains, RecoverError)',
 'C09': 'c09.rs: enc, encs, parse (hook), run (GrpcTimeout under RecoverError, paused time; raw header values), e2e, cli (silent / stalling / Routes peers that enforce nothing), srv (bare h2 client), seq (repeated set_timeout, builder orders), runl / clil / e2el (late-polling callers), mw / chan / chano / conn / conno (several calls through one middleware value / one Channel / one server connection, sequential and overlapping)',
 'C10': 'c10.rs + build.rs pool of 17 generated services: call, plan (every construction of the router: 14 starts × op sequences, Routes oneshot and real transport server), rewriting interceptors, ~35 path mutations per method',
 'C11': 'c11.rs: gen, manual, prost (syn-parsed output; message kinds × compile_well_known_types × proto_path × extern), srv (compiled generated servers driven directly), e2e, regen (byte comparison of the 8 committed files)',
 'C12': 'c12.rs: line, status, ops, pairs, accept, reject, seq, ready, odd, routed, client',
 'C13': 'c13.rs: real Server over duplex, paused time, scripts of offers/calls/phases/signal/age, racy variants',
 'C14': 'c14.rs: unit (hooked Reconnect), sess (tower Buffer), e2e/e2n/e2d/e2x (Endpoint + scripted connector + real servers; deadlines, in-flight death, concurrent pairs, limit layers, failure causes), cls (Status::from_error on error chains), net (Endpoint::connect / connect_lazy over loopback TCP and UDS), bal (Channel::balance_list / balance_channel over up to three loopback TCP endpoints, insert / remove; trace explained by some sequence of balancer choices)',
 'C15': 'c15.rs: tls (486-matrix on TCP and duplex, second realisations, unusable CA bundles, random builder sequences, multi-client, one config value / derived configs / endpoint clones across several endpoints), tlsf (side builds with root stores), srvcfg',
 'C16': 'c16.rs: resp, req, call (whole request seen by the inner service and whole response; 12 methods × 5 versions × 16 content-types × 9 accepts); chunks to 100 000 B, trailer blocks > 64 KiB',
 'C17': 'c17.rs: cl, creq (every truncation, every chunking of small bodies), st (real client::Grpc over the client layer); executor with waker discipline',
 'C18': 'c18.rs: seq (exhaustive to length 6/8), park (tasks parked in stream.message().await, woken by set/clear), conc incl. first-registration races (8-worker runtime + linearizability search in Lean)',
 'C19': 'c19.rs: builder configs × registrations (decoded/encoded/bad) × request streams on v1 and v1alpha',
 'C20': 'c20.rs: vec, set (set_*/add_*/with_* constructors), raw (hand-built hostile protobuf)',
}
rows = ["| prop | model / spec files | property theorems | tie (harness module; case kinds) |", "|---|---|---|---|"]
total = 0
for p in ids:
    if not os.path.exists(os.path.join(ROOT, "props.d", p + ".json")):
        rows.append(f"| {p} | {files[p]} | — | not claimed |")
        continue
    src = re.sub(r"/-.*?-/", "", open(os.path.join(ROOT, "lean/TonicModel/Props", p + ".lean")).read(), flags=re.S)
    th = re.findall(r"^\s*theorem\s+(" + p + r"_\w+)", src, flags=re.M)
    total += len(th)
    rows.append(f"| {p} | {files[p]} | {len(th)} | {ties[p]} |")
dp = os.path.join(ROOT, "DESIGN.md")
s = open(dp).read()
start = s.index("### 9.5 Per-property summary")
m = re.search(r"\n### 9\.6 ", s[start:])
end = start + m.start() + 1 if m else len(s)
sec = f"### 9.5 Per-property summary (generated by `tools/gen_prop_table.py`; {total} property theorems in all; see `evidence/` for what each run covered)\n\n" + "\n".join(rows) + "\n\n"
s = s[:start] + sec + s[end:]
open(dp, "w").write(s)
print(total, "theorems")
