//! `feat srv <snd> <acc> A <accept header | -> E <encoding header | ->`
//!   a `tonic::server::Grpc` of THIS build (gzip + zstd compiled in, deflate not) with `send_compressed` for the
//!   letters of <snd> and `accept_compressed` for the letters of <acc> (g, z; `-` = none) serves one unary call whose
//!   request carries the given `grpc-accept-encoding` / `grpc-encoding` values (one identity-framed message).
//! Observed: `status:<code|-> enc:<grpc-encoding of the response | -> flag:<flag of the first response frame | ->`.
use bytes::{Buf, BufMut};
use http_body_util::BodyExt;
use tonic::codec::{Codec, CompressionEncoding, DecodeBuf, Decoder, EncodeBuf, Encoder};
use tonic::{Request, Response, Status};

#[derive(Clone, Default)]
struct RawCodec;
#[derive(Clone, Default)]
struct RawEnc;
#[derive(Clone, Default)]
struct RawDec;
impl Encoder for RawEnc {
    type Item = Vec<u8>;
    type Error = Status;
    fn encode(&mut self, item: Vec<u8>, dst: &mut EncodeBuf<'_>) -> Result<(), Status> {
        dst.put_slice(&item);
        Ok(())
    }
}
impl Decoder for RawDec {
    type Item = Vec<u8>;
    type Error = Status;
    fn decode(&mut self, src: &mut DecodeBuf<'_>) -> Result<Option<Vec<u8>>, Status> {
        let n = src.remaining();
        let mut v = vec![0u8; n];
        src.copy_to_slice(&mut v);
        Ok(Some(v))
    }
}
impl Codec for RawCodec {
    type Encode = Vec<u8>;
    type Decode = Vec<u8>;
    type Encoder = RawEnc;
    type Decoder = RawDec;
    fn encoder(&mut self) -> RawEnc {
        RawEnc
    }
    fn decoder(&mut self) -> RawDec {
        RawDec
    }
}

struct Echo;
impl tonic::server::UnaryService<Vec<u8>> for Echo {
    type Response = Vec<u8>;
    type Future = std::pin::Pin<Box<dyn std::future::Future<Output = Result<Response<Vec<u8>>, Status>> + Send>>;
    fn call(&mut self, _r: Request<Vec<u8>>) -> Self::Future {
        // compressible, longer than any header
        Box::pin(async move { Ok(Response::new(vec![b'r'; 400])) })
    }
}

fn enc_of(c: char) -> Option<CompressionEncoding> {
    match c {
        'g' => Some(CompressionEncoding::Gzip),
        'z' => Some(CompressionEncoding::Zstd),
        _ => None,
    }
}

fn run(t: &[String]) -> Option<String> {
    // feat srv <snd> <acc> A <v> E <v>
    if t.len() != 8 || t[0] != "feat" || t[1] != "srv" || t[4] != "A" || t[6] != "E" {
        return None;
    }
    let mut grpc = tonic::server::Grpc::new(RawCodec);
    if t[2] != "-" {
        for c in t[2].chars() {
            grpc = grpc.send_compressed(enc_of(c)?);
        }
    }
    if t[3] != "-" {
        for c in t[3].chars() {
            grpc = grpc.accept_compressed(enc_of(c)?);
        }
    }
    let mut req = http::Request::builder().method("POST").uri("http://h/svc/M").version(http::Version::HTTP_2).header("content-type", "application/grpc").header("te", "trailers");
    if t[5] != "-" {
        req = req.header("grpc-accept-encoding", t[5].replace('_', " "));
    }
    if t[7] != "-" {
        req = req.header("grpc-encoding", t[7].replace('_', " "));
    }
    let mut body = vec![0u8, 0, 0, 0, 3];
    body.extend_from_slice(b"req");
    let req = req.body(http_body_util::Full::new(bytes::Bytes::from(body))).ok()?;
    let rt = tokio::runtime::Builder::new_current_thread().build().ok()?;
    Some(rt.block_on(async move {
        let resp = grpc.unary(Echo, req).await;
        let (parts, mut b) = resp.into_parts();
        let mut data = Vec::new();
        let mut trailers = None;
        while let Some(Ok(f)) = b.frame().await {
            if f.is_data() {
                data.extend_from_slice(&f.into_data().unwrap());
            } else if let Ok(tr) = f.into_trailers() {
                trailers = Some(tr);
            }
        }
        let st = parts.headers.get("grpc-status").or_else(|| trailers.as_ref().and_then(|t| t.get("grpc-status"))).and_then(|v| v.to_str().ok()).unwrap_or("-").to_string();
        let enc = parts.headers.get("grpc-encoding").and_then(|v| v.to_str().ok()).unwrap_or("-").to_string();
        let flag = data.first().map(|f| f.to_string()).unwrap_or("-".into());
        format!("status:{} enc:{} flag:{}", st, enc, flag)
    }))
}

fn main() {
    let t: Vec<String> = std::env::args().skip(1).collect();
    let out = match std::panic::catch_unwind(|| run(&t)) {
        Ok(Some(s)) => s,
        Ok(None) => "bad-case".into(),
        Err(_) => "panic".into(),
    };
    println!("{}", out);
}
