import Driver.Proto
import TonicModel.Basic.HealthTypes
import TonicModel.Basic.HealthLin
import TonicModel.Model.Health
import TonicModel.Spec.Health
namespace DriverC18
open Proto Health

/-- `NamedService::NAME` of `HealthServer<_>`: "grpc.health.v1.Health". -/
def svcName : Name := "grpc.health.v1.Health".toUTF8.toList

def stOf : String → Option St
  | "0" => some .unknown
  | "1" => some .serving
  | "2" => some .notServing
  | _ => none

def stTok : St → String
  | .unknown => "0"
  | .serving => "1"
  | .notServing => "2"

/-- Flat op tokens → ops; handle tokens (which reporter / client clone) are checked to be
numbers and otherwise ignored: all clones share one table. -/
def parseOps : Nat → List String → Option (List Op)
  | 0, _ => none
  | _, [] => some []
  | f + 1, "s" :: r :: n :: st :: rest => do
    let _ ← nat? r; let n ← unhex n; let st ← stOf st
    (Op.set n st :: ·) <$> parseOps f rest
  | f + 1, "sv" :: r :: rest => do
    let _ ← nat? r
    (Op.set svcName .serving :: ·) <$> parseOps f rest
  | f + 1, "nsv" :: r :: rest => do
    let _ ← nat? r
    (Op.set svcName .notServing :: ·) <$> parseOps f rest
  | f + 1, "c" :: r :: n :: rest => do
    let _ ← nat? r; let n ← unhex n
    (Op.clear n :: ·) <$> parseOps f rest
  | f + 1, "k" :: r :: n :: rest => do
    let _ ← nat? r; let n ← unhex n
    (Op.check n :: ·) <$> parseOps f rest
  | f + 1, "w" :: r :: n :: rest => do
    let _ ← nat? r; let n ← unhex n
    (Op.watch n :: ·) <$> parseOps f rest
  | f + 1, "n" :: w :: rest => do
    let w ← nat? w
    (Op.next w :: ·) <$> parseOps f rest
  | f + 1, "d" :: w :: rest => do
    let w ← nat? w
    (Op.drop w :: ·) <$> parseOps f rest
  | _, _ => none

def respTok : Resp → String
  | .done => "ok"
  | .status s => "st" ++ stTok s
  | .notFound => "nf"
  | .subscribed => "sub"
  | .value s => "v" ++ stTok s
  | .pending => "pend"
  | .ended => "end"
  | .noWatcher => "now"

def respOf : String → Option Resp
  | "ok" => some .done
  | "st0" => some (.status .unknown)
  | "st1" => some (.status .serving)
  | "st2" => some (.status .notServing)
  | "nf" => some .notFound
  | "sub" => some .subscribed
  | "v0" => some (.value .unknown)
  | "v1" => some (.value .serving)
  | "v2" => some (.value .notServing)
  | "pend" => some .pending
  | "end" => some .ended
  | "now" => some .noWatcher
  | _ => none

/-- First clause of the property that an observed trace (oldest first) breaks. -/
def firstBroken (h : Hist) : List Ev → Option String
  | [] => none
  | (op, r) :: t =>
    match (Spec.Health.clauses h op r).find? (fun c => !c.2) with
    | some c => some c.1
    | none => firstBroken ((op, r) :: h) t

def handleSeq (ops : List Op) (obs : List String) : String × String :=
  let rs := Health.run Health.init ops
  let model := String.intercalate " " (rs.map respTok)
  let verdict :=
    if obs == ["panic"] then "fail:panic"
    else match obs.mapM respOf with
      | none => "fail:unrecognised-answer"
      | some ors =>
        if ors.length != ops.length then "fail:answer-count"
        else match firstBroken [] (ops.zip ors) with
          | some c => "fail:" ++ c
          | none => "ok"
  (model, verdict)

/-! concurrent histories -/

def splitBar : List String → List (List String)
  | [] => [[]]
  | "|" :: rest => [] :: splitBar rest
  | t :: rest => match splitBar rest with
    | [] => [[t]]
    | g :: gs => (t :: g) :: gs

/-- observed records `tid inv res answer` -/
def parseRecs : Nat → List String → Option (List (Nat × Nat × Nat × Resp))
  | 0, _ => none
  | _, [] => some []
  | f + 1, t :: i :: r :: a :: rest => do
    let t ← nat? t; let i ← nat? i; let r ← nat? r; let a ← respOf a
    ((t, i, r, a) :: ·) <$> parseRecs f rest
  | _, _ => none

/-- Pairs a task's program with its records; records beyond the program are the final drain
(`next` on the task's stream, issued after every task has finished its program).

Windows.  Deliveries and ends may have been read ahead by the encoder during an earlier poll of
the same stream, so their window opens when the subscription returned.

`pend` answers.  A poll that finds the stream's `changed()` future parked on its `Notify` does
not re-read the channel version; it answers "pending" until the notification arrives, and
tokio delivers the notifications of one `send` to different receivers at different moments
(`watch` spreads receivers over several `Notify` cells and walks them in turn, after bumping
the version).  So while updates are in flight a `pend` only says "no wake-up yet", not "no
update yet", and is no evidence about the order of operations: a `pend` whose window overlaps
the window of any `set`/`clear` call (`upd`) is left out of the search.  A `send` returns only
after its wake-ups have been delivered, so every other `pend` — in particular every one in the
final drain — is a real answer and is kept, in its own window. -/
def mkCalls (upd : List (Nat × Nat)) : List Op → List (Nat × Nat × Resp) → Nat → List Lin.Call
  | _, [], _ => []
  | ops, (i, r, a) :: recs, subAt =>
    let (op, ops') := match ops with
      | [] => (Op.next 0, [])
      | o :: os => (o, os)
    let inv := match op, a with
      | .next _, .pending => i
      | .next _, _ => min i subAt
      | _, _ => i
    let subAt' := match op with
      | .watch _ => r
      | _ => subAt
    let skip := match op, a with
      | .next _, .pending => upd.any (fun u => u.1 < r && i < u.2)
      | _, _ => false
    if skip then mkCalls upd ops' recs subAt'
    else ⟨op, inv, r, a⟩ :: mkCalls upd ops' recs subAt'

def handleConc (progs : List (List Op)) (obs : List String) : String × String :=
  if obs == ["panic"] then ("not-linearizable", "fail:panic")
  else match parseRecs (obs.length + 1) obs with
    | none => ("not-linearizable", "fail:unrecognised-answer")
    | some recs =>
      -- windows of all update calls, over all tasks
      let upd : List (Nat × Nat) := (progs.zipIdx).flatMap (fun (ops, tid) =>
        let mine := (recs.filter (fun x => x.1 == tid)).map (·.2)
        (ops.zip mine).filterMap (fun (op, (i, r, _)) => match op with
          | .set _ _ => some (i, r)
          | .clear _ => some (i, r)
          | _ => none))
      let tasks : List Lin.Task := (progs.zipIdx).map (fun (ops, tid) =>
        let mine := (recs.filter (fun x => x.1 == tid)).map (·.2)
        ⟨mkCalls upd ops mine 0, Lin.noSlot⟩)
      let short := (progs.zipIdx).any (fun (ops, tid) =>
        (recs.filter (fun x => x.1 == tid)).length < ops.length)
      if short then ("not-linearizable", "fail:answer-count")
      else
        let m := Lin.linearizable Health.accept (fun s => s.watchers.length) Health.init tasks
        let v := Lin.linearizable Spec.Health.accept Spec.Health.numWatches [] tasks
        -- a search that ran out of budget decides nothing (neither a disagreement nor a failure)
        (if m == .no then "not-linearizable" else String.intercalate " " obs,
         if v == .no then "fail:not-linearizable" else "ok")

def handle (case obs : List String) : String × String :=
  match case with
  | "seq" :: rest =>
    match parseOps (rest.length + 1) rest with
    | none => bad
    | some ops => handleSeq ops obs
  | "conc" :: seed :: rest =>
    match nat? seed, (splitBar rest).mapM (fun p => parseOps (p.length + 1) p) with
    | some _, some progs =>
      if (progs.drop 1).all (·.isEmpty) then bad else handleConc progs obs
    | _, _ => bad
  | _ => bad

end DriverC18
