import Driver.Proto
import TonicModel.Basic.HealthTypes
import TonicModel.Basic.HealthLin
import TonicModel.Model.Health
import TonicModel.Model.HealthLife
import TonicModel.Spec.Health
namespace DriverC18
open Proto Health

/-- `NamedService::NAME` of `HealthServer<_>`: "grpc.health.v1.Health". -/
def svcName : Name := "grpc.health.v1.Health".toUTF8.toList

def stOf : String → Option St
  | "0" => some .unknown
  | "1" => some .serving
  | "2" => some .notServing
  | _ => none

def stTok : St → String
  | .unknown => "0"
  | .serving => "1"
  | .notServing => "2"

/-- Flat op tokens → ops; handle tokens (which reporter / client clone) are checked to be
numbers and otherwise ignored: all clones share one table. -/
def parseOps : Nat → List String → Option (List Op)
  | 0, _ => none
  | _, [] => some []
  | f + 1, "s" :: r :: n :: st :: rest => do
    let _ ← nat? r; let n ← unhex n; let st ← stOf st
    (Op.set n st :: ·) <$> parseOps f rest
  | f + 1, "sv" :: r :: rest => do
    let _ ← nat? r
    (Op.set svcName .serving :: ·) <$> parseOps f rest
  | f + 1, "nsv" :: r :: rest => do
    let _ ← nat? r
    (Op.set svcName .notServing :: ·) <$> parseOps f rest
  | f + 1, "c" :: r :: n :: rest => do
    let _ ← nat? r; let n ← unhex n
    (Op.clear n :: ·) <$> parseOps f rest
  | f + 1, "k" :: r :: n :: rest => do
    let _ ← nat? r; let n ← unhex n
    (Op.check n :: ·) <$> parseOps f rest
  | f + 1, "w" :: r :: n :: rest => do
    let _ ← nat? r; let n ← unhex n
    (Op.watch n :: ·) <$> parseOps f rest
  | f + 1, "n" :: w :: rest => do
    let w ← nat? w
    (Op.next w :: ·) <$> parseOps f rest
  | f + 1, "d" :: w :: rest => do
    let w ← nat? w
    (Op.drop w :: ·) <$> parseOps f rest
  | _, _ => none

def respTok : Resp → String
  | .done => "ok"
  | .status s => "st" ++ stTok s
  | .notFound => "nf"
  | .subscribed => "sub"
  | .value s => "v" ++ stTok s
  | .pending => "pend"
  | .ended => "end"
  | .noWatcher => "now"

def respOf : String → Option Resp
  | "ok" => some .done
  | "st0" => some (.status .unknown)
  | "st1" => some (.status .serving)
  | "st2" => some (.status .notServing)
  | "nf" => some .notFound
  | "sub" => some .subscribed
  | "v0" => some (.value .unknown)
  | "v1" => some (.value .serving)
  | "v2" => some (.value .notServing)
  | "pend" => some .pending
  | "end" => some .ended
  | "now" => some .noWatcher
  | _ => none

/-- First clause of the property that an observed trace (oldest first) breaks. -/
def firstBroken (h : Hist) : List Ev → Option String
  | [] => none
  | (op, r) :: t =>
    match (Spec.Health.clauses h op r).find? (fun c => !c.2) with
    | some c => some c.1
    | none => firstBroken ((op, r) :: h) t

/-! ### comparison key that is blind to repeated reports

The property lets a stream coalesce updates and does not ask for a report when a status is set
again to the value the stream delivered last (nor forbid one), so two implementations that
both satisfy every clause may differ in such reports — and, after them, in where `pend` / `end`
answers fall.  The line compared by `check` is therefore `<exact answers> # <report key>`:

* sequential cases (`seq`): the polls are fixed by the case, so the report key (`r<w>=<digits>`:
  statuses delivered on stream `w`, immediate repetitions removed) is the same for every such
  implementation.  It is computed by the harness from what it observed and by this driver from
  the model and compared literally.  The exact part is compared literally too, unless the two
  sides differ *only* in stream answers while every clause of the property holds on the observed
  answers, the answers that do not come from a stream agree position by position and the report
  keys agree: then the driver repeats the observed exact part (it stays in the evidence as the
  secondary token).
* parked-watcher cases (`park`): whether a task is still parked — and so which later updates
  it gets to see — itself depends on such a repeated report, so the keys need not agree.  Here
  the model is run *along* the observation (`acceptPark`): every observed answer must be the
  model's, or differ from it by one repeated report (left out, or made where the model is
  silent); who is parked follows the observation.  If the model accepts, the driver repeats
  the observed line (exact part and key as recomputed from it); otherwise it prints its own.
* concurrent cases (`conc`): the linearization search is run with the model (`Health.accept`)
  and, if that finds none, with the same tolerant acceptor (`acceptMD`).

The verdict is always computed from the exact observed answers. -/

def stDigit : St → String := stTok

/-- statuses delivered on stream `w`, immediate repetitions removed -/
def reportsOf (w : Nat) : List (Nat × Resp) → Option St → List St
  | [], _ => []
  | (w', .value s) :: rest, last =>
    if w' = w then
      (if last = some s then reportsOf w rest last else s :: reportsOf w rest (some s))
    else reportsOf w rest last
  | _ :: rest, last => reportsOf w rest last

def reportKey (nslots : Nat) (polls : List (Nat × Resp)) : List String :=
  "#" :: (List.range nslots).map (fun w =>
    "r" ++ toString w ++ "=" ++ String.join ((reportsOf w polls none).map stDigit))

def isWatch : Op → Bool
  | .watch _ => true
  | _ => false

def streamAnswer : Resp → Bool
  | .value _ => true
  | .pending => true
  | .ended => true
  | _ => false

def pollsOfSeq (evs : List Ev) : List (Nat × Resp) :=
  evs.filterMap (fun (op, r) => match op with
    | .next w => some (w, r)
    | _ => none)

/-- answers that do not come from a stream, in place -/
def maskedSeq (evs : List Ev) : List (Option Resp) :=
  evs.map (fun (op, r) => match op with
    | .next _ => if streamAnswer r then none else some r
    | _ => some r)

def splitHash : List String → List String × List String
  | [] => ([], [])
  | "#" :: rest => ([], "#" :: rest)
  | t :: rest => let (a, b) := splitHash rest; (t :: a, b)

def handleSeq (ops : List Op) (obs : List String) : String × String :=
  let rs := Health.run Health.init ops
  let nslots := ops.countP isWatch
  let mexact := rs.map respTok
  let mkey := reportKey nslots (pollsOfSeq (ops.zip rs))
  let (oexact, _) := splitHash obs
  let (verdict, same) :=
    if obs == ["panic"] then ("fail:panic", false)
    else match oexact.mapM respOf with
      | none => ("fail:unrecognised-answer", false)
      | some ors =>
        if ors.length != ops.length then ("fail:answer-count", false)
        else match firstBroken [] (ops.zip ors) with
          | some c => ("fail:" ++ c, false)
          | none =>
            ("ok", maskedSeq (ops.zip ors) == maskedSeq (ops.zip rs)
                && reportKey nslots (pollsOfSeq (ops.zip ors)) == mkey)
  (String.intercalate " " ((if same then oexact else mexact) ++ mkey), verdict)

/-! ### parked watchers -/

/-- The model as an acceptor that is blind to repeated reports (see the comparison key above):
besides the model's own answer it accepts, for a poll of a stream, (a) the answer the model
would give after delivering once more the status the stream delivered last (the implementation
left that repeated report out), and (b) a repetition of the status delivered last where the
model has nothing to deliver.  `last` = status delivered last, per slot. -/
structure MD where
  h : H
  last : List (Nat × St)

def MD.lastOf (s : MD) (w : Nat) : Option St := (s.last.find? (fun p => p.1 == w)).map (·.2)

def acceptMD (s : MD) (op : Op) (r : Resp) : Option MD :=
  let m := step s.h op
  let note (h' : H) : MD := match op, r with
    | .next w, .value v => ⟨h', (w, v) :: s.last.filter (fun p => p.1 != w)⟩
    | _, _ => ⟨h', s.last⟩
  if m.2 = r then some (note m.1)
  else match op, m.2 with
    | .next w, .value v =>
      if s.lastOf w = some v then
        let m2 := step m.1 op
        if m2.2 = r then some ⟨m2.1, s.last⟩ else none
      else none
    | .next w, .pending =>
      match r with
      | .value v => if s.lastOf w = some v then some s else none
      | _ => none
    | _, _ => none

/-- One poll of stream `w` answered `ro` by the implementation (`pending` also stands for "the
awaiting task stayed parked"): the model state afterwards if the answer is the model's, or
differs from it only by a repeated report (see `acceptMD`). -/
def pollMD (h : H) (last : List (Nat × St)) (w : Nat) (ro : Resp) : Option (H × List (Nat × St)) :=
  (acceptMD ⟨h, last⟩ (.next w) ro).map (fun s => (s.h, s.last))

/-- The model with awaiting watchers as an acceptor of an observed history, blind to repeated
reports: who is parked follows the observation (a task that was not given a repeated report is
still parked), every answer must be the model's up to such reports. -/
structure PMD where
  h : H
  parked : List Nat
  last : List (Nat × St)

def acceptItem (s : PMD) (it : Item) (o : Out) : Option PMD :=
  match it with
  | .await w =>
    if s.parked.contains w then (if o.ans == .busy && o.woken.isEmpty then some s else none)
    else if !o.woken.isEmpty then none
    else match o.ans with
      | .parked => (pollMD s.h s.last w .pending).map (fun (h, l) => ⟨h, w :: s.parked, l⟩)
      | .plain .pending => none
      | .plain r => (pollMD s.h s.last w r).map (fun (h, l) => ⟨h, s.parked, l⟩)
      | .busy => none
  | .op o' =>
    let held := match o' with
      | .next w => s.parked.contains w
      | _ => false
    if held then (if o.ans == .busy && o.woken.isEmpty then some s else none)
    else match o.ans with
      | .plain r =>
        match acceptMD ⟨s.h, s.last⟩ o' r with
        | none => none
        | some s1 =>
          let parked1 := match o' with
            | .drop w => s.parked.filter (fun x => x != w)
            | _ => s.parked
          if !o.woken.all (fun p => parked1.contains p.1) then none
          else
            -- every parked task: completed with what the observation says, or stayed parked
            parked1.foldlM (fun (acc : PMD) w =>
              let ro := match o.woken.find? (fun p => p.1 == w) with
                | some p => p.2
                | none => .pending
              (pollMD acc.h acc.last w ro).map (fun (h, l) =>
                ⟨h, if ro == .pending then acc.parked else acc.parked.filter (fun x => x != w), l⟩))
              ⟨s1.h, parked1, s1.last⟩
      | _ => none

def acceptPark : PMD → List (Item × Out) → Option PMD
  | s, [] => some s
  | s, (it, o) :: t => (acceptItem s it o).bind (fun s' => acceptPark s' t)


def parseItems : Nat → List String → Option (List Item)
  | 0, _ => none
  | _, [] => some []
  | f + 1, "a" :: w :: rest => do
    let w ← nat? w
    (Item.await w :: ·) <$> parseItems f rest
  | f + 1, toks =>
    -- one op: find how many tokens it takes
    let n := match toks with
      | "s" :: _ => 4
      | "sv" :: _ => 2
      | "nsv" :: _ => 2
      | "c" :: _ => 3
      | "k" :: _ => 3
      | "w" :: _ => 3
      | "n" :: _ => 2
      | "d" :: _ => 2
      | _ => 0
    if n == 0 || toks.length < n then none
    else match parseOps 2 (toks.take n) with
      | some [o] => (Item.op o :: ·) <$> parseItems f (toks.drop n)
      | _ => none

def ansTok : Ans → String
  | .plain r => respTok r
  | .parked => "parked"
  | .busy => "busy"

def ansOf : String → Option Ans
  | "parked" => some .parked
  | "busy" => some .busy
  | t => (respOf t).map .plain

def sortBySlot (l : List (Nat × Resp)) : List (Nat × Resp) := l.mergeSort (fun a b => a.1 ≤ b.1)

def outToks (o : Out) : List String :=
  ansTok o.ans :: (sortBySlot o.woken).map (fun (w, r) => "wk" ++ toString w ++ ":" ++ respTok r)

/-- `<pre><w>:<answer>` -/
def slotAns? (pre : String) (t : String) : Option (Nat × Resp) :=
  if t.startsWith pre then
    match (t.drop pre.length).toString.splitOn ":" with
    | [w, a] => do let w ← nat? w; let a ← respOf a; pure (w, a)
    | _ => none
  else none

/-- observed tokens of the items: one answer, then its `wk` tokens -/
def parseOuts : List Item → List String → Option (List Out × List String)
  | [], rest => some ([], rest)
  | _ :: its, t :: rest => do
    let a ← ansOf t
    let wk := rest.takeWhile (·.startsWith "wk")
    let rest' := rest.dropWhile (·.startsWith "wk")
    let wk ← wk.mapM (slotAns? "wk")
    let (os, tail) ← parseOuts its rest'
    pure (⟨a, wk⟩ :: os, tail)
  | _ :: _, [] => none

/-- `fin` then `idle<w>` / `late<w>:<answer>` -/
def parseFin : List String → Option (List Nat × List (Nat × Resp))
  | "fin" :: rest => rest.foldlM (fun (acc : List Nat × List (Nat × Resp)) t =>
      if t.startsWith "idle" then (nat? (t.drop 4).toString).map (fun w => (acc.1 ++ [w], acc.2))
      else (slotAns? "late" t).map (fun p => (acc.1, acc.2 ++ [p]))) ([], [])
  | _ => none

def pollsOfPark (ios : List (Item × Out)) (late : List (Nat × Resp)) : List (Nat × Resp) :=
  ios.flatMap (fun (it, o) =>
    (match it, o.ans with
      | .await w, .plain r => [(w, r)]
      | .op (.next w), .plain r => [(w, r)]
      | _, _ => []) ++ o.woken) ++ late

def itemIsWatch : Item → Bool
  | .op (.watch _) => true
  | _ => false

def handlePark (items : List Item) (obs : List String) : String × String :=
  let outs := Health.prun Health.pinit items
  let fin := (Health.pexec Health.pinit items).parked.mergeSort (fun a b => a ≤ b)
  let nslots := items.countP itemIsWatch
  let mexact := outs.flatMap outToks ++ ["fin"] ++ fin.map (fun w => "idle" ++ toString w)
  let mkey := reportKey nslots (pollsOfPark (items.zip outs) [])
  let (oexact, _) := splitHash obs
  let (verdict, same) : String × Option (List String) :=
    if obs == ["panic"] then ("fail:panic", none)
    else match parseOuts items oexact with
      | none => ("fail:unrecognised-answer", none)
      | some (oouts, tail) =>
        match parseFin tail with
        | none => ("fail:unrecognised-answer", none)
        | some (idle, late) =>
          match Spec.Health.checkPark [] [] (items.zip oouts) with
          | .error c => ("fail:" ++ c, none)
          | .ok (h, pk) =>
            -- a task that completed only when the clock was moved: judged like any completion
            match Spec.Health.checkWoken h pk late with
            | .error c => ("fail:" ++ c, none)
            | .ok (_, pk') =>
              if pk'.mergeSort (fun a b => a ≤ b) != idle.mergeSort (fun a b => a ≤ b) then
                ("fail:answer-count", none)
              else
                -- the model follows the observation up to repeated reports (`acceptPark`)
                match acceptPark ⟨Health.init, [], []⟩ (items.zip oouts) with
                | some s =>
                  ("ok", if late.isEmpty && s.parked.mergeSort (fun a b => a ≤ b) == idle.mergeSort (fun a b => a ≤ b)
                    then some (reportKey nslots (pollsOfPark (items.zip oouts) late)) else none)
                | none => ("ok", none)
  match same with
  | some okey => (String.intercalate " " (oexact ++ okey), verdict)
  | none => (String.intercalate " " (mexact ++ mkey), verdict)

/-! concurrent histories -/

def splitBar : List String → List (List String)
  | [] => [[]]
  | "|" :: rest => [] :: splitBar rest
  | t :: rest => match splitBar rest with
    | [] => [[t]]
    | g :: gs => (t :: g) :: gs

/-- observed records `tid inv res answer` -/
def parseRecs : Nat → List String → Option (List (Nat × Nat × Nat × Resp))
  | 0, _ => none
  | _, [] => some []
  | f + 1, t :: i :: r :: a :: rest => do
    let t ← nat? t; let i ← nat? i; let r ← nat? r; let a ← respOf a
    ((t, i, r, a) :: ·) <$> parseRecs f rest
  | _, _ => none

/-- Pairs a task's program with its records; records beyond the program are the final drain
(`next` on the task's stream, issued after every task has finished its program).

Windows.  Deliveries and ends may have been read ahead by the encoder during an earlier poll of
the same stream, so their window opens when the subscription returned.

`pend` answers.  A poll that finds the stream's `changed()` future parked on its `Notify` does
not re-read the channel version; it answers "pending" until the notification arrives, and
tokio delivers the notifications of one `send` to different receivers at different moments
(`watch` spreads receivers over several `Notify` cells and walks them in turn, after bumping
the version).  So while updates are in flight a `pend` only says "no wake-up yet", not "no
update yet", and is no evidence about the order of operations: a `pend` whose window overlaps
the window of any `set`/`clear` call (`upd`) is left out of the search.  A `send` returns only
after its wake-ups have been delivered, so every other `pend` — in particular every one in the
final drain — is a real answer and is kept, in its own window. -/
def mkCalls (upd : List (Nat × Nat)) : List Op → List (Nat × Nat × Resp) → Nat → List Lin.Call
  | _, [], _ => []
  | ops, (i, r, a) :: recs, subAt =>
    let (op, ops') := match ops with
      | [] => (Op.next 0, [])
      | o :: os => (o, os)
    let inv := match op, a with
      | .next _, .pending => i
      | .next _, _ => min i subAt
      | _, _ => i
    let subAt' := match op with
      | .watch _ => r
      | _ => subAt
    let skip := match op, a with
      | .next _, .pending => upd.any (fun u => u.1 < r && i < u.2)
      | _, _ => false
    if skip then mkCalls upd ops' recs subAt'
    else ⟨op, inv, r, a⟩ :: mkCalls upd ops' recs subAt'

def handleConc (progs : List (List Op)) (obs : List String) : String × String :=
  if obs == ["panic"] then ("not-linearizable", "fail:panic")
  else match parseRecs (obs.length + 1) obs with
    | none => ("not-linearizable", "fail:unrecognised-answer")
    | some recs =>
      -- windows of all update calls, over all tasks
      let upd : List (Nat × Nat) := (progs.zipIdx).flatMap (fun (ops, tid) =>
        let mine := (recs.filter (fun x => x.1 == tid)).map (·.2)
        (ops.zip mine).filterMap (fun (op, (i, r, _)) => match op with
          | .set _ _ => some (i, r)
          | .clear _ => some (i, r)
          | _ => none))
      let tasks : List Lin.Task := (progs.zipIdx).map (fun (ops, tid) =>
        let mine := (recs.filter (fun x => x.1 == tid)).map (·.2)
        ⟨mkCalls upd ops mine 0, Lin.noSlot⟩)
      let short := (progs.zipIdx).any (fun (ops, tid) =>
        (recs.filter (fun x => x.1 == tid)).length < ops.length)
      if short then ("not-linearizable", "fail:answer-count")
      else
        let v := Lin.linearizable Spec.Health.accept Spec.Health.numWatches [] tasks
        -- a history the property's clauses reject is a failing input whatever the model says of
        -- it: the model searches are skipped then (a change that breaks most histories must not
        -- cost three exhaustive searches per case)
        let m := if v == .no then .no else
          match Lin.linearizable Health.accept (fun s => s.watchers.length) Health.init tasks with
          | .no => Lin.linearizable acceptMD (fun s => s.h.watchers.length) ⟨Health.init, []⟩ tasks
          | r => r
        -- a search that ran out of budget decides nothing (neither a disagreement nor a failure)
        (if m == .no then "not-linearizable" else String.intercalate " " obs,
         if v == .no then "fail:not-linearizable" else "ok")

/-! ### `life` cases (audit aC18): handles, independent pairs, stack variants

`life st<k> p<pair> <op> p<pair> <op> …` — see harness/src/c18_x.rs.  The stack token is checked
and otherwise ignored: what sits between the generated client and the generated server (Routes,
an interceptor, compression, size limits) is no part of the model, so a stack that changes an
answer shows as a failing clause.  The process model (`Health.lrun`) gives the skeleton (which
items were health operations that happened); each pair's part is then handled exactly like the
`seq` case made of the health operations that happened on that pair
(`C18_pair_is_own_history`: that is what the process model answers). -/

/-- `NamedService::NAME` of the two user-defined services of c18_x.rs. -/
def xName : String → Option Name
  | "0" => some "helloworld.Greeter".toUTF8.toList
  | "1" => some "grpc.health.v1.health".toUTF8.toList
  | _ => none

def pairOf (t : String) : Option Nat :=
  if t.startsWith "p" then (nat? (t.drop 1).toString).bind (fun p => if p < 2 then some p else none) else none

def var? (t : String) : Option Nat := (nat? t).bind (fun v => if v < 3 then some v else none)

def parseLife : Nat → List String → Option (List LItem)
  | 0, _ => none
  | _, [] => some []
  | f + 1, p :: "s" :: r :: n :: st :: rest => do
    let p ← pairOf p; let r ← var? r; let n ← unhex n; let st ← stOf st
    (⟨p, .rep r (.set n st)⟩ :: ·) <$> parseLife f rest
  | f + 1, p :: "sv" :: r :: rest => do
    let p ← pairOf p; let r ← var? r
    (⟨p, .rep r (.set svcName .serving)⟩ :: ·) <$> parseLife f rest
  | f + 1, p :: "nsv" :: r :: rest => do
    let p ← pairOf p; let r ← var? r
    (⟨p, .rep r (.set svcName .notServing)⟩ :: ·) <$> parseLife f rest
  | f + 1, p :: "svx" :: r :: k :: rest => do
    let p ← pairOf p; let r ← var? r; let n ← xName k
    (⟨p, .rep r (.set n .serving)⟩ :: ·) <$> parseLife f rest
  | f + 1, p :: "nsvx" :: r :: k :: rest => do
    let p ← pairOf p; let r ← var? r; let n ← xName k
    (⟨p, .rep r (.set n .notServing)⟩ :: ·) <$> parseLife f rest
  | f + 1, p :: "c" :: r :: n :: rest => do
    let p ← pairOf p; let r ← var? r; let n ← unhex n
    (⟨p, .rep r (.clear n)⟩ :: ·) <$> parseLife f rest
  | f + 1, p :: "k" :: c :: n :: rest => do
    let p ← pairOf p; let c ← var? c; let n ← unhex n
    (⟨p, .cli c (.check n)⟩ :: ·) <$> parseLife f rest
  | f + 1, p :: "w" :: c :: n :: rest => do
    let p ← pairOf p; let c ← var? c; let n ← unhex n
    (⟨p, .cli c (.watch n)⟩ :: ·) <$> parseLife f rest
  | f + 1, p :: "n" :: w :: rest => do
    let p ← pairOf p; let w ← nat? w
    (⟨p, .str (.next w)⟩ :: ·) <$> parseLife f rest
  | f + 1, p :: "d" :: w :: rest => do
    let p ← pairOf p; let w ← nat? w
    (⟨p, .str (.drop w)⟩ :: ·) <$> parseLife f rest
  | f + 1, p :: "rd" :: r :: rest => do
    let p ← pairOf p; let r ← var? r
    (⟨p, .rdrop r⟩ :: ·) <$> parseLife f rest
  | f + 1, p :: "rc" :: r :: q :: rest => do
    let p ← pairOf p; let r ← var? r; let q ← var? q
    (⟨p, .rclone r q⟩ :: ·) <$> parseLife f rest
  | f + 1, p :: "kd" :: c :: rest => do
    let p ← pairOf p; let c ← var? c
    (⟨p, .cdrop c⟩ :: ·) <$> parseLife f rest
  | f + 1, p :: "kc" :: c :: q :: rest => do
    let p ← pairOf p; let c ← var? c; let q ← var? q
    (⟨p, .cclone c q⟩ :: ·) <$> parseLife f rest
  | _, _ => none

def lansTok : LAns → String
  | .eff _ => "."
  | .ok => "ok"
  | .noh => "noh"

def handleLife (items : List LItem) (obs : List String) : String × String :=
  let skel := "L" :: (Health.lrun Health.linit items).map (fun x => lansTok x.2)
  let ops0 := Health.effective 0 Health.liveInit Health.liveInit items
  let ops1 := Health.effective 1 Health.liveInit Health.liveInit items
  let (o0, o1, skelOk, shape) : List String × List String × Bool × Bool :=
    match splitBar obs with
    | [oskel, o0, o1] => (o0, o1, oskel == skel, true)
    | _ => ([], [], false, false)
  let r0 := handleSeq ops0 o0
  let r1 := handleSeq ops1 o1
  let line := String.intercalate " " skel ++ " | " ++ r0.1 ++ " | " ++ r1.1
  let verdict :=
    if obs == ["panic"] then "fail:panic"
    else if !shape then "fail:unrecognised-answer"
    -- which operations happened is bookkeeping of the harness; it must be the process model's
    else if !skelOk then "fail:handle-bookkeeping"
    else if r0.2 != "ok" then r0.2
    else r1.2
  (line, verdict)

def handle (case obs : List String) : String × String :=
  match case with
  | "life" :: st :: rest =>
    if !["st0", "st1", "st2", "st3", "st4"].contains st || rest.isEmpty then bad
    else match parseLife (rest.length + 1) rest with
    | none => bad
    | some items => handleLife items obs
  | "seq" :: rest =>
    match parseOps (rest.length + 1) rest with
    | none => bad
    | some ops => handleSeq ops obs
  | "park" :: rest =>
    match parseItems (rest.length + 1) rest with
    | none => bad
    | some items => handlePark items obs
  | "conc" :: seed :: rest =>
    match nat? seed, (splitBar rest).mapM (fun p => parseOps (p.length + 1) p) with
    | some _, some progs =>
      if (progs.drop 1).all (·.isEmpty) then bad else handleConc progs obs
    | _, _ => bad
  | _ => bad

end DriverC18
