import Driver.Proto
import TonicModel.Basic.ConnScript
import TonicModel.Model.Reconnect
import TonicModel.Spec.Reconnect
namespace DriverC14
open Proto ConnScript Reconnect

/-! token helpers -/

def stripPre (pre s : String) : Option String :=
  let p := pre.toList
  let l := s.toList
  if p.isPrefixOf l then some (String.ofList (l.drop p.length)) else none

def natAfter (pre s : String) : Option Nat := (stripPre pre s).bind (·.toNat?)

def mode? (s : String) : Option Bool :=
  if s = "L" then some true else if s = "E" then some false else none

def chars (s : String) : List Char := s.toList.filter (· ≠ '-')

def ansOfChars : Nat → List Char → Option (List Ans)
  | _, [] => some []
  | i, c :: cs =>
    match (if c = 'o' then some Ans.ok else if c = 'e' then some (Ans.err i)
           else if c = 'p' then some Ans.pending else none), ansOfChars (i + 1) cs with
    | some a, some r => some (a :: r)
    | _, _ => none

def outcome? (c : Char) : Option Outcome :=
  if c = 'F' ∨ c = 'f' then some .refuse
  else if c = 'S' ∨ c = 's' then some .accept
  else if c = 'X' ∨ c = 'x' then some .deadPeer
  else if c = 'T' ∨ c = 't' then some .timeout
  else none

def op? (c : Char) : Option Op :=
  if c = 'c' then some .call else if c = 'd' ∨ c = 'g' then some .die else none

def b01 (b : Bool) : String := if b then "1" else "0"

def stTok (r : R) : String :=
  let s := match r.st with
    | .idle => "0"
    | .connecting => "1"
    | .spent => "1"
    | .connected _ => "2"
  "s" ++ s ++ "e" ++ b01 r.error.isSome ++ "h" ++ b01 r.hasBeen

/-! unit: arbitrary `poll_ready` / `call` sequences -/

def uop? (c : Char) : Option UOp :=
  if c = 'r' then some .poll else if c = 'c' then some .call else none

def uoutTok : UOut → String
  | .polled .ready r => s!"r:ready:{stTok r}"
  | .polled .pending r => s!"r:pending:{stTok r}"
  | .polled (.failed e) r => s!"r:fail{e}:{stTok r}"
  | .polled .panic _ => "r:panic"
  | .called (.sent c) r => s!"c:sent{c}:{stTok r}"
  | .called (.error e) r => s!"c:err{e}:{stTok r}"
  | .called .panic _ => "c:panic"

def runUnit (r : R) (env : List Ans) (ops : List UOp) : List String :=
  match runOps r env ops with
  | (os, r', env') => os.map uoutTok ++ [s!"made={r'.made}", s!"left={env'.length}"]

def parseSt (s : String) : Option (Nat × Bool × Bool) :=
  match s.toList with
  | ['s', a, 'e', b, 'h', c] =>
    let st := a.toNat - 48
    if st ≤ 2 ∧ (b = '0' ∨ b = '1') ∧ (c = '0' ∨ c = '1') then some (st, b = '1', c = '1') else none
  | _ => none

def parseUnitTok (t : String) : Option Spec.Reconnect.UnitObs :=
  match t.splitOn ":" with
  | ["r", "panic"] => some ⟨.pollPanic, 0, false, false⟩
  | ["c", "panic"] => some ⟨.callPanic, 0, false, false⟩
  | [k, what, st] =>
    match parseSt st with
    | none => none
    | some (s, e, h) =>
      let ev : Option Spec.Reconnect.UnitEv :=
        if k = "r" then
          if what = "ready" then some .ready
          else if what = "pending" then some .pending
          else (natAfter "fail" what).map .fail
        else if k = "c" then
          if what = "pending" then some .cpending
          else match natAfter "sent" what with
            | some c => some (.sent c)
            | none => (natAfter "err" what).map .cerr
        else none
      ev.map fun ev => ⟨ev, s, e, h⟩
  | _ => none

def isMeta (t : String) : Bool := (stripPre "made=" t).isSome || (stripPre "left=" t).isSome

def parseAll {α} (f : String → Option α) : List String → Option (List α)
  | [] => some []
  | t :: ts =>
    match f t, parseAll f ts with
    | some a, some r => some (a :: r)
    | _, _ => none

def leftOf (obs : List String) : Nat :=
  ((obs.filterMap (natAfter "left=")).head?).getD 0

/-! sess: driven like `Channel` drives it -/

def resTok : Res → String
  | .resp c => s!"resp{c}"
  | .err e => s!"err{e}"
  | .closed e => s!"closed{e}"
  | .hang => "hang"
  | .panic => "panic"

def parseRes (t : String) : Option Res :=
  if t = "hang" then some .hang
  else if t = "panic" then some .panic
  else match natAfter "resp" t with
    | some c => some (.resp c)
    | none => match natAfter "err" t with
      | some e => some (.err e)
      | none => (natAfter "closed" t).map .closed

def runSess (isLazy : Bool) (env : List Ans) (n : Nat) : List String :=
  match channelSession isLazy env n with
  | (b, rs, r, env') =>
    (match b with
     | .none => []
     | .ok => [s!"build:ok:{stTok (connectEager env).1}"]
     | .fail e => [s!"build:fail{e}"]
     | .hang => ["build:hang"]
     | .panic => ["build:panic"]) ++ rs.map resTok ++ [s!"made={r.made}", s!"left={env'.length}"]

/-! e2e -/

def fTok : Option Nat → String
  | some k => s!"f{k}"
  | none => "f?"

def buildTok (t : Trace) : String :=
  match t.build with
  | .ok => s!"build:ok:a{t.buildAttempts}"
  | .error code att => s!"build:err{code}:{fTok att}:a{t.buildAttempts}"
  | .hang => s!"build:hang:a{t.buildAttempts}"

def evTok : Ev → String
  | .die => "d"
  | .call (.resp c) a => s!"c:resp{c}:a{a}"
  | .call (.error code att) a => s!"c:err{code}:{fTok att}:a{a}"
  | .call .hang a => s!"c:hang:a{a}"
  | .call .panic a => s!"c:panic:a{a}"
  | .call .garbled a => s!"c:garbled:a{a}"

def parseF (s : String) : Option (Option Nat) :=
  if s = "f?" then some none else (natAfter "f" s).map some

def parseBuild (t : String) : Option (BuildRes × Nat) :=
  match t.splitOn ":" with
  | ["build", "ok", a] => (natAfter "a" a).map fun a => (.ok, a)
  | ["build", "hang", a] => (natAfter "a" a).map fun a => (.hang, a)
  | ["build", e, f, a] =>
    match natAfter "err" e, parseF f, natAfter "a" a with
    | some code, some att, some a => some (.error code att, a)
    | _, _, _ => none
  | _ => none

def parseEv (t : String) : Option Ev :=
  if t = "d" then some .die
  else match t.splitOn ":" with
    | ["c", what, a] =>
      match natAfter "a" a with
      | none => none
      | some a =>
        if what = "hang" then some (.call .hang a)
        else if what = "panic" then some (.call .panic a)
        else if what = "garbled" then some (.call .garbled a)
        else (natAfter "resp" what).map fun c => .call (.resp c) a
    | ["c", e, f, a] =>
      match natAfter "err" e, parseF f, natAfter "a" a with
      | some code, some att, some a => some (.call (.error code att) a)
      | _, _, _ => none
    | _ => none

def parseTrace : List String → Option Trace
  | [] => none
  | b :: evs =>
    match parseBuild b, parseAll parseEv evs with
    | some (br, a), some evs => some { build := br, buildAttempts := a, evs := evs }
    | _, _ => none

def handle (case obs : List String) : String × String :=
  match case with
  | ["unit", m, envS, opsS] =>
    match mode? m, ansOfChars 0 (chars envS), parseAll (fun s => (s.toList.head?).bind uop?) ((chars opsS).map (String.singleton ·)) with
    | some isLazy, some env, some ops =>
      let model := String.intercalate " " (runUnit (R.init isLazy) env ops)
      let v := match parseAll parseUnitTok (obs.filter (!isMeta ·)) with
        | some os => verdict (Spec.Reconnect.unitClauses env os)
        | none => "fail:unparsable-observation"
      (model, v)
    | _, _, _ => bad
  | ["sess", m, envS, nS] =>
    match mode? m, ansOfChars 0 (chars envS), nat? nS with
    | some isLazy, some env, some n =>
      let model := String.intercalate " " (runSess isLazy env n)
      let body := obs.filter (!isMeta ·)
      let (build, rest) : Option SessBuild × List String := match body with
        | b :: rest =>
          if (stripPre "build:" b).isSome then
            (if (stripPre "build:ok:" b).isSome then some .ok
             else if b = "build:hang" then some .hang
             else if b = "build:panic" then some .panic
             else (natAfter "build:fail" b).map .fail, rest)
          else (some .none, body)
        | [] => (some .none, [])
      let v := match build, parseAll parseRes rest with
        | some b, some rs => verdict (Spec.Reconnect.sessBuildClauses isLazy env b (leftOf obs) ++
            Spec.Reconnect.sessClauses env rs (leftOf obs))
        | _, _ => "fail:unparsable-observation"
      (model, v)
    | _, _, _ => bad
  | [kind, m, outsS, opsS] =>
    if kind ≠ "e2e" ∧ kind ≠ "e2n" then bad else
    match mode? m, parseAll (fun s => (s.toList.head?).bind outcome?) ((chars outsS).map (String.singleton ·)),
          parseAll (fun s => (s.toList.head?).bind op?) ((chars opsS).map (String.singleton ·)) with
    | some isLazy, some outs, some ops =>
      let t := E2E.run true isLazy outs ops
      let model := String.intercalate " " (buildTok t :: t.evs.map evTok)
      let v := match parseTrace obs with
        | some ot => verdict (Spec.Reconnect.clauses isLazy outs ops ot)
        | none => "fail:unparsable-observation"
      (model, v)
    | _, _, _ => bad
  | _ => bad

end DriverC14
