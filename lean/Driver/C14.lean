import Driver.Proto
import TonicModel.Basic.ConnScript
import TonicModel.Basic.ErrChain
import TonicModel.Model.Reconnect
import TonicModel.Spec.Reconnect
import TonicModel.Model.ReconnectAbandon
import TonicModel.Spec.ReconnectAbandon
import Driver.C14Bal
namespace DriverC14
open Proto ConnScript Reconnect ErrChain

/-! token helpers -/

def stripPre (pre s : String) : Option String :=
  let p := pre.toList
  let l := s.toList
  if p.isPrefixOf l then some (String.ofList (l.drop p.length)) else none

def natAfter (pre s : String) : Option Nat := (stripPre pre s).bind (·.toNat?)

def mode? (s : String) : Option Bool :=
  if s = "L" then some true else if s = "E" then some false else none

def chars (s : String) : List Char := s.toList.filter (· ≠ '-')

def ansOfChars : Nat → List Char → Option (List Ans)
  | _, [] => some []
  | i, c :: cs =>
    match (if c = 'o' then some Ans.ok else if c = 'e' then some (Ans.err i)
           else if c = 'p' then some Ans.pending else none), ansOfChars (i + 1) cs with
    | some a, some r => some (a :: r)
    | _, _ => none

def outcome? (c : Char) : Option Outcome :=
  if c = 'F' ∨ c = 'f' then some .refuse
  else if c = 'S' ∨ c = 's' then some .accept
  else if c = 'X' ∨ c = 'x' then some .deadPeer
  else if c = 'T' ∨ c = 't' then some .timeout
  else none

/-- `c` plain call; `z` zero deadline; `n`/`s`/`l` a 1 ns / short / long deadline (in virtual time
the answer of a reachable peer comes first: an ordinary call); `i`/`j` unary / server-streaming
call that is in flight when the peer drops the connection; `d`/`g` the peer drops the connection.
`p` two callers at the same moment. `zeroAll`: `Endpoint::timeout(0)` makes every call a
zero-deadline call. -/
def opZ? (zeroAll : Bool) (c : Char) : Option Op :=
  if c = 'd' ∨ c = 'g' then some .die
  else if c = 'z' then some .callZero
  -- `a`: a call abandoned by the application once it is with the peer: for everybody else an
  -- ordinary call (dimension audit; `harness/src/c14_x.rs`)
  else if c = 'c' ∨ c = 'n' ∨ c = 's' ∨ c = 'l' ∨ c = 'a' then some (if zeroAll then .callZero else .call)
  else if c = 'i' ∨ c = 'j' then some (if zeroAll then .callZero else .callDie)
  else if c = 'p' ∧ !zeroAll then some .pair
  else none

def op? (c : Char) : Option Op := opZ? false c

/-- `e2d` with the keep-alive options (`k`): `h`, the peer goes silent, is the fault `d` by the
next quiescent point (the client has given the connection up). Without `k`: no such op. -/
def opK? (keepAlive zeroAll : Bool) (c : Char) : Option Op :=
  if c = 'h' then (if keepAlive then some .die else none) else opZ? zeroAll c

/-- The endpoint options of `e2d`. `z n s l` = `Endpoint::timeout`, `q` = `concurrency_limit(1)`,
`r` = `rate_limit`; added by the dimension audit, all of them invisible to the property: `y` a
connector that insists on `poll_ready` before `call`, `k` HTTP/2 keep-alive, `o` origin and user
agent, `x` a user executor, `w` window sizes and socket options, `b` `buffer_size(1)`. -/
def optOk (c : Char) : Bool :=
  c = 'z' ∨ c = 'n' ∨ c = 's' ∨ c = 'l' ∨ c = 'q' ∨ c = 'r' ∨
  c = 'y' ∨ c = 'k' ∨ c = 'o' ∨ c = 'x' ∨ c = 'w' ∨ c = 'b'

/-- `net`: the constructor of the `Endpoint` (`tcp` / `uds` = `Endpoint::from_shared`); which one
is used is invisible to the property. -/
def netCtorOk (t : String) : Bool :=
  ["tcp", "uds", "tcps", "tcpn", "tcpb", "tcpc", "uds2", "udss", "udss2", "udsp", "udst", "udsl"].contains t

def b01 (b : Bool) : String := if b then "1" else "0"

def stTok (r : R) : String :=
  let s := match r.st with
    | .idle => "0"
    | .connecting => "1"
    | .spent => "1"
    | .connected _ => "2"
  "s" ++ s ++ "e" ++ b01 r.error.isSome ++ "h" ++ b01 r.hasBeen

/-! unit: arbitrary `poll_ready` / `call` sequences -/

def uop? (c : Char) : Option UOp :=
  if c = 'r' then some .poll else if c = 'c' then some .call else none

def uoutTok : UOut → String
  | .polled .ready r => s!"r:ready:{stTok r}"
  | .polled .pending r => s!"r:pending:{stTok r}"
  | .polled (.failed e) r => s!"r:fail{e}:{stTok r}"
  | .polled .panic _ => "r:panic"
  | .called (.sent c) r => s!"c:sent{c}:{stTok r}"
  | .called (.error e) r => s!"c:err{e}:{stTok r}"
  | .called .panic _ => "c:panic"

def runUnit (r : R) (env : List Ans) (ops : List UOp) : List String :=
  match runOps r env ops with
  | (os, r', env') => os.map uoutTok ++ [s!"made={r'.made}", s!"left={env'.length}"]

def parseSt (s : String) : Option (Nat × Bool × Bool) :=
  match s.toList with
  | ['s', a, 'e', b, 'h', c] =>
    let st := a.toNat - 48
    if st ≤ 2 ∧ (b = '0' ∨ b = '1') ∧ (c = '0' ∨ c = '1') then some (st, b = '1', c = '1') else none
  | _ => none

def parseUnitTok (t : String) : Option Spec.Reconnect.UnitObs :=
  match t.splitOn ":" with
  | ["r", "panic"] => some ⟨.pollPanic, 0, false, false⟩
  | ["c", "panic"] => some ⟨.callPanic, 0, false, false⟩
  | [k, what, st] =>
    match parseSt st with
    | none => none
    | some (s, e, h) =>
      let ev : Option Spec.Reconnect.UnitEv :=
        if k = "r" then
          if what = "ready" then some .ready
          else if what = "pending" then some .pending
          else (natAfter "fail" what).map .fail
        else if k = "c" then
          if what = "pending" then some .cpending
          else match natAfter "sent" what with
            | some c => some (.sent c)
            | none => (natAfter "err" what).map .cerr
        else none
      ev.map fun ev => ⟨ev, s, e, h⟩
  | _ => none

def isMeta (t : String) : Bool := (stripPre "made=" t).isSome || (stripPre "left=" t).isSome

def parseAll {α} (f : String → Option α) : List String → Option (List α)
  | [] => some []
  | t :: ts =>
    match f t, parseAll f ts with
    | some a, some r => some (a :: r)
    | _, _ => none

def leftOf (obs : List String) : Nat :=
  ((obs.filterMap (natAfter "left=")).head?).getD 0

/-! sess: driven like `Channel` drives it -/

def resTok : Res → String
  | .resp c => s!"resp{c}"
  | .err e => s!"err{e}"
  | .closed e => s!"closed{e}"
  | .hang => "hang"
  | .panic => "panic"

def parseRes (t : String) : Option Res :=
  if t = "hang" then some .hang
  else if t = "panic" then some .panic
  else match natAfter "resp" t with
    | some c => some (.resp c)
    | none => match natAfter "err" t with
      | some e => some (.err e)
      | none => (natAfter "closed" t).map .closed

def runSess (isLazy : Bool) (env : List Ans) (n : Nat) : List String :=
  match channelSession isLazy env n with
  | (b, rs, r, env') =>
    (match b with
     | .none => []
     | .ok => [s!"build:ok:{stTok (connectEager env).1}"]
     | .fail e => [s!"build:fail{e}"]
     | .hang => ["build:hang"]
     | .panic => ["build:panic"]) ++ rs.map resTok ++ [s!"made={r.made}", s!"left={env'.length}"]

/-! e2e -/

def fTok : Option Nat → String
  | some k => s!"f{k}"
  | none => "f?"

def buildTok (t : Trace) : String :=
  match t.build with
  | .ok => s!"build:ok:a{t.buildAttempts}"
  | .error code att => s!"build:err{code}:{fTok att}:a{t.buildAttempts}"
  | .hang => s!"build:hang:a{t.buildAttempts}"

def resTok' : CallRes → String
  | .resp c => s!"resp{c}"
  | .error code att => s!"err{code}:{fTok att}"
  | .hang => "hang"
  | .panic => "panic"
  | .garbled => "garbled"
  | .expired => "exp"
  | .lost c => s!"lost{c}"

def parseRes' (t : String) : Option CallRes :=
  if t = "hang" then some .hang
  else if t = "panic" then some .panic
  else if t = "garbled" then some .garbled
  else if t = "exp" then some .expired
  else match t.splitOn ":" with
    | [e, f] =>
      match natAfter "err" e, (if f = "f?" then some none else (natAfter "f" f).map some) with
      | some code, some att => some (.error code att)
      | _, _ => none
    | [w] =>
      match natAfter "lost" w with
      | some c => some (.lost c)
      | none => (natAfter "resp" w).map .resp
    | _ => none

def evTok : Ev → String
  | .die => "d"
  | .pair ra rb a => s!"p={resTok' ra}={resTok' rb}=a{a}"
  | .call (.resp c) a => s!"c:resp{c}:a{a}"
  | .call (.error code att) a => s!"c:err{code}:{fTok att}:a{a}"
  | .call .hang a => s!"c:hang:a{a}"
  | .call .panic a => s!"c:panic:a{a}"
  | .call .garbled a => s!"c:garbled:a{a}"
  | .call .expired a => s!"c:exp:a{a}"
  | .call (.lost c) a => s!"c:lost{c}:a{a}"

def parseF (s : String) : Option (Option Nat) :=
  if s = "f?" then some none else (natAfter "f" s).map some

def parseBuild (t : String) : Option (BuildRes × Nat) :=
  match t.splitOn ":" with
  | ["build", "ok", a] => (natAfter "a" a).map fun a => (.ok, a)
  | ["build", "hang", a] => (natAfter "a" a).map fun a => (.hang, a)
  | ["build", e, f, a] =>
    match natAfter "err" e, parseF f, natAfter "a" a with
    | some code, some att, some a => some (.error code att, a)
    | _, _, _ => none
  | _ => none

def parseEv (t : String) : Option Ev :=
  if t = "d" then some .die
  else if (stripPre "p=" t).isSome then
    match t.splitOn "=" with
    | [_, ra, rb, a] =>
      match parseRes' ra, parseRes' rb, natAfter "a" a with
      | some ra, some rb, some a => some (.pair ra rb a)
      | _, _, _ => none
    | _ => none
  else match t.splitOn ":" with
    | ["c", what, a] =>
      match natAfter "a" a with
      | none => none
      | some a =>
        if what = "hang" then some (.call .hang a)
        else if what = "panic" then some (.call .panic a)
        else if what = "garbled" then some (.call .garbled a)
        else if what = "exp" then some (.call .expired a)
        else match natAfter "lost" what with
          | some c => some (.call (.lost c) a)
          | none => (natAfter "resp" what).map fun c => .call (.resp c) a
    | ["c", e, f, a] =>
      match natAfter "err" e, parseF f, natAfter "a" a with
      | some code, some att, some a => some (.call (.error code att) a)
      | _, _, _ => none
    | _ => none

def parseTrace : List String → Option Trace
  | [] => none
  | b :: evs =>
    match parseBuild b, parseAll parseEv evs with
    | some (br, a), some evs => some { build := br, buildAttempts := a, evs := evs }
    | _, _ => none


/-! cls / e2x: error chains -/

def ioKind? (s : String) : Option IoKind := IoKind.all.find? (·.name = s)

def node? (t : String) : Option Node :=
  if t = "T" then some .timeoutExpired
  else if t = "C" then some .connectError
  else if t = "L" then some .tls
  else if t = "X" then some .transport
  else if t = "H2.-" then some (.h2 none)
  else if t = "Y.00" then some (.hyper ⟨false, false⟩)
  else if t = "Y.10" then some (.hyper ⟨true, false⟩)
  else if t = "Y.01" then some (.hyper ⟨false, true⟩)
  else if t = "Y.11" then some (.hyper ⟨true, true⟩)
  else match natAfter "H2." t with
    | some n => some (.h2 (some n))
    | none =>
      match stripPre "I." t with
      | some k => (ioKind? k).map .io
      | none =>
        match natAfter "S" t with
        | some c => some (.status c)
        | none => (natAfter "W" t).map .custom

def nodeTok : Node → String
  | .status c => s!"S{c}"
  | .timeoutExpired => "T"
  | .connectError => "C"
  | .hyper h => "Y." ++ b01 h.isTimeout ++ b01 h.isCanceled
  | .h2 none => "H2.-"
  | .h2 (some n) => s!"H2.{n}"
  | .io k => "I." ++ k.name
  | .tls => "L"
  | .transport => "X"
  | .custom i => s!"W{i}"

def chainTok (c : List Node) : String :=
  if c.isEmpty then "-" else String.intercalate ">" (c.map nodeTok)

def chain? (s : String) : Option (List Node) :=
  if s = "-" then some [] else parseAll node? (s.splitOn ">")

/-- What the harness can build from a case: `W`, `I:` and `C` may wrap a further error, the
others are leaves; a `C` needs something to wrap; `X` and `Y` only arise from real failures.
`Yh` (case side only) is the error of a real hyper HTTP/2 handshake on a closed transport. -/
def buildable : List Node → Bool
  | [] => false
  | [n] =>
    (match n with
     | .connectError => false
     | .transport => false
     | .hyper _ => false
     | .status _ => true
     | .timeoutExpired => true
     | .h2 r => r.isSome
     | .io _ => true
     | .tls => true
     | .custom _ => true)
  | n :: m :: rest =>
    (match n with
     | .connectError => true
     | .io _ => true
     | .custom _ => true
     | .status _ => false
     | .timeoutExpired => false
     | .hyper _ => false
     | .h2 _ => false
     | .tls => false
     | .transport => false) && buildable (m :: rest)

/-- The case-side chain: like `chain?`, plus a trailing `Yh`. -/
def caseChain? (s : String) : Option (List Node) :=
  let ts := s.splitOn ">"
  match ts.getLast? with
  | some "Yh" =>
    let front := ts.dropLast
    let tail : List Node := E2E.causeOf .deadPeer
    if front.isEmpty then some tail
    else match parseAll node? front with
      | some pre => if buildable (pre ++ [.custom 0]) then some (pre ++ tail) else none
      | none => none
  | _ =>
    match chain? s with
    | some c => if buildable c then some c else none
    | none => none

/-- `code=<n>` / `walk=<chain>` pairs out of an `:`-separated token. -/
def fieldOf (pre : String) (parts : List String) : Option String :=
  (parts.filterMap (stripPre pre)).head?


/-! net: `Endpoint::connect()` / `connect_lazy()` against a real socket -/

def nop? (c : Char) : Option NOp :=
  if c = 'u' then some .up else if c = 'k' ∨ c = 'x' then some .down else if c = 'c' then some .call else none

def nresTok : NRes → String
  | .resp g => s!"c:resp{g}"
  | .error code => s!"c:err{code}"
  | .hang => "c:hang"
  | .garbled => "c:garbled"

def parseNRes (t : String) : Option NRes :=
  if t = "c:hang" then some .hang
  else if t = "c:garbled" then some .garbled
  else match natAfter "c:resp" t with
    | some g => some (.resp g)
    | none => (natAfter "c:err" t).map .error

def nbuildTok : NBuild → String
  | .ok => "build:ok"
  | .error code => s!"build:err{code}"
  | .hang => "build:hang"

def parseNBuild (t : String) : Option NBuild :=
  if t = "build:ok" then some .ok
  else if t = "build:hang" then some .hang
  else (natAfter "build:err" t).map .error

/-! e2a: scripts with abandoned calls -/

def aop? (c : Char) : Option AOp :=
  if c = 'c' then some .call else if c = 'd' then some .die else if c = 'A' then some .abandon else none

def aevTok : AEv → String
  | .die => "d"
  | .abandoned a => s!"A:a{a}"
  | .call res a => evTok (.call res a)

def parseAEv (t : String) : Option AEv :=
  match natAfter "A:a" t with
  | some a => some (.abandoned a)
  | none =>
    match parseEv t with
    | some .die => some .die
    | some (.call res a) => some (.call res a)
    | some (.pair _ _ _) => none
    | none => none

def handleCase (case obs : List String) : String × String :=
  match case with
  | "bal" :: rest => DriverC14Bal.handle rest obs
  | ["e2a", m, outsS, opsS] =>
    if (chars outsS).any (fun c => c = 'T' ∨ c = 't') then bad else
    match mode? m, parseAll (fun s => (s.toList.head?).bind outcome?) ((chars outsS).map (String.singleton ·)),
          parseAll (fun s => (s.toList.head?).bind aop?) ((chars opsS).map (String.singleton ·)) with
    | some isLazy, some outs, some ops =>
      let t := Reconnect.Abandon.run isLazy outs ops
      let model := String.intercalate " "
        (buildTok { build := t.build, buildAttempts := t.buildAttempts, evs := [] } :: t.evs.map aevTok)
      let v := match obs with
        | b :: evs =>
          match parseBuild b, parseAll parseAEv evs with
          | some (br, a), some evs =>
            verdict (Spec.ReconnectAbandon.clausesA isLazy outs ops { build := br, buildAttempts := a, evs := evs })
          | _, _ => "fail:unparsable-observation"
        | [] => "fail:unparsable-observation"
      (model, v)
    | _, _, _ => bad
  | ["unit", m, envS, opsS] =>
    match mode? m, ansOfChars 0 (chars envS), parseAll (fun s => (s.toList.head?).bind uop?) ((chars opsS).map (String.singleton ·)) with
    | some isLazy, some env, some ops =>
      let model := String.intercalate " " (runUnit (R.init isLazy) env ops)
      let v := match parseAll parseUnitTok (obs.filter (!isMeta ·)) with
        | some os => verdict (Spec.Reconnect.unitClauses env os)
        | none => "fail:unparsable-observation"
      (model, v)
    | _, _, _ => bad
  | ["sess", m, envS, nS] =>
    match mode? m, ansOfChars 0 (chars envS), nat? nS with
    | some isLazy, some env, some n =>
      let model := String.intercalate " " (runSess isLazy env n)
      let body := obs.filter (!isMeta ·)
      let (build, rest) : Option SessBuild × List String := match body with
        | b :: rest =>
          if (stripPre "build:" b).isSome then
            (if (stripPre "build:ok:" b).isSome then some .ok
             else if b = "build:hang" then some .hang
             else if b = "build:panic" then some .panic
             else (natAfter "build:fail" b).map .fail, rest)
          else (some .none, body)
        | [] => (some .none, [])
      let v := match build, parseAll parseRes rest with
        | some b, some rs => verdict (Spec.Reconnect.sessBuildClauses isLazy env b (leftOf obs) ++
            Spec.Reconnect.sessClauses env rs (leftOf obs))
        | _, _ => "fail:unparsable-observation"
      (model, v)
    | _, _, _ => bad
  | ["cls", chainS] =>
    match caseChain? chainS with
    | none => bad
    | some chain =>
      let model := s!"code={ErrClass.fromError chain} walk={chainTok chain}"
      let v := match (fieldOf "code=" obs).bind (·.toNat?), (fieldOf "walk=" obs).bind chain? with
        | some code, some walk => verdict (Spec.Reconnect.classClauses walk code)
        | _, _ => "fail:unparsable-observation"
      (model, v)
  | ["e2x", m, tS, causeS] =>
    match mode? m, caseChain? causeS with
    | some isLazy, some cause =>
      if tS ≠ "t" ∧ tS ≠ "n" then bad else
      let full := ErrClass.attemptChain true true cause
      let code := ErrClass.fromError full
      let model :=
        if isLazy then s!"build:ok:a0 c:err{code}:a1:walk={chainTok full} c:err{code}:a2:walk={chainTok full}"
        else s!"build:err{code}:a1:walk={chainTok full}"
      -- the observation as a trace of the all-attempts-fail script, plus the class of each error
      let parseErr (t : String) : Option (Nat × Nat × List Node) :=
        let parts := t.splitOn ":"
        match (fieldOf "err" parts).bind (·.toNat?), (fieldOf "a" parts).bind (·.toNat?),
              (fieldOf "walk=" parts).bind chain? with
        | some c, some a, some w => some (c, a, w)
        | _, _, _ => none
      let v := match obs with
        | [] => "fail:unparsable-observation"
        | b :: evs =>
          let errs := (if isLazy then evs else [b]).map parseErr
          if errs.any (·.isNone) then
            -- not an error where one is due: let the script oracle name the clause
            match parseTrace ((b :: evs).map fun t => String.intercalate ":" ((t.splitOn ":").filter fun p => (stripPre "walk=" p).isNone)) with
            | some ot => verdict (Spec.Reconnect.clauses isLazy [] [.call, .call] ot ++ [("error-expected", false)])
            | none => "fail:unparsable-observation"
          else
            let es := errs.filterMap id
            let trace : Trace :=
              if isLazy then
                { build := .ok, buildAttempts := 0, evs := es.map fun (c, a, _) => Ev.call (.error c none) a }
              else
                match es with
                | (c, a, _) :: _ => { build := .error c none, buildAttempts := a, evs := [] }
                | [] => { build := .hang, buildAttempts := 0, evs := [] }
            verdict (Spec.Reconnect.clauses isLazy [] [.call, .call] trace ++
              (es.map fun (c, _, w) => Spec.Reconnect.classClauses w c).flatten)
      (model, v)
    | _, _ => bad
  | ["net", tr, m, script] =>
    if !netCtorOk tr then bad else
    match mode? m, script.splitOn "b" with
    | some isLazy, [preS, postS] =>
      match parseAll (fun s => (s.toList.head?).bind nop?) (preS.toList.map (String.singleton ·)),
            parseAll (fun s => (s.toList.head?).bind nop?) (postS.toList.map (String.singleton ·)) with
      | some pre, some post =>
        if pre.contains .call then bad else
        let t := Net.run isLazy pre post
        let model := String.intercalate " " (nbuildTok t.build :: t.evs.map nresTok)
        let v := match obs with
          | b :: evs =>
            match parseNBuild b, parseAll parseNRes evs with
            | some br, some rs => verdict (Spec.Reconnect.netClauses isLazy pre post { build := br, evs := rs })
            | _, _ => "fail:unparsable-observation"
          | [] => "fail:unparsable-observation"
        (model, v)
      | _, _ => bad
    | _, _ => bad
  | ["e2d", m, et, outsS, opsS] =>
    -- Endpoint options: z/n/s/l = Endpoint::timeout(0 / 1 ns / short / long), q = concurrency_limit(1),
    -- r = rate_limit; `-` = none. Only a zero timeout changes what callers may see.
    if et ≠ "-" ∧ !(et.toList.all optOk) then bad else
    -- a one-slot buffer cannot hold the two requests of `p` the way the harness issues them
    if et.toList.contains 'b' ∧ opsS.toList.contains 'p' then bad else
    match mode? m, parseAll (fun s => (s.toList.head?).bind outcome?) ((chars outsS).map (String.singleton ·)),
          parseAll (fun s => (s.toList.head?).bind (opK? (et.toList.contains 'k') (et.toList.contains 'z'))) ((chars opsS).map (String.singleton ·)) with
    | some isLazy, some outs, some ops =>
      let t := E2E.run true isLazy outs ops
      let model := String.intercalate " " (buildTok t :: t.evs.map evTok)
      let v := match parseTrace obs with
        | some ot => verdict (Spec.Reconnect.clauses isLazy outs ops ot)
        | none => "fail:unparsable-observation"
      (model, v)
    | _, _, _ => bad
  | [kind, m, outsS, opsS] =>
    -- `e2c`: `Channel::new` / `Channel::connect` called directly (same script, same prediction)
    if kind ≠ "e2e" ∧ kind ≠ "e2n" ∧ kind ≠ "e2c" then bad else
    match mode? m, parseAll (fun s => (s.toList.head?).bind outcome?) ((chars outsS).map (String.singleton ·)),
          parseAll (fun s => (s.toList.head?).bind op?) ((chars opsS).map (String.singleton ·)) with
    | some isLazy, some outs, some ops =>
      let t := E2E.run true isLazy outs ops
      let model := String.intercalate " " (buildTok t :: t.evs.map evTok)
      let v := match parseTrace obs with
        | some ot => verdict (Spec.Reconnect.clauses isLazy outs ops ot)
        | none => "fail:unparsable-observation"
      (model, v)
    | _, _, _ => bad
  | _ => bad

/-- A run of the real code that ended in a panic (the harness reports the whole case as `panic`)
fails the property's "without panicking" whatever else happened. -/
def handle (case obs : List String) : String × String :=
  match handleCase case obs with
  | (model, v) => if obs = ["panic"] ∧ model ≠ "bad-case" then (model, "fail:completes-without-panicking") else (model, v)

end DriverC14
