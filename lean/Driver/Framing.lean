import Driver.Proto
import TonicModel.Model.Framing
import TonicModel.Spec.Framing
/-
Shared driver code for the framing family (C01, C03, C06, C07): case parsing, running the
model, rendering, and the spec-side helpers used by the per-property verdicts.
Case grammar: see harness/src/framing.rs.
-/
namespace DriverFraming
open Proto Framing

def encOf (s : String) : Option Enc :=
  if s = "gzip" then some .gzip else if s = "deflate" then some .deflate
  else if s = "zstd" then some .zstd else none

def clsName : Cls → String
  | .ok => "ok" | .user => "user" | .tooLargeEnc => "tooLargeEnc" | .over4G => "over4G" | .encode => "encode"
  | .badFlag => "badFlag" | .noEncoding => "noEncoding" | .tooLargeDec => "tooLargeDec"
  | .decompress => "decompress" | .codec => "codec" | .eof => "eof" | .http => "http"

def stTok (p : String) (st : St) : String := s!"{p}{st.code}:{clsName st.cls}"

/-- compression table from the case: (raw or `none` when the reference decompressor fails, compressed) -/
abbrev ZTab := List (Option Bytes × Bytes)

def tableCodec (tab : ZTab) (prost : Bool := false) : Codec Bytes where
  ser := id
  de := fun b => if !prost && b.head? = some 255 then none else some b
  deErr := 13
  cz := fun _ raw => match tab.find? (fun e => e.1 == some raw) with
    | some e => e.2
    | none => []
  dz := fun _ comp => match tab.find? (fun e => e.2 == comp) with
    | some e => e.1
    | none => none

def parseZ : Nat → List String → Option (ZTab × List String)
  | 0, rest => some ([], rest)
  | k + 1, r :: c :: rest =>
    match (if r = "F" then some none else (unhex r).map some), unhex c, parseZ k rest with
    | some raw, some comp, some (t, rest') => some ((raw, comp) :: t, rest')
    | _, _, _ => none
  | _, _ => none

/-- hex without the leading `x` marker, as used inside event tokens -/
def unhexBare (s : String) : Option Bytes := if s = "." then some [] else Hex.decodeChars s.toList
def hexBare (b : Bytes) : String := String.ofList (Hex.encodeChars b)

structure EncCase where
  prost : Bool := false
  cfg : EncCfg
  comp : Option Enc      -- configured, before the override
  npolls : Nat
  tab : ZTab
  evs : List (SrcEv Bytes)

def parseSrcEv (s : String) : Option (SrcEv Bytes) :=
  match s.toList with
  | 'i' :: cs => (Hex.decodeChars cs).map .item
  | 'e' :: cs => (String.ofList cs).toNat?.map (fun c => .err ⟨c, .user⟩)
  | ['p'] => some .pending
  | _ => none

def parseEncCase : List String → Option EncCase
  | kind :: role :: comp :: ovr :: y :: buf :: mx :: np :: "Z" :: k :: rest =>
    if kind ≠ "enc" ∧ kind ≠ "penc" then none else
    match nat? y, optNat? mx, nat? np, nat? k, nat? buf with
    | some y, some mx, some np, some k, some buf =>
      match parseZ k rest with
      | some (tab, "EV" :: evs) =>
        match evs.mapM parseSrcEv with
        | some evs =>
          let c := encOf comp
          some { prost := kind = "penc",
                 -- the model's `EncodeBody::new_server` / `new_client` (the per-response opt-out is the model's)
                 cfg := if role = "s" then Enc.newServer c (if ovr = "d" then .disable else .inherit) y buf mx
                        else Enc.newClient c y buf mx,
                 comp := c, npolls := np, tab := tab, evs := evs }
        | none => none
      | _ => none
    | _, _, _, _, _ => none
  | _ => none

def frameTok : FrameOut → String
  | .data b => "d" ++ hexBare b
  | .trailers st => stTok "t" st
  | .err st => stTok "e" st
  | .pending => "p"
  | .none => "n"
  | .panic => "panic"

def runEnc (c : EncCase) : String :=
  String.intercalate " " ((Enc.run (tableCodec c.tab c.prost) c.cfg c.npolls Enc.init c.evs).map frameTok)

structure DecCase where
  prost : Bool := false
  cfg : DecCfg
  npolls : Nat
  tab : ZTab
  evs : List BodyEv

def parseBodyEv (s : String) : Option BodyEv :=
  match s.toList with
  | 'd' :: cs => (Hex.decodeChars cs).map .data
  | 't' :: cs => let r := String.ofList cs
                 if r = "none" then some (.trailers none) else r.toNat?.map (fun c => .trailers (some c))
  | 'e' :: cs => (String.ofList cs).toNat?.map (fun c => .err ⟨c, .user⟩)
  | ['p'] => some .pending
  | _ => none

def parseDir (s : String) : Option Dir :=
  if s = "req" then some .request
  else if s = "empty" then some .empty
  else if s.startsWith "resp" then (s.drop 4).toString.toNat?.map .response
  else none

def parseDecCase : List String → Option DecCase
  | kind :: dir :: enc :: mx :: _buf :: np :: "Z" :: k :: rest =>
    if kind ≠ "dec" ∧ kind ≠ "pdec" then none else
    match parseDir dir, optNat? mx, nat? np, nat? k with
    | some dir, some mx, some np, some k =>
      match parseZ k rest with
      | some (tab, "EV" :: evs) =>
        match evs.mapM parseBodyEv with
        | some evs =>
          -- `Streaming::new_empty` passes no encoding and no limit
          let (e, m) := match dir with | .empty => (none, none) | _ => (encOf enc, mx)
          some { prost := kind = "pdec", cfg := { enc := e, maxSize := m, dir := dir }, npolls := np, tab := tab, evs := evs }
        | none => none
      | _ => none
    | _, _, _, _ => none
  | _ => none

def itemTok : Item Bytes → String
  | .msg m => "m" ++ hexBare m
  | .err st => stTok "e" st
  | .none => "n"
  | .pending => "p"

/-- the trailing `a0` token: the model never reserves memory for a refused frame, so the largest
allocation stays within the harness's budget (`a1` = it did not) -/
def runDec (c : DecCase) : String :=
  String.intercalate " " ((Dec.run (tableCodec c.tab c.prost) c.cfg c.npolls Dec.init c.evs).map itemTok ++ ["a0"])

def model (case : List String) : Option String :=
  match case with
  | "enc" :: _ => (parseEncCase case).map runEnc
  | "penc" :: _ => (parseEncCase case).map runEnc
  | "dec" :: _ => (parseDecCase case).map runDec
  | "pdec" :: _ => (parseDecCase case).map runDec
  | _ => none

/-! ### spec-side helpers (use `Spec.Framing` only, never the model) -/

/-- observed tokens split by their first character -/
def tokKind (s : String) : Char := (s.toList.head?).getD ' '

def obsData (obs : List String) : List Bytes :=
  obs.filterMap (fun t => if tokKind t = 'd' then unhexBare (t.drop 1).toString else none)

def obsMsgs (obs : List String) : List Bytes :=
  obs.filterMap (fun t => if tokKind t = 'm' then unhexBare (t.drop 1).toString else none)

/-- the tokens that are neither pending nor data/message -/
def isBad (t : String) : Bool := t = "panic" || t = "busy-loop" || t = "hang"

def itemsOf (evs : List (SrcEv Bytes)) : List Bytes :=
  evs.filterMap (fun | .item m => some m | _ => none)

def dataOf (evs : List BodyEv) : Bytes :=
  (evs.filterMap (fun | .data b => some b | _ => none)).flatten

/-- what a frame's payload decodes to according to the reference decompressor table -/
def payloadMsg (tab : ZTab) (fp : UInt8 × Bytes) : Option Bytes :=
  if fp.1 = 0 then some fp.2
  else if fp.1 = 1 then (match tab.find? (fun e => e.2 == fp.2) with | some e => e.1 | none => none)
  else none

/-- magic numbers of the three encodings -/
def magicOk (e : Enc) (p : Bytes) : Bool :=
  match e, p with
  | .gzip, 0x1f :: 0x8b :: _ => true
  | .deflate, a :: b :: _ => a.toNat % 16 == 8 && (a.toNat * 256 + b.toNat) % 31 == 0
  | .zstd, 0x28 :: 0xb5 :: 0x2f :: 0xfd :: _ => true
  | _, _ => false

end DriverFraming
