import Driver.Proto
import TonicModel.Model.Framing
import TonicModel.Spec.Framing
/-
Shared driver code for the framing family (C01, C03, C06, C07): case parsing, running the
model, rendering, and the spec-side helpers used by the per-property verdicts.
Case grammar: see harness/src/framing.rs.
-/
namespace DriverFraming
open Proto Framing

def encOf (s : String) : Option Enc :=
  if s = "gzip" then some .gzip else if s = "deflate" then some .deflate
  else if s = "zstd" then some .zstd else none

/-- Who produced the status, as the harness can tell without reading tonic's message texts
(`cls_of` in harness/src/framing.rs): the scripted doubles (`user`), the raw decoder double
(`codec`; the prost decoder's error is built by tonic), or tonic itself (`t`).  The code is what
tells tonic's own statuses apart. -/
def clsName (prost : Bool) : Cls → String
  | .ok => "ok" | .user => "user"
  | .codec => if prost then "t" else "codec"
  | .tooLargeEnc | .over4G | .encode | .badFlag | .noEncoding | .tooLargeDec | .decompress | .eof | .http => "t"

def stTok (prost : Bool) (p : String) (st : St) : String := s!"{p}{st.code}:{clsName prost st.cls}"

/-- compression table from the case: (raw or `none` when the reference decompressor fails, compressed) -/
abbrev ZTab := List (Option Bytes × Bytes)

/-- prost's own verdict (prost called directly by the harness, not through tonic) on every frame
payload of a `pdec` case: the canonical re-encoding of the message it decodes to, or `none` -/
abbrev PTab := List (Bytes × Option Bytes)

/-- the message decoder of a case: the raw double refuses a leading 0xFF; the prost codec is the
case's table (a payload the table does not list is refused) -/
def deOf (prost : Bool) (ptab : PTab) (b : Bytes) : Option Bytes :=
  if prost then (match ptab.find? (fun e => e.1 == b) with | some e => e.2 | none => none)
  else if b.head? = some 255 then none else some b

def tableCodec (tab : ZTab) (prost : Bool := false) (ptab : PTab := []) : Codec Bytes where
  ser := id
  de := fun b => if prost && ptab.isEmpty then some b else deOf prost ptab b
  deErr := 13
  cz := fun _ raw => match tab.find? (fun e => e.1 == some raw) with
    | some e => e.2
    | none => []
  dz := fun _ comp => match tab.find? (fun e => e.2 == comp) with
    | some e => e.1
    | none => none

def parseZ : Nat → List String → Option (ZTab × List String)
  | 0, rest => some ([], rest)
  | k + 1, r :: c :: rest =>
    match (if r = "F" then some none else (unhex r).map some), unhex c, parseZ k rest with
    | some raw, some comp, some (t, rest') => some ((raw, comp) :: t, rest')
    | _, _, _ => none
  | _, _ => none

def parseP : Nat → List String → Option (PTab × List String)
  | 0, rest => some ([], rest)
  | k + 1, p :: c :: rest =>
    match unhex p, (if c = "F" then some none else (unhex c).map some), parseP k rest with
    | some pl, some canon, some (t, rest') => some ((pl, canon) :: t, rest')
    | _, _, _ => none
  | _, _ => none

/-- the optional `P j …` section between the `Z` table and `EV` -/
def parsePSection : List String → Option (PTab × List String)
  | "P" :: j :: rest => (nat? j).bind (fun j => parseP j rest)
  | rest => some ([], rest)

/-! ### byte strings in tokens: bare hex with run-length groups `(bb*N)` (see `hexr` in framing.rs) -/

/-- `n` copies of `b` in front of `tail` (one pass, nothing copied) -/
def consN : Nat → UInt8 → Bytes → Bytes
  | 0, _, acc => acc
  | n + 1, b, acc => consN n b (b :: acc)

/-- one piece `bb*N)rest` after an opening parenthesis: the byte, the count, the plain bytes after it -/
def decodeRun (piece : String) : Option (UInt8 × Nat × Bytes) :=
  match piece.splitOn ")" with
  | [run, rest] =>
    match run.splitOn "*", Hex.decodeChars rest.toList with
    | [bb, n], some tail =>
      match Hex.decodeChars bb.toList, n.toNat? with
      | some [b], some n => some (b, n, tail)
      | _, _ => none
    | _, _ => none
  | _ => none

/-- hex without the leading `x` marker, as used inside event tokens; `.` is the empty string;
runs may be written `(bb*N)` -/
def unhexBare (s : String) : Option Bytes :=
  if s = "." then some [] else
  match s.splitOn "(" with
  | [] => some []
  | first :: runs =>
    match Hex.decodeChars first.toList, runs.mapM decodeRun with
    | some h, some rs => some (h ++ rs.foldr (fun (b, n, plain) acc => consN n b (plain ++ acc)) [])
    | _, _ => none

/-- number of leading bytes equal to `b` (starting the count at `n`), and the rest -/
def runLen (b : UInt8) : Bytes → Nat → Nat × Bytes
  | x :: xs, n => if x = b then runLen b xs (n + 1) else (n, x :: xs)
  | [], n => (n, [])

def hexRleAux : Nat → Bytes → String → String
  | 0, _, acc => acc
  | _ + 1, [], acc => acc
  | fuel + 1, b :: bs, acc =>
    let hi := Hex.digit (b.toNat / 16)
    let lo := Hex.digit (b.toNat % 16)
    let (n, rest) := runLen b bs 1
    if n ≥ 32 then hexRleAux fuel rest ((((acc.push '(').push hi).push lo).push '*' ++ toString n ++ ")")
    else hexRleAux fuel bs ((acc.push hi).push lo)

/-- the canonical text of a byte string: bare hex, every maximal run (from the left) of 32 or
more equal bytes as `(bb*N)` -/
def hexBare (b : Bytes) : String := hexRleAux b.length b ""

/-- a message of an encoder case: its bytes, and whether the harness's encoder double fails on it -/
abbrev EMsg := Bytes × Bool

/-- the encoder-side codec of a case: serialisation is the identity, `Encoder::encode` fails on
the items the case marks (`f<k>.<hex>`), the compressor is the case's table -/
def encCodec (tab : ZTab) : Codec EMsg where
  ser := fun m => m.1
  serFail := fun m => m.2
  de := fun b => some (b, false)
  deErr := 13
  cz := (tableCodec tab).cz
  dz := (tableCodec tab).dz

structure EncCase where
  prost : Bool := false
  cfg : EncCfg
  comp : Option Enc      -- configured, before the override
  npolls : Nat
  tab : ZTab
  evs : List (SrcEv EMsg)

def parseSrcEv (s : String) : Option (SrcEv EMsg) :=
  match s.toList with
  | 'i' :: cs => (unhexBare (String.ofList cs)).map (fun b => .item (b, false))
  | 'f' :: cs =>
    -- `f<k>.<hex>`: what the double wrote before failing (`k` bytes) is dropped by tonic, so the model ignores `k`
    match (String.ofList cs).splitOn "." with
    | [_, h] => (unhexBare h).map (fun b => .item (b, true))
    | _ => none
  | 'e' :: cs => (String.ofList cs).toNat?.map (fun c => .err ⟨c, .user⟩)
  | ['p'] => some .pending
  | _ => none

def parseEncCase : List String → Option EncCase
  | kind :: role :: comp :: ovr :: y :: buf :: mx :: np :: "Z" :: k :: rest =>
    if kind ≠ "enc" ∧ kind ≠ "penc" then none else
    match nat? y, optNat? mx, nat? np, nat? k, nat? buf with
    | some y, some mx, some np, some k, some buf =>
      match parseZ k rest with
      | some (tab, "EV" :: evs) =>
        match evs.mapM parseSrcEv with
        | some evs =>
          let c := encOf comp
          some { prost := kind = "penc",
                 -- the model's `EncodeBody::new_server` / `new_client` (the per-response opt-out is the model's)
                 cfg := if role = "s" then Enc.newServer c (if ovr = "d" then .disable else .inherit) y buf mx
                        else Enc.newClient c y buf mx,
                 comp := c, npolls := np, tab := tab, evs := evs }
        | none => none
      | _ => none
    | _, _, _, _, _ => none
  | _ => none

def frameTok (prost : Bool) : FrameOut → String
  | .data b => "d" ++ hexBare b
  | .trailers st => stTok prost "t" st
  | .err st => stTok prost "e" st
  | .pending => "p"
  | .none => "n"
  | .panic => "panic"

/-- one token per poll, then `E<bits>` (the model's `is_end_stream` before every poll and after
the last) and `Hd` (the model's `size_hint` is the default in every state) -/
def runEncToks (c : EncCase) : List String :=
  let (tr, last) := Enc.trace (encCodec c.tab) c.cfg c.npolls Enc.init c.evs
  let flags := tr.map (·.1) ++ [last]
  let hint := if Enc.sizeHint Enc.init == (0, none) then "Hd" else "H?"
  tr.map (fun x => frameTok c.prost x.2) ++ ["E" ++ String.ofList (flags.map (fun b => if b then '1' else '0')), hint]

def runEnc (c : EncCase) : String := String.intercalate " " (runEncToks c)

structure DecCase where
  prost : Bool := false
  cfg : DecCfg
  npolls : Nat
  tab : ZTab
  ptab : PTab := []
  evs : List BodyEv

def parseBodyEv (s : String) : Option BodyEv :=
  match s.toList with
  | 'd' :: cs => (unhexBare (String.ofList cs)).map .data
  | 't' :: cs => let r := String.ofList cs
                 if r = "none" then some (.trailers none) else r.toNat?.map (fun c => .trailers (some c))
  | 'e' :: cs => (String.ofList cs).toNat?.map (fun c => .err ⟨c, .user⟩)
  | ['p'] => some .pending
  | _ => none

def parseDir (s : String) : Option Dir :=
  if s = "req" then some .request
  else if s = "empty" then some .empty
  else if s.startsWith "resp" then (s.drop 4).toString.toNat?.map .response
  else none

def parseDecCase : List String → Option DecCase
  | kind :: dir :: enc :: mx :: _buf :: np :: "Z" :: k :: rest =>
    if kind ≠ "dec" ∧ kind ≠ "pdec" then none else
    match parseDir dir, optNat? mx, nat? np, nat? k with
    | some dir, some mx, some np, some k =>
      match (parseZ k rest).bind (fun (tab, r) => (parsePSection r).map (fun (ptab, r') => (tab, ptab, r'))) with
      | some (tab, ptab, "EV" :: evs) =>
        match evs.mapM parseBodyEv with
        | some evs =>
          -- `Streaming::new_empty` passes no encoding and no limit
          let (e, m) := match dir with | .empty => (none, none) | _ => (encOf enc, mx)
          some { prost := kind = "pdec", cfg := { enc := e, maxSize := m, dir := dir }, npolls := np, tab := tab, ptab := ptab, evs := evs }
        | none => none
      | _ => none
    | _, _, _, _ => none
  | _ => none

def itemTok (prost : Bool) : Item Bytes → String
  | .msg m => "m" ++ hexBare m
  | .err st => stTok prost "e" st
  | .none => "n"
  | .pending => "p"

/-- the trailing `a0` token: the model never reserves memory for a refused frame, so the largest
allocation stays within the harness's budget (`a1` = it did not) -/
def runDec (c : DecCase) : String :=
  String.intercalate " " ((Dec.run (tableCodec c.tab c.prost c.ptab) c.cfg c.npolls Dec.init c.evs).map (itemTok c.prost) ++ ["a0"])

def model (case : List String) : Option String :=
  match case with
  | "enc" :: _ => (parseEncCase case).map runEnc
  | "penc" :: _ => (parseEncCase case).map runEnc
  | "dec" :: _ => (parseDecCase case).map runDec
  | "pdec" :: _ => (parseDecCase case).map runDec
  | _ => none

/-- a framing case, parsed once (the verdicts and the model run share it) -/
inductive FCase
  | enc (c : EncCase)
  | dec (c : DecCase)

def parseCase (case : List String) : Option FCase :=
  match case with
  | "enc" :: _ | "penc" :: _ => (parseEncCase case).map .enc
  | "dec" :: _ | "pdec" :: _ => (parseDecCase case).map .dec
  | _ => none

/-! ### spec-side helpers (use `Spec.Framing` only, never the model) -/

/-- observed tokens split by their first character -/
def tokKind (s : String) : Char := (s.toList.head?).getD ' '

def obsData (obs : List String) : List Bytes :=
  obs.filterMap (fun t => if tokKind t = 'd' then unhexBare (t.drop 1).toString else none)

def obsMsgs (obs : List String) : List Bytes :=
  obs.filterMap (fun t => if tokKind t = 'm' then unhexBare (t.drop 1).toString else none)

/-- the per-poll tokens of an encoder observation (without the trailing `E…` / `H…` tokens) -/
def pollToks (obs : List String) : List String := obs.filter (fun t => tokKind t ≠ 'E' && tokKind t ≠ 'H')

/-- the observed `is_end_stream` flags: before poll 0, 1, …, and after the last poll -/
def endFlagsOf (obs : List String) : List Bool :=
  match obs.find? (fun t => tokKind t = 'E') with
  | some t => (t.drop 1).toString.toList.map (· == '1')
  | none => []

/-- `is_end_stream()` may be true only when nothing more is to be sent: no data frame and no error status
(seed C06g: a client body that reports its end while the OUT_OF_RANGE of an oversized message is still parked —
hyper ends the request cleanly and the call succeeds with the message silently dropped) is produced
at or after that point, and for a server body the trailers frame has already been produced (a
true flag before it makes hyper end the stream without ever polling the grpc-status). -/
def endStreamOk (server : Bool) (obs : List String) : Bool :=
  let toks := pollToks obs
  let flags := endFlagsOf obs
  flags.length == toks.length + 1 &&
  (List.range flags.length).all (fun i =>
    !(flags.getD i false) ||
      ((toks.drop i).all (fun t => tokKind t ≠ 'd' && tokKind t ≠ 'e') &&
       (!server || (toks.take i).any (fun t => tokKind t = 't'))))

/-- every observed `size_hint` is sound: lower ≤ bytes still to come ≤ upper -/
def sizeHintOk (obs : List String) : Bool :=
  match obs.find? (fun t => tokKind t = 'H') with
  | none => false
  | some t =>
    if t = "Hd" then true else
    let toks := pollToks obs
    let hints := ((t.drop 1).toString.splitOn ",").map (fun h =>
      match h.splitOn "/" with
      | [l, u] => (l.toNat?.getD 0, u.toNat?)
      | _ => (0, none))
    let remaining (i : Nat) : Nat := (((toks.drop i).filterMap (fun t =>
      if tokKind t = 'd' then unhexBare (t.drop 1).toString else none)).map List.length).foldl (· + ·) 0
    hints.length == toks.length + 1 &&
    (List.range hints.length).all (fun i =>
      let (l, u) := hints.getD i (0, none)
      decide (l ≤ remaining i) && (match u with | some u => decide (remaining i ≤ u) | none => true))

/-- do the chunks concatenate to `whole`? (no concatenation is built) -/
def eqConcat : List Bytes → Bytes → Bool
  | [], whole => whole.isEmpty
  | c :: cs, whole =>
    let rec strip : Bytes → Bytes → Option Bytes
      | [], w => some w
      | _ :: _, [] => none
      | x :: xs, y :: ys => if x == y then strip xs ys else none
    match strip c whole with
    | some rest => eqConcat cs rest
    | none => false

/-- do the two lists of chunks have the same concatenation? (neither is built) -/
def eqConcat2 : Nat → List Bytes → List Bytes → Bool
  | 0, _, _ => false
  | _ + 1, [], r => r.all List.isEmpty
  | _ + 1, l, [] => l.all List.isEmpty
  | fuel + 1, [] :: l, r => eqConcat2 fuel l r
  | fuel + 1, l, [] :: r => eqConcat2 fuel l r
  | fuel + 1, (x :: xs) :: l, (y :: ys) :: r =>
    -- strip the common prefix of the two head chunks
    let rec strip : Bytes → Bytes → Option (Bytes × Bytes)
      | [], w => some ([], w)
      | v, [] => some (v, [])
      | a :: as, b :: bs => if a == b then strip as bs else none
    match strip (x :: xs) (y :: ys) with
    | some (a, b) => eqConcat2 fuel (a :: l) (b :: r)
    | none => false

/-- `chunks` concatenate to the spec framing of `fps` (`Spec.Framing.frames fps` is not built: a
16 MiB payload would be copied once per frame that follows it) -/
def eqFrames (chunks : List Bytes) (fps : List (UInt8 × Bytes)) : Bool :=
  eqConcat2 (2 * (chunks.length + fps.length) + 4) chunks (fps.map (fun fp => Spec.Framing.frame fp.1 fp.2))

/-! ### Batching (rev1-FA3)

C01 says the bytes do not depend on how output is batched, so where the chunk boundaries fall is
not compared token for token: the model column repeats the observed polls whenever they differ
from the model's own only by a *legal re-batching* — same bytes and same terminal frames
(`canonEnc`), and every observed chunk obeys the batching contract (`batchingOk`). -/

/-- an encoder observation up to batching: `Pending`s, the `E`/`H` tokens and trailing `n`s
dropped, adjacent data chunks merged -/
def canonEnc (toks : List String) : List String :=
  let toks := toks.filter (fun t => t ≠ "p" && tokKind t ≠ 'E' && tokKind t ≠ 'H')
  let flush (acc : List Bytes) (out : List String) : List String :=
    if acc.isEmpty then out else ("d" ++ hexBare acc.reverse.flatten) :: out
  let rec go : List String → List Bytes → List String → List String
    | [], acc, out => flush acc out
    | t :: r, acc, out =>
      if tokKind t = 'd' then
        match unhexBare (t.drop 1).toString with
        | some b => go r (b :: acc) out
        | none => go r [] (t :: flush acc out)
      else go r [] (t :: flush acc out)
  ((go toks [] []).dropWhile (· == "n")).reverse

/-- is the message refused by `encode_item` (its encoder fails, or its payload is over the limit)? -/
def refusedItem (c : EncCase) (m : EMsg) : Bool :=
  m.2 || (match c.cfg.maxSize with
    | some l => decide ((if c.cfg.comp.isSome then (tableCodec c.tab).cz .gzip m.1 else m.1).length > l)
    | none => false)

/-- The batching contract of `EncodedBytes::poll_next`, judged on the observed chunks and the
case's source schedule alone: every chunk is non-empty and consists of whole frames, of
consecutive ready items (nothing is held back across a `Pending` or an error of the source), and
it ends either because the source had nothing more to give right then (`Pending`, end, error, a
refused item) or because it reached the yield threshold — not having exceeded it before its last
frame. -/
def batchingOkSplit (c : EncCase) (chunks : List (Bytes × List (UInt8 × Bytes) × Bytes)) : Bool :=
  let isGood : SrcEv EMsg → Bool := fun | .item m => !refusedItem c m | _ => false
  let rec go : List (Bytes × List (UInt8 × Bytes) × Bytes) → List (SrcEv EMsg) → Bool
    | [], _ => true
    | (ch, frs, left) :: rest, evs =>
      let k := frs.length
      let evs := evs.dropWhile (fun e => !isGood e)
      let lastLen := match frs.getLast? with | some fp => 5 + fp.2.length | none => 0
      left.isEmpty && k > 0 &&
      (evs.take k).length == k && (evs.take k).all isGood &&
      ((decide (ch.length ≥ c.cfg.yieldThr) && decide (ch.length - lastLen ≤ c.cfg.yieldThr)) ||
        (match (evs.drop k).head? with | none => true | some e => !isGood e)) &&
      go rest (evs.drop k)
  go chunks c.evs

/-- the observed data chunks, each with its split into frames by the independent parser -/
def splitChunks (obs : List String) : List (Bytes × List (UInt8 × Bytes) × Bytes) :=
  (obsData (obs.filter (fun t => tokKind t ≠ 'E' && tokKind t ≠ 'H'))).map (fun ch => (ch, Spec.Framing.split ch))

def batchingOk (c : EncCase) (obs : List String) : Bool := batchingOkSplit c (splitChunks obs)

/-- the model column for an encoder case -/
def encColumn (c : EncCase) (obs : List String) : String :=
  let m := runEncToks c
  if m == obs then String.intercalate " " m
  else if canonEnc m == canonEnc obs && batchingOk c obs then String.intercalate " " obs
  else String.intercalate " " m

/-- Every `Pending` the code under test returned came with a wake-up (issued or registered) — the
harness's drivers poll with a counting waker and report a `Pending` without one as `lost-wakeup`
(under a real executor the stream would park for ever: the poll never completes). -/
def noLostWakeup (obs : List String) : Bool := !obs.contains "lost-wakeup"

/-- the tokens that are neither pending nor data/message -/
def isBad (t : String) : Bool := t = "panic" || t = "busy-loop" || t = "hang"

def itemsOf (evs : List (SrcEv EMsg)) : List Bytes :=
  evs.filterMap (fun | .item m => some m.1 | _ => none)

def dataOf (evs : List BodyEv) : Bytes :=
  (evs.filterMap (fun | .data b => some b | _ => none)).flatten

/-- the bytes of a body that ARE a gRPC message stream: all the data of a request or of a response
with HTTP status 200; none of a response with any other HTTP status (an error page, not gRPC —
such a response is classified by its status, property C04) -/
def grpcData (c : DecCase) : Bytes :=
  match c.cfg.dir with
  | .response http => if http = 200 then dataOf c.evs else []
  | _ => dataOf c.evs

/-- what a frame's payload decodes to according to the reference decompressor table -/
def payloadMsg (tab : ZTab) (fp : UInt8 × Bytes) : Option Bytes :=
  if fp.1 = 0 then some fp.2
  else if fp.1 = 1 then (match tab.find? (fun e => e.2 == fp.2) with | some e => e.1 | none => none)
  else none

/-- The reference receiver of a decoder case, for `Spec.Framing.batch` / `held`: built from the
case's tables (reference decompressor, prost called directly / the raw double's rule) and the
configured limit — nothing of the model. -/
def recvOfCase (c : DecCase) : Spec.Framing.Recv Bytes where
  limit := c.cfg.maxSize.getD (4 * 1024 * 1024)
  hasEnc := c.cfg.enc.isSome
  dz := fun comp => match c.tab.find? (fun e => e.2 == comp) with | some e => e.1 | none => none
  de := fun b => if c.prost && c.ptab.isEmpty then some b else deOf c.prost c.ptab b

/-- the case's events are data chunks and `Pending`s only (the body ends by itself) -/
def plainEvs (evs : List BodyEv) : Bool := evs.all (fun | .data _ => true | .pending => true | _ => false)

/-- magic numbers of the three encodings -/
def magicOk (e : Enc) (p : Bytes) : Bool :=
  match e, p with
  | .gzip, 0x1f :: 0x8b :: _ => true
  | .deflate, a :: b :: _ => a.toNat % 16 == 8 && (a.toNat * 256 + b.toNat) % 31 == 0
  | .zstd, 0x28 :: 0xb5 :: 0x2f :: 0xfd :: _ => true
  | _, _ => false

end DriverFraming
