import Driver.Proto
import TonicModel.Model.Framing
import TonicModel.Spec.Framing
/-
Shared driver code for the framing family (C01, C03, C06, C07): case parsing, running the
model, rendering, and the spec-side helpers used by the per-property verdicts.
Case grammar: see harness/src/framing.rs.
-/
namespace DriverFraming
open Proto Framing

def encOf (s : String) : Option Enc :=
  if s = "gzip" then some .gzip else if s = "deflate" then some .deflate
  else if s = "zstd" then some .zstd else none

/-- Who produced the status, as the harness can tell without reading tonic's message texts
(`cls_of` in harness/src/framing.rs): the scripted doubles (`user`), the raw decoder double
(`codec`; the prost decoder's error is built by tonic), or tonic itself (`t`).  The code is what
tells tonic's own statuses apart. -/
def clsName (prost : Bool) : Cls → String
  | .ok => "ok" | .user => "user"
  | .codec => if prost then "t" else "codec"
  | .tooLargeEnc | .over4G | .encode | .badFlag | .noEncoding | .tooLargeDec | .decompress | .eof | .http => "t"

def stTok (prost : Bool) (p : String) (st : St) : String := s!"{p}{st.code}:{clsName prost st.cls}"

/-- compression table from the case: (raw or `none` when the reference decompressor fails, compressed) -/
abbrev ZTab := List (Option Bytes × Bytes)

/-- prost's own verdict (prost called directly by the harness, not through tonic) on every frame
payload of a `pdec` case: the canonical re-encoding of the message it decodes to, or `none` -/
abbrev PTab := List (Bytes × Option Bytes)

/-- the message decoder of a case: the raw double refuses a leading 0xFF; the prost codec is the
case's table (a payload the table does not list is refused) -/
def deOf (prost : Bool) (ptab : PTab) (b : Bytes) : Option Bytes :=
  if prost then (match ptab.find? (fun e => e.1 == b) with | some e => e.2 | none => none)
  else if b.head? = some 255 then none else some b

def tableCodec (tab : ZTab) (prost : Bool := false) (ptab : PTab := []) : Codec Bytes where
  ser := id
  de := fun b => if prost && ptab.isEmpty then some b else deOf prost ptab b
  deErr := 13
  cz := fun _ raw => match tab.find? (fun e => e.1 == some raw) with
    | some e => e.2
    | none => []
  dz := fun _ comp => match tab.find? (fun e => e.2 == comp) with
    | some e => e.1
    | none => none

def parseZ : Nat → List String → Option (ZTab × List String)
  | 0, rest => some ([], rest)
  | k + 1, r :: c :: rest =>
    match (if r = "F" then some none else (unhex r).map some), unhex c, parseZ k rest with
    | some raw, some comp, some (t, rest') => some ((raw, comp) :: t, rest')
    | _, _, _ => none
  | _, _ => none

def parseP : Nat → List String → Option (PTab × List String)
  | 0, rest => some ([], rest)
  | k + 1, p :: c :: rest =>
    match unhex p, (if c = "F" then some none else (unhex c).map some), parseP k rest with
    | some pl, some canon, some (t, rest') => some ((pl, canon) :: t, rest')
    | _, _, _ => none
  | _, _ => none

/-- the optional `P j …` section between the `Z` table and `EV` -/
def parsePSection : List String → Option (PTab × List String)
  | "P" :: j :: rest => (nat? j).bind (fun j => parseP j rest)
  | rest => some ([], rest)

/-- hex without the leading `x` marker, as used inside event tokens -/
def unhexBare (s : String) : Option Bytes := if s = "." then some [] else Hex.decodeChars s.toList
def hexBare (b : Bytes) : String := String.ofList (Hex.encodeChars b)

/-- a message of an encoder case: its bytes, and whether the harness's encoder double fails on it -/
abbrev EMsg := Bytes × Bool

/-- the encoder-side codec of a case: serialisation is the identity, `Encoder::encode` fails on
the items the case marks (`f<k>.<hex>`), the compressor is the case's table -/
def encCodec (tab : ZTab) : Codec EMsg where
  ser := fun m => m.1
  serFail := fun m => m.2
  de := fun b => some (b, false)
  deErr := 13
  cz := (tableCodec tab).cz
  dz := (tableCodec tab).dz

structure EncCase where
  prost : Bool := false
  cfg : EncCfg
  comp : Option Enc      -- configured, before the override
  npolls : Nat
  tab : ZTab
  evs : List (SrcEv EMsg)

def parseSrcEv (s : String) : Option (SrcEv EMsg) :=
  match s.toList with
  | 'i' :: cs => (Hex.decodeChars cs).map (fun b => .item (b, false))
  | 'f' :: cs =>
    -- `f<k>.<hex>`: what the double wrote before failing (`k` bytes) is dropped by tonic, so the model ignores `k`
    match (String.ofList cs).splitOn "." with
    | [_, h] => (Hex.decodeChars h.toList).map (fun b => .item (b, true))
    | _ => none
  | 'e' :: cs => (String.ofList cs).toNat?.map (fun c => .err ⟨c, .user⟩)
  | ['p'] => some .pending
  | _ => none

def parseEncCase : List String → Option EncCase
  | kind :: role :: comp :: ovr :: y :: buf :: mx :: np :: "Z" :: k :: rest =>
    if kind ≠ "enc" ∧ kind ≠ "penc" then none else
    match nat? y, optNat? mx, nat? np, nat? k, nat? buf with
    | some y, some mx, some np, some k, some buf =>
      match parseZ k rest with
      | some (tab, "EV" :: evs) =>
        match evs.mapM parseSrcEv with
        | some evs =>
          let c := encOf comp
          some { prost := kind = "penc",
                 -- the model's `EncodeBody::new_server` / `new_client` (the per-response opt-out is the model's)
                 cfg := if role = "s" then Enc.newServer c (if ovr = "d" then .disable else .inherit) y buf mx
                        else Enc.newClient c y buf mx,
                 comp := c, npolls := np, tab := tab, evs := evs }
        | none => none
      | _ => none
    | _, _, _, _, _ => none
  | _ => none

def frameTok (prost : Bool) : FrameOut → String
  | .data b => "d" ++ hexBare b
  | .trailers st => stTok prost "t" st
  | .err st => stTok prost "e" st
  | .pending => "p"
  | .none => "n"
  | .panic => "panic"

/-- one token per poll, then `E<bits>` (the model's `is_end_stream` before every poll and after
the last) and `Hd` (the model's `size_hint` is the default in every state) -/
def runEnc (c : EncCase) : String :=
  let flags := Enc.endFlags (encCodec c.tab) c.cfg c.npolls Enc.init c.evs
  let hint := if Enc.sizeHint Enc.init == (0, none) then "Hd" else "H?"
  String.intercalate " " ((Enc.run (encCodec c.tab) c.cfg c.npolls Enc.init c.evs).map (frameTok c.prost)
    ++ ["E" ++ String.ofList (flags.map (fun b => if b then '1' else '0')), hint])

structure DecCase where
  prost : Bool := false
  cfg : DecCfg
  npolls : Nat
  tab : ZTab
  ptab : PTab := []
  evs : List BodyEv

def parseBodyEv (s : String) : Option BodyEv :=
  match s.toList with
  | 'd' :: cs => (Hex.decodeChars cs).map .data
  | 't' :: cs => let r := String.ofList cs
                 if r = "none" then some (.trailers none) else r.toNat?.map (fun c => .trailers (some c))
  | 'e' :: cs => (String.ofList cs).toNat?.map (fun c => .err ⟨c, .user⟩)
  | ['p'] => some .pending
  | _ => none

def parseDir (s : String) : Option Dir :=
  if s = "req" then some .request
  else if s = "empty" then some .empty
  else if s.startsWith "resp" then (s.drop 4).toString.toNat?.map .response
  else none

def parseDecCase : List String → Option DecCase
  | kind :: dir :: enc :: mx :: _buf :: np :: "Z" :: k :: rest =>
    if kind ≠ "dec" ∧ kind ≠ "pdec" then none else
    match parseDir dir, optNat? mx, nat? np, nat? k with
    | some dir, some mx, some np, some k =>
      match (parseZ k rest).bind (fun (tab, r) => (parsePSection r).map (fun (ptab, r') => (tab, ptab, r'))) with
      | some (tab, ptab, "EV" :: evs) =>
        match evs.mapM parseBodyEv with
        | some evs =>
          -- `Streaming::new_empty` passes no encoding and no limit
          let (e, m) := match dir with | .empty => (none, none) | _ => (encOf enc, mx)
          some { prost := kind = "pdec", cfg := { enc := e, maxSize := m, dir := dir }, npolls := np, tab := tab, ptab := ptab, evs := evs }
        | none => none
      | _ => none
    | _, _, _, _ => none
  | _ => none

def itemTok (prost : Bool) : Item Bytes → String
  | .msg m => "m" ++ hexBare m
  | .err st => stTok prost "e" st
  | .none => "n"
  | .pending => "p"

/-- the trailing `a0` token: the model never reserves memory for a refused frame, so the largest
allocation stays within the harness's budget (`a1` = it did not) -/
def runDec (c : DecCase) : String :=
  String.intercalate " " ((Dec.run (tableCodec c.tab c.prost c.ptab) c.cfg c.npolls Dec.init c.evs).map (itemTok c.prost) ++ ["a0"])

def model (case : List String) : Option String :=
  match case with
  | "enc" :: _ => (parseEncCase case).map runEnc
  | "penc" :: _ => (parseEncCase case).map runEnc
  | "dec" :: _ => (parseDecCase case).map runDec
  | "pdec" :: _ => (parseDecCase case).map runDec
  | _ => none

/-! ### spec-side helpers (use `Spec.Framing` only, never the model) -/

/-- observed tokens split by their first character -/
def tokKind (s : String) : Char := (s.toList.head?).getD ' '

def obsData (obs : List String) : List Bytes :=
  obs.filterMap (fun t => if tokKind t = 'd' then unhexBare (t.drop 1).toString else none)

def obsMsgs (obs : List String) : List Bytes :=
  obs.filterMap (fun t => if tokKind t = 'm' then unhexBare (t.drop 1).toString else none)

/-- the per-poll tokens of an encoder observation (without the trailing `E…` / `H…` tokens) -/
def pollToks (obs : List String) : List String := obs.filter (fun t => tokKind t ≠ 'E' && tokKind t ≠ 'H')

/-- the observed `is_end_stream` flags: before poll 0, 1, …, and after the last poll -/
def endFlagsOf (obs : List String) : List Bool :=
  match obs.find? (fun t => tokKind t = 'E') with
  | some t => (t.drop 1).toString.toList.map (· == '1')
  | none => []

/-- `is_end_stream()` may be true only when nothing more is to be sent: no data frame is produced
at or after that point, and for a server body the trailers frame has already been produced (a
true flag before it makes hyper end the stream without ever polling the grpc-status). -/
def endStreamOk (server : Bool) (obs : List String) : Bool :=
  let toks := pollToks obs
  let flags := endFlagsOf obs
  flags.length == toks.length + 1 &&
  (List.range flags.length).all (fun i =>
    !(flags.getD i false) ||
      ((toks.drop i).all (fun t => tokKind t ≠ 'd') &&
       (!server || (toks.take i).any (fun t => tokKind t = 't'))))

/-- every observed `size_hint` is sound: lower ≤ bytes still to come ≤ upper -/
def sizeHintOk (obs : List String) : Bool :=
  match obs.find? (fun t => tokKind t = 'H') with
  | none => false
  | some t =>
    if t = "Hd" then true else
    let toks := pollToks obs
    let hints := ((t.drop 1).toString.splitOn ",").map (fun h =>
      match h.splitOn "/" with
      | [l, u] => (l.toNat?.getD 0, u.toNat?)
      | _ => (0, none))
    let remaining (i : Nat) : Nat := (((toks.drop i).filterMap (fun t =>
      if tokKind t = 'd' then unhexBare (t.drop 1).toString else none)).map List.length).foldl (· + ·) 0
    hints.length == toks.length + 1 &&
    (List.range hints.length).all (fun i =>
      let (l, u) := hints.getD i (0, none)
      decide (l ≤ remaining i) && (match u with | some u => decide (remaining i ≤ u) | none => true))

/-- the tokens that are neither pending nor data/message -/
def isBad (t : String) : Bool := t = "panic" || t = "busy-loop" || t = "hang"

def itemsOf (evs : List (SrcEv EMsg)) : List Bytes :=
  evs.filterMap (fun | .item m => some m.1 | _ => none)

def dataOf (evs : List BodyEv) : Bytes :=
  (evs.filterMap (fun | .data b => some b | _ => none)).flatten

/-- what a frame's payload decodes to according to the reference decompressor table -/
def payloadMsg (tab : ZTab) (fp : UInt8 × Bytes) : Option Bytes :=
  if fp.1 = 0 then some fp.2
  else if fp.1 = 1 then (match tab.find? (fun e => e.2 == fp.2) with | some e => e.1 | none => none)
  else none

/-- The reference receiver of a decoder case, for `Spec.Framing.batch` / `held`: built from the
case's tables (reference decompressor, prost called directly / the raw double's rule) and the
configured limit — nothing of the model. -/
def recvOfCase (c : DecCase) : Spec.Framing.Recv Bytes where
  limit := c.cfg.maxSize.getD (4 * 1024 * 1024)
  hasEnc := c.cfg.enc.isSome
  dz := fun comp => match c.tab.find? (fun e => e.2 == comp) with | some e => e.1 | none => none
  de := fun b => if c.prost && c.ptab.isEmpty then some b else deOf c.prost c.ptab b

/-- the case's events are data chunks and `Pending`s only (the body ends by itself) -/
def plainEvs (evs : List BodyEv) : Bool := evs.all (fun | .data _ => true | .pending => true | _ => false)

/-- magic numbers of the three encodings -/
def magicOk (e : Enc) (p : Bytes) : Bool :=
  match e, p with
  | .gzip, 0x1f :: 0x8b :: _ => true
  | .deflate, a :: b :: _ => a.toNat % 16 == 8 && (a.toNat * 256 + b.toNat) % 31 == 0
  | .zstd, 0x28 :: 0xb5 :: 0x2f :: 0xfd :: _ => true
  | _, _ => false

end DriverFraming
