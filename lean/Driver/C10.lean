import Driver.Proto
namespace DriverC10
/-- stub: property not yet claimed -/
def handle (_case _obs : List String) : String × String := ("unclaimed", "fail:unclaimed")
end DriverC10
