import Driver.Proto
import TonicModel.Model.Router
import TonicModel.Spec.Router
/-
C10 driver.  Case lines:
  call <api> <wrap> <http-method> <n> { <pool-idx> <full-name> <k> <method>^k }^n <path-hex> <query-hex|->
  plan <wrap> <http-method> <n> { <pool-idx> <full-name> <k> <method>^k }^n <start> <k> <op>^k <path-hex> <query-hex|->
      start: new:<p> | default | builder | axum:<own|none>:<0|1> | baxum:<own|none>:<0|1> | srv:<p> | srvopt:<p> | srvnone
      op:    add:<p> | opt:<p> | none | prepare | axum | uroute | tobuilder | tobuilder-axum | routes | serve
      (<p> = position in the declared list; axum:<fallback>:<1 = with the user routes /u/hello, /a.S/Own>)
  seq <mode> <ctor> <n> { <idx> <full-name> <k> <method>^k }^n <r> { <flavor> <path-hex> <query-hex|-> }^r
      one router (Routes::default + add_service in order), r requests; mode = how the value is used
      (same | clones | clone-used | oneshot-each | conc | srv… = served by a transport::Server with that
      configuration on one connection | srv-2conn = one connection per request); ctor = how each generated
      server was made / wrapped; flavor = HTTP method / version / content-type / extra headers of the request.
      Observed / model: the r nine-token records one after the other.
Observed / model line (only what the property talks about: which handler ran, grpc-status, HTTP
status, content-type — not which internal route answered):
  handler <svc|-> <method|-> status <grpc-status|none> http <code> ct <content-type|none>      or   panic
`api`, `wrap`, the HTTP method, the pool index and the query are ignored by the model: the
property says they do not matter.
-/
namespace DriverC10
open Proto Router

def nameBytes (s : String) : Bytes := s.toUTF8.toList

def showName (b : Bytes) : String :=
  match String.fromUTF8? (ByteArray.mk b.toArray) with
  | some s => if s.isEmpty then "<empty>" else s
  | none => hex b

/-- Parse `n` service blocks. -/
def parseSvcs : Nat → List String → Option (List Svc × List String)
  | 0, rest => some ([], rest)
  | n + 1, _idx :: name :: k :: rest =>
    match nat? k with
    | none => none
    | some k =>
      if rest.length < k then none
      else
        let ms := (rest.take k).map nameBytes
        match parseSvcs n (rest.drop k) with
        | some (ss, r) => some (⟨nameBytes name, ms⟩ :: ss, r)
        | none => none
  | _, _ => none

/-- The harness's user handlers: a user route answers `200 text/plain`, the user's fallback
`418 text/plain`; axum's own fallback is a bare 404. -/
def render : Answer → String
  | .tonic (.handler s m) => s!"handler {showName s} {showName m} status 0 http 200 ct application/grpc"
  | .tonic (.svcDefault _) => "handler - - status 12 http 200 ct application/grpc"
  | .tonic .fallback => "handler - - status 12 http 200 ct application/grpc"
  | .tonic .panic => "panic"
  | .userRoute _ => "handler - - status none http 200 ct text/plain"
  | .axumNotFound => "handler - - status none http 404 ct none"
  | .userFallback => "handler - - status none http 418 ct text/plain"

def parseObs : List String → Option Spec.Router.Obs
  | ["handler", s, m, "status", st, "http", code, "ct", ct] =>
    let h := if s == "-" then none else some (nameBytes s, nameBytes m)
    match optNat? st, nat? code with
    | some st, some code => some ⟨h, st, code, ct == "application/grpc"⟩
    | _, _ => none
  | _ => none

/-- The harness could not even form the request (`http::Uri` rejected the target or split it
differently): no exchange took place, nothing to judge. -/
def vacuous (obs : List String) : Bool := obs == ["not-a-uri"] || obs == ["uri-path-differs"]

/-- the routes of the harness's user-made `axum::Router`, and the one added later through
`axum_router_mut` -/
def userRoutes : List Bytes := [nameBytes "/u/hello", nameBytes "/a.S/Own"]
def lateRoute : Bytes := nameBytes "/u/late"

def userRouter? (fb u : String) : Option UserRouter :=
  match fb, u with
  | "own", "0" => some ⟨[], true⟩ | "own", "1" => some ⟨userRoutes, true⟩
  | "none", "0" => some ⟨[], false⟩ | "none", "1" => some ⟨userRoutes, false⟩
  | _, _ => none

def start? (decl : List Svc) (t : String) : Option Start :=
  match t.splitOn ":" with
  | ["new", p] => (nat? p).bind (decl[·]?) |>.map .routesNew
  | ["default"] => some .routesDefault
  | ["builder"] => some .routesBuilder
  | ["axum", fb, u] => (userRouter? fb u).map .fromAxum
  | ["baxum", fb, u] => (userRouter? fb u).map .builderFromAxum
  | ["srv", p] => (nat? p).bind (decl[·]?) |>.map .serverAddService
  | ["srvopt", p] => (nat? p).bind (decl[·]?) |>.map (fun s => .serverAddOptional (some s))
  | ["srvnone"] => some (.serverAddOptional none)
  | _ => none

def op? (decl : List Svc) (t : String) : Option Op :=
  match t.splitOn ":" with
  | ["add", p] => (nat? p).bind (decl[·]?) |>.map .addService
  | ["opt", p] => (nat? p).bind (decl[·]?) |>.map (fun s => .addOptional (some s))
  | ["none"] => some (.addOptional none)
  | ["prepare"] => some .prepare
  | ["axum"] => some .axumRoundTrip
  | ["uroute"] => some (.userRoute lateRoute)
  | ["tobuilder"] => some .intoBuilder
  | ["tobuilder-axum"] => some .intoBuilderViaAxum
  | ["routes"] => some .builderRoutes
  | ["serve"] => some .serverAddRoutes
  | _ => none

/-- The spec verdict.  `reg`: the services that were registered, in order.  `ownFallback`: the
router was built on a user-made `axum::Router` that has a fallback of its own; `userPaths`: the
routes the user put on it himself.  Only these two user-made things are excluded, and only from
the answer clause: no tonic handler may run on them either. -/
def judge (reg : List Svc) (path : Bytes) (ownFallback : Bool) (userPaths : List Bytes)
    (obs : List String) : String :=
  let decl : Spec.Router.Decl := reg.map (fun s => (s.name, s.methods))
  if hasDup (decl.map Prod.fst) then "ok"   -- not a *set* of services: outside the property's quantifier
  else match parseObs obs with
    | none => "fail:no-response-observed"
    | some o =>
      if userPaths.contains path then verdict [("no-handler-on-a-user-route", o.handler.isNone)]
      else
        let excluded := ownFallback && (Spec.Router.targets decl path).isEmpty &&
          !Spec.Router.underService decl path
        verdict [("dispatch-iff-exact-path", Spec.Router.handlerOk decl path o),
                 ("every-other-path-unimplemented", excluded || Spec.Router.answerOk decl path 0 o)]

/-- The history a `seq` mode stands for, as uses of router values (value 0 = the built one). -/
def usesOf (mode : String) (paths : List Bytes) : List Use :=
  let rec go (k : Nat) (next : Nat) : List Bytes → List Use
    | [] => []
    | p :: ps =>
      if mode == "clones" then
        if k % 2 == 0 then .clone 0 :: .call next p :: go (k + 1) (next + 1) ps
        else .call 0 p :: go (k + 1) next ps
      else if mode == "clone-used" then
        if k == 0 then .call 0 p :: .clone 0 :: go (k + 1) 2 ps
        else .call (k % 2) p :: go (k + 1) 2 ps
      else if mode == "oneshot-each" || mode == "srv-2conn" then
        .clone 0 :: .call next p :: go (k + 1) (next + 1) ps
      else if mode.startsWith "srv" then
        -- one connection: its service is one clone of the served value
        (if k == 0 then [.clone 0] else []) ++ .call 1 p :: go (k + 1) 2 ps
      else .call 0 p :: go (k + 1) next ps
  go 0 1 paths

def parseReqs : Nat → List String → Option (List Bytes)
  | 0, [] => some []
  | n + 1, _flavor :: p :: _q :: rest =>
    match unhex p, parseReqs n rest with
    | some path, some ps => some (path :: ps)
    | _, _ => none
  | _, _ => none

def chunks9 : Nat → List String → List (List String)
  | 0, _ => []
  | _, [] => []
  | fuel + 1, l => l.take 9 :: chunks9 fuel (l.drop 9)

def handleSeq (mode : String) (reg : List Svc) (paths : List Bytes) (obs : List String) : String × String :=
  let uses := usesOf mode paths
  let answers :=
    if mode.startsWith "grow" then
      -- the first half is registered, the requests are asked, the rest is added one by one, the
      -- requests are asked again: the harness reports the second round
      let t0 : Table := ⟨reg.take (reg.length / 2), [], .unimplemented⟩
      match reg.drop (reg.length / 2) with
      | [] => Proc.answers ⟨[t0]⟩ uses
      | s :: more => (Proc.rounds t0 ((uses, s) :: more.map (fun x => ([], x))) uses).drop paths.length
    else Proc.answers ⟨[⟨reg, [], .unimplemented⟩]⟩ uses
  let model := String.intercalate " " (answers.map (fun pa => render pa.2))
  if hasDup (reg.map Svc.name) then (model, "ok") else
  let recs := chunks9 (obs.length + 1) obs
  if recs.length != paths.length || obs.length != 9 * paths.length then (model, "fail:no-response-observed") else
  let vs := (paths.zip recs).map (fun (p, r) => judge reg p false [] r)
  (model, (vs.find? (· != "ok")).getD "ok")

def handle (case obs : List String) : String × String :=
  if vacuous obs then (String.intercalate " " obs, "ok") else
  match case with
  | "call" :: _api :: _wrap :: _meth :: n :: rest =>
    match nat? n with
    | none => bad
    | some n =>
      match parseSvcs n rest with
      | some (reg, [p, _q]) =>
        match unhex p with
        | none => bad
        | some path => (render (.tonic (dispatch reg path)), judge reg path false [] obs)
      | _ => bad
  | "seq" :: mode :: _ctor :: n :: rest =>
    match nat? n with
    | none => bad
    | some n =>
      match parseSvcs n rest with
      | some (reg, r :: rest) =>
        match (nat? r).bind (fun r => parseReqs r rest) with
        | some paths => handleSeq mode reg paths obs
        | none => bad
      | _ => bad
  | "plan" :: _wrap :: _meth :: n :: rest =>
    match nat? n with
    | none => bad
    | some n =>
      match parseSvcs n rest with
      | some (decl, st :: k :: rest) =>
        match start? decl st, nat? k with
        | some start, some k =>
          if rest.length != k + 2 then bad else
          match (rest.take k).mapM (op? decl), unhex (rest.getD k "") with
          | some ops, some path =>
            let model := render ((build start ops).table.serve path)
            let (own, upaths) := match start with
              | .fromAxum u => (u.ownFallback, u.routes)
              | .builderFromAxum u => (u.ownFallback, u.routes)
              | _ => (false, [])
            let late := (ops.filter (· == .userRoute lateRoute)).length
            let upaths := if late > 0 then lateRoute :: upaths else upaths
            -- the same user route mounted twice is the user's error (axum panics): nothing to judge
            if late ≥ 2 && obs == ["panic"] then (model, "ok") else
            (model, judge (mounted start ops) path own upaths obs)
          | _, _ => bad
        | _, _ => bad
      | _ => bad
  | _ => bad

end DriverC10
