import Driver.Proto
import TonicModel.Model.Router
import TonicModel.Spec.Router
/-
C10 driver.  Case line:
  call <api> <wrap> <http-method> <n> { <pool-idx> <full-name> <k> <method>^k }^n <path-hex> <query-hex|->
Observed / model line:
  route <name|-> handler <svc|-> <method|-> status <grpc-status|none>      or   panic
`api`, `wrap`, the HTTP method, the pool index and the query are ignored by the model: the
property says they do not matter.
-/
namespace DriverC10
open Proto Router

def nameBytes (s : String) : Bytes := s.toUTF8.toList

def showName (b : Bytes) : String :=
  match String.fromUTF8? (ByteArray.mk b.toArray) with
  | some s => if s.isEmpty then "<empty>" else s
  | none => hex b

/-- Parse `n` service blocks. -/
def parseSvcs : Nat → List String → Option (List Svc × List String)
  | 0, rest => some ([], rest)
  | n + 1, _idx :: name :: k :: rest =>
    match nat? k with
    | none => none
    | some k =>
      if rest.length < k then none
      else
        let ms := (rest.take k).map nameBytes
        match parseSvcs n (rest.drop k) with
        | some (ss, r) => some (⟨nameBytes name, ms⟩ :: ss, r)
        | none => none
  | _, _ => none

def render : Outcome → String
  | .handler s m => s!"route {showName s} handler {showName s} {showName m} status 0"
  | .svcDefault s => s!"route {showName s} handler - - status 12"
  | .fallback => "route - handler - - status 12"
  | .panic => "panic"

def parseObs : List String → Option Spec.Router.Obs
  | ["route", _, "handler", s, m, "status", st] =>
    let h := if s == "-" then none else some (nameBytes s, nameBytes m)
    match optNat? st with
    | some st => some ⟨h, st⟩
    | none => none
  | _ => none

/-- The harness could not even form the request (`http::Uri` rejected the target or split it
differently): no exchange took place, nothing to judge. -/
def vacuous (obs : List String) : Bool := obs == ["not-a-uri"] || obs == ["uri-path-differs"]

def handle (case obs : List String) : String × String :=
  if vacuous obs then (String.intercalate " " obs, "ok") else
  match case with
  | "call" :: _api :: _wrap :: _meth :: n :: rest =>
    match nat? n with
    | none => bad
    | some n =>
      match parseSvcs n rest with
      | some (reg, [p, _q]) =>
        match unhex p with
        | none => bad
        | some path =>
          let model := render (dispatch reg path)
          let decl : Spec.Router.Decl := reg.map (fun s => (s.name, s.methods))
          let isSet := !(hasDup (decl.map Prod.fst))
          let v :=
            if !isSet then "ok"   -- not a *set* of services: outside the property's quantifier
            else match parseObs obs with
              | some o => verdict [("dispatch-iff-exact-path-else-unimplemented", Spec.Router.allowed decl path o)]
              | none => "fail:no-response-observed"
          (model, v)
      | _ => bad
  | _ => bad

end DriverC10
