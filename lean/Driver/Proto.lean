import TonicModel.Basic.Bytes
/-
Line protocol helpers.  A request line is `<prop>\t<case tokens>\t<observed tokens>`; the reply
is `<model tokens>\t<verdict>` where verdict is `ok` or `fail:<clause>` — the property's
decidable spec predicate evaluated on what the implementation was observed to do.
-/
namespace Proto

def toks (s : String) : List String := (s.splitOn " ").filter (· ≠ "")

def hex (b : Bytes) : String := Hex.encode b

def unhex (s : String) : Option Bytes := Hex.decode s

def nat? (s : String) : Option Nat := s.toNat?

def optNat? (s : String) : Option (Option Nat) :=
  if s = "none" then some none else (s.toNat?).map some

def showOptNat : Option Nat → String
  | none => "none"
  | some n => toString n

/-- `ok`, or `fail:` followed by EVERY failing clause (joined with `+`), so that a known-finding
entry, which names the clause(s) it excuses, cannot hide a second, new failure on the same case. -/
def verdict (clauses : List (String × Bool)) : String :=
  match (clauses.filter (fun c => !c.2)).map (·.1) with
  | [] => "ok"
  | fs => "fail:" ++ String.intercalate "+" fs.eraseDups

def bad : String × String := ("bad-case", "fail:bad-case")

end Proto
