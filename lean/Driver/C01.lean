import Driver.Framing
import Driver.C01X
namespace DriverC01
open Proto Framing DriverFraming

/-- C01 verdict.  enc: the concatenated data is exactly the spec framing of the source's
messages, no chunk is empty, every chunk consists of whole frames and obeys the batching
contract (`batchingOk`; exact chunk boundaries are not otherwise compared).  dec (valid stream cut
anywhere): exactly the original messages in order, then a clean end. -/
def handleCore (case obs : List String) : String × String :=
  match parseCase case with
  | none => bad
  | some (.enc c) =>
    let flag : UInt8 := if c.cfg.comp.isSome then 1 else 0
    -- the frames `Spec.Framing.frames` concatenates: flag, 4-byte big-endian length, payload, per message
    let expected : List (UInt8 × Bytes) := (itemsOf c.evs).map (fun it =>
      (flag, if c.cfg.comp.isSome then (tableCodec c.tab).cz .gzip it else it))
    let sp := splitChunks obs
    let ds := sp.map (·.1)
    (encColumn c obs,
     verdict [("no-panic", !obs.any isBad), ("no-lost-wakeup", noLostWakeup obs),
              ("bytes-are-spec-framing-of-messages", eqFrames ds expected),
              ("no-empty-chunk", ds.all (fun d => !d.isEmpty)),
              ("chunks-are-whole-frames", sp.all (fun d => d.2.2.isEmpty)),
              ("batching-contract", batchingOkSplit c sp),
              -- what hyper consults between polls (audit aC01): a true `is_end_stream()` with frames still
              -- to come, or a `size_hint()` the remaining bytes do not respect, cuts the body short on the wire
              ("is-end-stream-only-when-nothing-more-comes", endStreamOk c.cfg.server obs),
              ("size-hint-is-sound", sizeHintOk obs)])
  | some (.dec c) =>
    let (frs, left) := Spec.Framing.split (grpcData c)
    -- each frame's payload (decompressed by the reference decompressor) read by the case's message
    -- decoder: the raw bytes, or for the prost codec the message prost itself decodes from them
    let msgs := (frs.filterMap (payloadMsg c.tab)).filterMap (recvOfCase c).de
    let rest := (obs.filter (fun t => t ≠ "p" && tokKind t ≠ 'a')).drop msgs.length
    (runDec c,
     verdict [("no-panic", !obs.any isBad), ("no-lost-wakeup", noLostWakeup obs),
              ("case-is-valid-stream", left.isEmpty && msgs.length == frs.length),
              ("messages-in-order", obsMsgs obs == msgs),
              ("then-clean-end", !rest.isEmpty && rest.all (fun t => t = "n"))])

/-- The audit's case kinds (harness/src/c01_x.rs): `xenc` / `rdec` wrap a case in a dimension that
has to be invisible — the wrapped case's prediction and verdict apply unchanged; `xdec` and `rt`
have their own (Driver/C01X.lean). -/
def handle (case obs : List String) : String × String :=
  match case with
  | "xenc" :: flv :: rest => if DriverC01X.okEFlavour flv then handleCore rest obs else bad
  | "rdec" :: st :: rest => if DriverC01X.okRStyle st then handleCore rest obs else bad
  | "xdec" :: flv :: ops :: rest => DriverC01X.handleXdec flv ops rest obs
  | "rt" :: _ => DriverC01X.handleRt case obs
  | _ => handleCore case obs
end DriverC01
