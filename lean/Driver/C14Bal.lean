import Driver.Proto
import TonicModel.Basic.ConnScript
import TonicModel.Basic.BalScript
import TonicModel.Model.Balance
import TonicModel.Spec.Balance
/-
C14, `bal` cases: a load-balanced channel over real loopback TCP endpoints.

  bal list <endpoints> <script>     Channel::balance_list(endpoints), built at `b`
  bal chan - <script>               Channel::balance_channel(), built first; `i<k>` / `r<k>` send
                                    Change::Insert / Change::Remove
  script letters: `u<k>` / `k<k>` endpoint k's server starts / goes away, `c` one call.

The balancer's choice among ready endpoints is random (p2c over equal loads), and so is what it
does to the endpoints it looked at and did not use; none of that is observable except through the
results of later calls.  So the model's prediction is a SET of traces (one per sequence of
choices); the driver answers with the observed trace if some sequence of choices of the model
produces it, and otherwise with the longest explainable prefix followed by what the model allows
next.  The verdict is the oracle (`Spec.Balance`) evaluated on the observation alone.
-/
namespace DriverC14Bal
open Proto ConnScript BalScript Balance

def digit? (c : Char) : Option Nat :=
  if '0' ≤ c ∧ c ≤ '9' then some (c.toNat - 48) else none

/-- script letters → ops; `b` becomes the inserts of the list. -/
def parseOps (listEps : Option (List Nat)) : List Char → Option (List BOp)
  | [] => some []
  | 'c' :: cs => (parseOps listEps cs).map (BOp.call :: ·)
  | 'b' :: cs =>
    match listEps with
    | some ks => (parseOps listEps cs).map ((ks.map BOp.insert) ++ ·)
    | none => none
  | x :: d :: cs =>
    match digit? d with
    | none => none
    | some k =>
      if k ≥ 3 then none else
      let op : Option BOp :=
        if x = 'u' then some (.up k) else if x = 'k' then some (.down k)
        else if x = 'i' ∧ listEps.isNone then some (.insert k)
        else if x = 'r' ∧ listEps.isNone then some (.remove k) else none
      match op, parseOps listEps cs with
      | some op, some r => some (op :: r)
      | _, _ => none
  | [_] => none

def count (c : Char) (cs : List Char) : Nat := (cs.filter (· = c)).length

/-- no call before the channel exists; no key inserted while it is a member -/
def wellFormed : List Nat → List BOp → Bool
  | _, [] => true
  | ms, .insert k :: ops => !ms.contains k && wellFormed (k :: ms) ops
  | ms, .remove k :: ops => wellFormed (ms.filter (· ≠ k)) ops
  | ms, .up _ :: ops => wellFormed ms ops
  | ms, .down _ :: ops => wellFormed ms ops
  | ms, .call :: ops => wellFormed ms ops

def obsTok : BObs → String
  | .resp k g => s!"c:resp{k}.{g}"
  | .error code => s!"c:err{code}"
  | .lost => "c:lost"
  | .hang => "c:hang"
  | .garbled => "c:garbled"

def natOf (s : String) : Option Nat := s.toNat?

def parseObs (t : String) : Option BObs :=
  if t = "c:hang" then some .hang
  else if t = "c:garbled" then some .garbled
  else if t = "c:lost" then some .lost
  else
    let l := t.toList
    if "c:resp".toList.isPrefixOf l then
      match (String.ofList (l.drop 6)).splitOn "." with
      | [k, g] =>
        match natOf k, natOf g with
        | some k, some g => some (.resp k g)
        | _, _ => none
      | _ => none
    else if "c:err".toList.isPrefixOf l then (natOf (String.ofList (l.drop 5))).map .error
    else none

def parseAll {α} (f : String → Option α) : List String → Option (List α)
  | [] => some []
  | t :: ts =>
    match f t, parseAll f ts with
    | some a, some r => some (a :: r)
    | _, _ => none

/-- every order in which the keys can be drawn -/
def perms : List Nat → List (List Nat)
  | [] => [[]]
  | k :: ks => (perms ks).flatMap fun p => (List.range (p.length + 1)).map fun i => p.take i ++ k :: p.drop i

/-- The balancer's possible choices in state `s`. -/
def choicesFor (s : B) : List Choice :=
  let ks := (s.eps.filter (·.member)).map (·.key)
  if ks.isEmpty then [⟨[], 0⟩]
  else (perms ks).flatMap fun p => ks.map fun f => ⟨p, f⟩

/-- The states the model can be in after explaining the observations so far. -/
def explain (frontier : List B) : List BOp → List BObs → List String
  | [], [] => []
  | [], _ :: _ => ["unexpected-observation"]
  | .call :: _, [] => ["c:unobserved"]
  | .call :: ops, o :: obs =>
    let nexts := frontier.flatMap fun s =>
      (choicesFor s).filterMap fun ch => if (call s ch).2.obs = o then some (call s ch).1 else none
    if nexts.isEmpty then
      let allowed := (frontier.flatMap fun s => (choicesFor s).map fun ch => obsTok (call s ch).2.obs).eraseDups
      ["c:model-allows(" ++ String.intercalate "|" allowed ++ ")"]
    else obsTok o :: (if o = .hang then [] else explain nexts.eraseDups ops obs)
  | .up k :: ops, obs => explain (frontier.map (env · (.up k))) ops obs
  | .down k :: ops, obs => explain (frontier.map (env · (.down k))) ops obs
  | .insert k :: ops, obs => explain (frontier.map (env · (.insert k))) ops obs
  | .remove k :: ops, obs => explain (frontier.map (env · (.remove k))) ops obs

def keysOf (s : String) : Option (List Nat) :=
  match parseAll (fun c => (c.toList.head?).bind digit?) (s.toList.map (String.singleton ·)) with
  | some ks => if ks.all (· < 3) ∧ ks.eraseDups.length = ks.length ∧ !ks.isEmpty then some ks else none
  | none => none

def handle (case obs : List String) : String × String :=
  let parsed : Option (List BOp) :=
    match case with
    | ["list", epsS, script] =>
      match keysOf epsS with
      | some ks =>
        let cs := script.toList
        -- exactly one build, no call before it
        if count 'b' cs = 1 ∧ !(cs.takeWhile (· ≠ 'b')).contains 'c' then parseOps (some ks) cs else none
      | none => none
    | ["chan", "-", script] => parseOps none script.toList
    | _ => none
  match parsed with
  | none => bad
  | some ops =>
    if !wellFormed [] ops then bad else
    match parseAll parseObs obs with
    | none => ("unparsable-observation", "fail:unparsable-observation")
    | some os =>
      let model := String.intercalate " " (explain [B.init true] ops os)
      (model, verdict (Spec.Balance.clauses [] ops os))

end DriverC14Bal
