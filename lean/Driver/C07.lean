import Driver.Framing
namespace DriverC07
open Proto Framing DriverFraming

/-- longest prefix of the input's frames that are valid (flag, limit, decompressible, decodable) -/
def validPrefix (c : DecCase) : List Bytes :=
  let frs := (Spec.Framing.split (grpcData c)).1
  let limit := c.cfg.maxSize.getD (4 * 1024 * 1024)
  let rec go : List (UInt8 × Bytes) → List Bytes
    | [] => []
    | fp :: r =>
      if fp.2.length > limit then [] else
      if fp.1 = 1 ∧ c.cfg.enc.isNone then [] else
      match payloadMsg c.tab fp with
      | some raw => (match (recvOfCase c).de raw with | some m => m :: go r | none => [])
      | none => []
  go frs

/-- the gRPC code a refused frame must be reported with -/
def badCode : Spec.Framing.Bad → Nat
  | .tooLarge => 11
  | _ => 13

def codeOfTok (t : String) : Option Nat := (((t.drop 1).toString.splitOn ":").head?).bind String.toNat?

/-- What the reference batch decoder (`Spec.Framing.batch`, over the case's oracle tables) demands
of a body that simply ends (data chunks and `Pending`s only, no trailers, no body error), for a
request or a 200 response polled past its end: all valid messages, then — if the input stops at
a refused frame or inside a frame the receiver holds bytes of — an error with the right code;
`none` = the reference decoder demands no error (or the case is not of that shape). -/
def demanded (c : DecCase) : Option (List Bytes × Nat) :=
  let okDir := match c.cfg.dir with | .request => true | .response h => h == 200 | .empty => false
  if !(plainEvs c.evs && okDir) then none else
  let p := recvOfCase c
  let data := dataOf c.evs
  match Spec.Framing.batch p data with
  | (ms, .bad b) => some (ms, badCode b)
  | (ms, .incomplete) => if (Spec.Framing.held p data).isEmpty then none else some (ms, 13)
  | (_, .clean) => none

def afterFirstErr : List String → List String
  | [] => []
  | t :: r => if tokKind t = 'e' then r else afterFirstErr r

/-- C07 verdict: never panics/hangs; every message yielded is a correctly framed message of the
input, in order (a prefix of the valid frames); the first error is final; a body that just ends
after a refused frame, or inside a frame, yields every valid message and then an error. -/
def handle (case obs : List String) : String × String :=
  match parseDecCase case with
  | some c =>
    let m := runDec c
    let msgs := obsMsgs obs
    let vp := validPrefix c
    (m, verdict [("no-panic-no-hang", !obs.any isBad), ("no-lost-wakeup", noLostWakeup obs),
                 ("every-poll-completes", (obs.filter (fun t => tokKind t ≠ 'a')).length == c.npolls),
                 ("messages-are-valid-prefix-of-input", msgs.length ≤ vp.length && vp.take msgs.length == msgs),
                 ("first-error-final", ((afterFirstErr obs).filter (fun t => tokKind t ≠ 'a')).all (fun t => t = "n")),
                 ("all-valid-messages-before-a-malformed-frame",
                    match demanded c with | some (ms, _) => msgs == ms | none => true),
                 ("malformed-or-truncated-frame-yields-an-error-not-a-clean-end",
                    match demanded c with
                    | some (_, code) => ((obs.find? (fun t => tokKind t = 'e')).bind codeOfTok) == some code
                    | none => true)])
  | none => bad
end DriverC07
