import Driver.Framing
import TonicModel.Model.FramingOps
namespace DriverC07
open Proto Framing DriverFraming

/-- longest prefix of the input's frames that are valid (flag, limit, decompressible, decodable) -/
def validPrefix (c : DecCase) : List Bytes :=
  let frs := (Spec.Framing.split (grpcData c)).1
  let limit := c.cfg.maxSize.getD (4 * 1024 * 1024)
  let rec go : List (UInt8 × Bytes) → List Bytes
    | [] => []
    | fp :: r =>
      if fp.2.length > limit then [] else
      if fp.1 = 1 ∧ c.cfg.enc.isNone then [] else
      match payloadMsg c.tab fp with
      | some raw => (match (recvOfCase c).de raw with | some m => m :: go r | none => [])
      | none => []
  go frs

/-- the gRPC code a refused frame must be reported with -/
def badCode : Spec.Framing.Bad → Nat
  | .tooLarge => 11
  | _ => 13

def codeOfTok (t : String) : Option Nat := (((t.drop 1).toString.splitOn ":").head?).bind String.toNat?

/-- What the reference batch decoder (`Spec.Framing.batch`, over the case's oracle tables) demands
of a body that simply ends (data chunks and `Pending`s only, no trailers, no body error), for a
request or a 200 response polled past its end: all valid messages, then — if the input stops at
a refused frame or inside a frame the receiver holds bytes of — an error with the right code;
`none` = the reference decoder demands no error (or the case is not of that shape). -/
def demanded (c : DecCase) : Option (List Bytes × Nat) :=
  let okDir := match c.cfg.dir with | .request => true | .response h => h == 200 | .empty => false
  if !(plainEvs c.evs && okDir) then none else
  let p := recvOfCase c
  let data := dataOf c.evs
  match Spec.Framing.batch p data with
  | (ms, .bad b) => some (ms, badCode b)
  | (ms, .incomplete) => if (Spec.Framing.held p data).isEmpty then none else some (ms, 13)
  | (_, .clean) => none

def afterFirstErr : List String → List String
  | [] => []
  | t :: r => if tokKind t = 'e' then r else afterFirstErr r

/-! ### `xdec`: the same bodies through unusual-but-legal `http_body::Body` implementations and
through consumers that call `message()` / `trailers()` (audit aC07)

`xdec <F…> <O…> <dec|pdec case>`: `F` = body flavour (truthful `is_end_stream` / `size_hint`,
DATA as a non-contiguous `Buf`, errors boxed or wrapped, …) — INVISIBLE: the prediction does not
read it; `O` = the consumer's calls (`n` poll_next, `m` one poll of `message()`, `t` `trailers().await`). -/

def parseOps (s : String) : Option (List Op) :=
  match s.toList with
  | 'O' :: cs => cs.mapM (fun c => if c = 'n' then some Op.next else if c = 'm' then some Op.message
                                    else if c = 't' then some Op.trailers else none)
  | _ => none

def trTok (prost : Bool) : TrOut → String
  | .fuel => "Tfuel"
  | .ok k none => s!"T{k}:none"
  | .ok k (some none) => s!"T{k}:s-"
  | .ok k (some (some c)) => s!"T{k}:s{c}"
  | .err k e => s!"T{k}:" ++ stTok prost "e" e

def opTok (prost : Bool) : OpOut Bytes → String
  | .item o => itemTok prost o
  | .tr t => trTok prost t

/-- fuel for the drain inside `trailers()`: more than `#events + #messages` (a message takes at least 5 bytes) -/
def fuelOf (c : DecCase) : Nat := c.evs.length + (dataOf c.evs).length + 2

def runX (c : DecCase) (ops : List Op) : String :=
  String.intercalate " " ((Dec.runOps (tableCodec c.tab c.prost c.ptab) c.cfg (fuelOf c) ops Dec.init c.evs).map (opTok c.prost) ++ ["a0"])

/-- the error a token reports, if any: `e<code>:<cls>` or `T<k>:e<code>:<cls>` -/
def errCodeOf (t : String) : Option Nat :=
  if tokKind t = 'e' then codeOfTok t
  else if tokKind t = 'T' then
    match t.splitOn ":" with
    | [_, e, _] => if tokKind e = 'e' then (e.drop 1).toString.toNat? else none
    | _ => none
  else none

def isErrTok (t : String) : Bool := (errCodeOf t).isSome || (tokKind t = 'e')

def afterFirstErrX : List String → List String
  | [] => []
  | t :: r => if isErrTok t then r else afterFirstErrX r

/-- what a stream that has reported its error may answer: `None`, or `Ok` from `trailers()`
(that it answers at once, without touching the body, is the model's prediction — `T0:` — and
`C07_first_error_final_any_consumer`; the property text only forbids yielding anything more) -/
def quietTok (t : String) : Bool := t = "n" || (tokKind t = 'T' && !isErrTok t)

def unTok (prost : Bool) : UnOut Bytes → String
  | .fuel => "Ufuel"
  | .ok k m => s!"U{k}:m" ++ hexBare m
  | .err k e => s!"U{k}:" ++ stTok prost "e" e
  | .missing k => s!"U{k}:e13:t"

/-- `xdec <F…v…> Ou <case>`: the whole call through `client::Grpc::unary` (a response) or
`server::Grpc::unary` (a request).  The spec verdict: the call returns (never hangs or panics); a
message it hands over is the FIRST valid message of the input; a body that the reference decoder
refuses or finds truncated makes the call fail with the demanded code (`trailers()` drains the
whole body, so a refusal anywhere fails the call). -/
def handleU (rest obs : List String) : String × String :=
  match parseDecCase rest with
  | some c =>
    let u := Dec.unaryCall (tableCodec c.tab c.prost c.ptab) c.cfg (fuelOf c) Dec.init c.evs
    let m := String.intercalate " " [unTok c.prost u, "a0"]
    let vp := validPrefix c
    let calls := obs.filter (fun t => tokKind t ≠ 'a')
    let got : Option Bytes := match calls with
      | [t] => (match t.splitOn ":" with
                | [_, r] => if tokKind r = 'm' then unhexBare (r.drop 1).toString else none
                | _ => none)
      | _ => none
    let isMsg := match calls with | [t] => (match t.splitOn ":" with | [_, r] => tokKind r = 'm' | _ => false) | _ => false
    let errCode : Option Nat := match calls with
      | [t] => (match t.splitOn ":" with | [_, e, _] => if tokKind e = 'e' then (e.drop 1).toString.toNat? else none | _ => none)
      | _ => none
    (m, verdict [("no-panic-no-hang", !obs.any isBad), ("no-lost-wakeup", noLostWakeup obs),
                 ("every-call-completes", calls.length == 1 && calls.all (fun t => tokKind t = 'U')),
                 ("messages-are-valid-prefix-of-input", !isMsg || (got.isSome && got == vp.head?)),
                 ("malformed-or-truncated-frame-yields-an-error-not-a-clean-end",
                    match demanded c with
                    | some (_, code) => errCode == some code
                    | none => true)])
  | none => bad

def handleX (flv ops : String) (rest obs : List String) : String × String :=
  if ops = "Ou" then (if tokKind flv = 'F' then handleU rest obs else bad) else
  match parseDecCase rest, parseOps ops with
  | some c, some ops =>
    if tokKind flv ≠ 'F' then bad else
    let m := runX c ops
    let msgs := obsMsgs obs
    let vp := validPrefix c
    let calls := obs.filter (fun t => tokKind t ≠ 'a')
    let noTr := ops.all (fun o => o ≠ Op.trailers)
    (m, verdict [("no-panic-no-hang", !obs.any isBad), ("no-lost-wakeup", noLostWakeup obs),
                 ("every-call-completes", calls.length == ops.length),
                 ("messages-are-valid-prefix-of-input",
                    if noTr then msgs.length ≤ vp.length && vp.take msgs.length == msgs else msgs.isSublist vp),
                 ("first-error-final", (afterFirstErrX calls).all quietTok),
                 ("all-valid-messages-before-a-malformed-frame",
                    match demanded c with | some (ms, _) => !noTr || ops.length < c.npolls || msgs == ms | none => true),
                 ("malformed-or-truncated-frame-yields-an-error-not-a-clean-end",
                    match demanded c with
                    | some (_, code) => ops.length < c.npolls || ((calls.find? isErrTok).bind errCodeOf) == some code
                    | none => true)])
  | _, _ => bad

/-- C07 verdict: never panics/hangs; every message yielded is a correctly framed message of the
input, in order (a prefix of the valid frames); the first error is final; a body that just ends
after a refused frame, or inside a frame, yields every valid message and then an error. -/
def handle (case obs : List String) : String × String :=
  match case with
  | "xdec" :: flv :: ops :: rest => handleX flv ops rest obs
  | _ =>
  match parseDecCase case with
  | some c =>
    let m := runDec c
    let msgs := obsMsgs obs
    let vp := validPrefix c
    (m, verdict [("no-panic-no-hang", !obs.any isBad), ("no-lost-wakeup", noLostWakeup obs),
                 ("every-poll-completes", (obs.filter (fun t => tokKind t ≠ 'a')).length == c.npolls),
                 ("messages-are-valid-prefix-of-input", msgs.length ≤ vp.length && vp.take msgs.length == msgs),
                 ("first-error-final", ((afterFirstErr obs).filter (fun t => tokKind t ≠ 'a')).all (fun t => t = "n")),
                 ("all-valid-messages-before-a-malformed-frame",
                    match demanded c with | some (ms, _) => msgs == ms | none => true),
                 ("malformed-or-truncated-frame-yields-an-error-not-a-clean-end",
                    match demanded c with
                    | some (_, code) => ((obs.find? (fun t => tokKind t = 'e')).bind codeOfTok) == some code
                    | none => true)])
  | none => bad
end DriverC07
