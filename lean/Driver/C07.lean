import Driver.Framing
namespace DriverC07
open Proto Framing DriverFraming

/-- longest prefix of the input's frames that are valid (flag, limit, decompressible, decodable) -/
def validPrefix (c : DecCase) : List Bytes :=
  let frs := (Spec.Framing.split (grpcData c)).1
  let limit := c.cfg.maxSize.getD (4 * 1024 * 1024)
  let rec go : List (UInt8 × Bytes) → List Bytes
    | [] => []
    | fp :: r =>
      if fp.2.length > limit then [] else
      if fp.1 = 1 ∧ c.cfg.enc.isNone then [] else
      match payloadMsg c.tab fp with
      | some m => if m.head? = some 255 then [] else m :: go r
      | none => []
  go frs

def afterFirstErr : List String → List String
  | [] => []
  | t :: r => if tokKind t = 'e' then r else afterFirstErr r

/-- C07 verdict: never panics/hangs; every message yielded is a correctly framed message of the
input, in order (a prefix of the valid frames); the first error is final. -/
def handle (case obs : List String) : String × String :=
  match model case, parseDecCase case with
  | some m, some c =>
    let msgs := obsMsgs obs
    let vp := validPrefix c
    (m, verdict [("no-panic-no-hang", !obs.any isBad),
                 ("every-poll-completes", (obs.filter (fun t => tokKind t ≠ 'a')).length == c.npolls),
                 ("messages-are-valid-prefix-of-input", msgs.length ≤ vp.length && vp.take msgs.length == msgs),
                 ("first-error-final", ((afterFirstErr obs).filter (fun t => tokKind t ≠ 'a')).all (fun t => t = "n"))])
  | _, _ => bad
end DriverC07
