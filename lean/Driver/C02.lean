import Driver.Proto
import TonicModel.Model.Call
import TonicModel.Spec.Call
import TonicModel.Basic.Utf8
/-
C02 driver.  Case grammar and observed form: see harness/src/c02.rs.
`model`: `Call.clientRequest` → the case's request transport plan → `Call.serve` → the case's
response transport plan → `Call.clientReceive`, rendered.
`verdict`: `Spec.Call.handlerOk` / `Spec.Call.clientOk` evaluated on the OBSERVED tokens, for
every case inside the property's contract (matching shapes, decodable messages, error statuses
that are errors); `never-hangs-or-panics` for all.  User metadata named `grpc-encoding` is NOT
excluded: tonic lets it onto the wire and the peer refuses the call — the verdict fails on such
cases and known_findings.json lists them (C02-F1).
-/
namespace DriverC02
open Proto Call

/-! ### parsing the case -/

structure StSpec where
  code : Nat
  msg : Bytes
  details : Bytes
  md : HMap

structure Case where
  h2 : Bool
  srvReqStream : Bool
  srvRespStream : Bool
  cliRespStream : Bool
  yieldThr : Nat
  rqMd : HMap
  rq : Sched Bytes
  rqCut : List (Option Nat)
  reads : Nat
  early : Option StSpec
  initMd : HMap
  body : Sched Bytes
  fin : Option StSpec
  rsCut : List (Option Nat)

abbrev P (α : Type) := List String → Option (α × List String)

def pNat : P Nat
  | t :: r => (nat? t).map (·, r)
  | [] => none

def pBytes : P Bytes
  | t :: r => (unhex t).map (·, r)
  | [] => none

def pExpect (s : String) : P Unit
  | t :: r => if t = s then some ((), r) else none
  | [] => none

def pMany (p : P α) : Nat → P (List α)
  | 0, r => some ([], r)
  | n + 1, r =>
    match p r with
    | some (a, r') => (pMany p n r').map (fun (as, r'') => (a :: as, r''))
    | none => none

def pCounted (p : P α) : P (List α) := fun r =>
  match pNat r with
  | some (n, r') => pMany p n r'
  | none => none

def pEntry : P (Bytes × Bytes) := fun r =>
  match pBytes r with
  | some (k, r') => (pBytes r').map (fun (v, r'') => ((k, v), r''))
  | none => none

def pTok : P (Option Bytes)
  | t :: r => if t = "p" then some (none, r) else (unhex t).map (fun m => (some m, r))
  | [] => none

def pStep : P (Option Nat)
  | t :: r => if t = "p" then some (none, r) else (nat? t).map (fun n => (some n, r))
  | [] => none

def pStatus : P (Option StSpec)
  | "-" :: r => some (none, r)
  | r =>
    match pNat r with
    | some (c, r1) =>
      match pBytes r1 with
      | some (m, r2) =>
        match pBytes r2 with
        | some (d, r3) => (pCounted pEntry r3).map (fun (md, r4) => (some ⟨c, m, d, md⟩, r4))
        | none => none
      | none => none
    | none => none

def bit (c : Char) : Bool := c = '1'

/-- dimensions of a call that the property says nothing about and that therefore must not show:
configuration knobs within their limits, other constructors of the same values, a cloned or re-used
client, pass-through middleware, body hints (harness/src/c02.rs lists what each one does) -/
def knownFlags : List String :=
  ["lim", "gen", "clone", "twice", "api2", "hints", "icpt", "knobs", "lazy", "nocomp"]

def parseCase (toks : List String) : Option Case := do
  let (head, r) ← (match toks with | k :: r => some (k.splitOn ".", r) | [] => none)
  let (kindF, s, c) ← (match head with | [k, s, c] => some (k, s.toList, c.toList) | _ => none)
  -- `+flag`s switch on dimensions that must be INVISIBLE in the result (see harness/src/c02.rs): the
  -- names are validated, the prediction and the verdict are those of the case without them
  let (kind, flags) ← (match kindF.splitOn "+" with | k :: fs => some (k, fs) | [] => none)
  if !flags.all knownFlags.contains then none
  if kind ≠ "call" ∧ kind ≠ "h2" ∧ kind ≠ "h2x" ∧ !kind.startsWith "callz-" then none
  let (q, sr) ← (match s with | ['S', a, b] => some (bit a, bit b) | _ => none)
  let cr ← (match c with | ['C', a] => some (bit a) | _ => none)
  let (y, r) ← pNat r
  let (_, r) ← pExpect "RQMD" r
  let (rqMd, r) ← pCounted pEntry r
  let (_, r) ← pExpect "RQ" r
  let (rq, r) ← pCounted pTok r
  let (_, r) ← pExpect "RQCUT" r
  let (rqCut, r) ← pCounted pStep r
  let (_, r) ← pExpect "H" r
  let (reads, r) ← pNat r
  let (_, r) ← pExpect "E" r
  let (early, r) ← pStatus r
  let (_, r) ← pExpect "INIT" r
  let (initMd, r) ← pCounted pEntry r
  let (_, r) ← pExpect "BODY" r
  let (body, r) ← pCounted pTok r
  let (_, r) ← pExpect "FINAL" r
  let (fin, r) ← pStatus r
  let (_, r) ← pExpect "RSCUT" r
  let (rsCut, r) ← pCounted pStep r
  if r ≠ [] then none
  some { h2 := kind = "h2" ∨ kind = "h2x", srvReqStream := q, srvRespStream := sr, cliRespStream := cr, yieldThr := y,
         rqMd, rq, rqCut, reads, early, initMd, body, fin, rsCut }

/-! ### running the model -/

def rawCodec : Framing.Codec Bytes where
  ser := id
  de := fun b => if b.head? = some 255 then none else some b
  deErr := 13
  cz := fun _ b => b
  dz := fun _ b => some b

def fullSt (s : StSpec) : FSt :=
  { code := Status.Code.ofNum s.code, message := s.msg, details := s.details, metadata := s.md }

/-- what `ReChunk` (harness) makes of a body's data under a plan -/
def applyPlan : List (Option Nat) → Bytes → List (Option Bytes)
  | [], [] => []
  | [], rest => [some rest]
  | none :: p, bs => none :: applyPlan p bs
  | some k :: p, bs =>
    if k = 0 then some [] :: applyPlan p bs
    else if bs.isEmpty then applyPlan p bs
    else some (bs.take k) :: applyPlan p (bs.drop k)

def renderSt (st : FSt) : List String :=
  toString st.code.num :: hex st.message :: hex st.details :: HMap.render st.metadata

def renderSeen : Seen Bytes → List String
  | .notCalled => ["notcalled"]
  | .unary md m => "unary" :: HMap.render md ++ [hex m]
  | .stream md ms e =>
    "stream" :: HMap.render md ++ (toString ms.length :: ms.map hex) ++
      (match e with
       | none => ["open"]
       | some none => ["done"]
       | some (some st) => "err" :: renderSt st)

def renderClient : ClientObs Bytes → List String
  | .err st => "err" :: renderSt st
  | .single md m => "single" :: HMap.render md ++ [hex m]
  | .hang => ["hang"]
  | .stream md ms e tr =>
    "stream" :: HMap.render md ++ (toString ms.length :: ms.map hex) ++
      (match e with
       | none => ["ok"]
       | some st => "err" :: renderSt st) ++
      ("TR" :: (match tr with | none => ["none"] | some t => HMap.render t))

def runModel (c : Case) : String :=
  let sc : Script Bytes :=
    { early := c.early.map fullSt, initMd := c.initMd, body := c.body, final := c.fin.map fullSt, reads := c.reads }
  let bytes := (c.rq.msgs.map (fun m => m.length + 5)).sum + (c.body.msgs.map (fun m => m.length + 5)).sum
  let cfg : Cfg Bytes :=
    { cd := rawCodec, deMsg := ascii "codec", yieldThr := c.yieldThr,
      fuel := bytes + c.rqCut.length + c.rsCut.length + c.rq.length + c.body.length + 16 }
  let npolls := c.rq.length + c.body.length + 4
  let req := clientRequest cfg npolls { md := c.rqMd, msgs := c.rq }
  -- over real HTTP/2 the chunking is h2's; the plan fragments the byte pipe underneath it
  let rd : ReqDelivery := { headers := req.headers, chunks := applyPlan (if c.h2 then [] else c.rqCut) (reqData req.body) }
  let (seen, resp) := serve cfg npolls c.srvReqStream c.srvRespStream sc rd
  let d : RespDelivery :=
    { status := resp.status, headers := resp.headers,
      chunks := applyPlan (if c.h2 then [] else c.rsCut) (respData resp.body),
      trailers := (respTrailers resp.body).head? }
  let obs := clientReceive cfg c.cliRespStream d
  let sk := match seen with
    | .notCalled => "notcalled"
    | .unary _ _ => "unary"
    | .stream _ _ none => "stream-open"
    | .stream _ _ (some none) => "stream-done"
    | .stream _ _ (some (some _)) => "stream-err"
  let ck := match obs with
    | .err st => "err" ++ toString st.code.num
    | .single _ _ => "single"
    | .hang => "hang"
    | .stream _ _ none _ => "stream-ok"
    | .stream _ _ (some _) _ => "stream-err"
  String.intercalate " " (("K=" ++ sk ++ "/" ++ ck) :: "SEEN" :: renderSeen seen ++ "CLIENT" :: renderClient obs)

/-! ### the spec verdict on the observed output -/

def pRendered : P HMap := fun r => HMap.parseRendered r

def pObsSt : P Spec.Call.St := fun r =>
  match pNat r with
  | some (c, r1) =>
    match pBytes r1 with
    | some (m, r2) =>
      match pBytes r2 with
      | some (d, r3) => (pRendered r3).map (fun (md, r4) => (⟨c, m, d, md⟩, r4))
      | none => none
    | none => none
  | none => none

def pObsSeen : P (Spec.Call.Got Bytes × Bool)   -- (what it got, whether the request stream ended in an error)
  | "notcalled" :: r => some ((.notCalled, false), r)
  | "unary" :: r =>
    match pRendered r with
    | some (md, r1) => (pBytes r1).map (fun (m, r2) => ((.unary md m, false), r2))
    | none => none
  | "stream" :: r =>
    match pRendered r with
    | some (md, r1) =>
      match pCounted pBytes r1 with
      | some (ms, "open" :: r2) => some ((.stream md ms none, false), r2)
      | some (ms, "done" :: r2) => some ((.stream md ms (some true), false), r2)
      | some (ms, "err" :: r2) => (pObsSt r2).map (fun (_, r3) => ((.stream md ms (some false), true), r3))
      | _ => none
    | none => none
  | _ => none

def pObsClient : P (Spec.Call.Saw Bytes)
  | "err" :: r => (pObsSt r).map (fun (st, r') => (.failed st, r'))
  | "single" :: r =>
    match pRendered r with
    | some (md, r1) => (pBytes r1).map (fun (m, r2) => (.single md m, r2))
    | none => none
  | "stream" :: r =>
    match pRendered r with
    | some (md, r1) =>
      match pCounted pBytes r1 with
      | some (ms, "ok" :: "TR" :: r2) => some (.stream md ms none, if r2 = ["none"] then [] else match pRendered r2 with | some (_, r3) => r3 | none => ["?"])
      | some (ms, "err" :: r2) =>
        match pObsSt r2 with
        | some (st, "TR" :: r3) => some (.stream md ms (some st), if r3 = ["none"] then [] else match pRendered r3 with | some (_, r4) => r4 | none => ["?"])
        | _ => none
      | _ => none
    | none => none
  | _ => none

def specSt (s : StSpec) : Spec.Call.St := ⟨s.code, s.msg, s.details, s.md⟩

def decodable (m : Bytes) : Bool := m.head? != some 255

def stInScope (s : StSpec) : Bool := s.code != 0 && s.code ≤ 16 && Utf8.valid s.msg

/-- the request side is inside the property's contract -/
def reqInScope (c : Case) : Bool :=
  c.rq.msgs.all decodable && (c.srvReqStream || c.rq.msgs.length == 1)

/-- the response side is inside the property's contract -/
def respInScope (c : Case) : Bool :=
  c.srvRespStream == c.cliRespStream && c.body.msgs.all decodable &&
  (match c.early with | some s => stInScope s | none => true) &&
  (match c.fin with | some s => stInScope s | none => true) &&
  (c.srvRespStream || (c.body.msgs.length == 1 && c.fin.isNone))

/-- a single-response client (unary, client-streaming) facing a handler with a response stream: inside the
contract when the script is what a server may legally answer such a call with - one message and OK, or any
number of messages and then an error status in the trailers (seed C02f) -/
def mixedInScope (c : Case) : Bool :=
  c.srvRespStream && !c.cliRespStream && c.early.isNone && c.body.msgs.all decodable &&
  (match c.fin with | some s => stInScope s | none => c.body.msgs.length == 1)

def didOf (c : Case) : Spec.Call.Did Bytes :=
  match c.early with
  | some s => .failed (specSt s)
  | none => .responded c.initMd c.body.msgs (c.fin.map specSt)

def verdictOf (c : Case) (obs : List String) : String :=
  match obs with
  | _ :: "SEEN" :: r =>
    match pObsSeen r with
    | some ((got, _), "CLIENT" :: r1) =>
      if r1 = ["hang"] then "fail:never-hangs" else
      match pObsClient r1 with
      | some (saw, []) =>
        verdict [
          ("handler-sees-the-request",
            !reqInScope c || Spec.Call.handlerOk c.srvReqStream c.reads ⟨c.rqMd, c.rq.msgs⟩ got),
          ("client-sees-the-script",
            !(reqInScope c && respInScope c) || Spec.Call.clientOk c.cliRespStream (didOf c) saw),
          ("single-response-client-sees-the-streamed-script",
            !(reqInScope c && mixedInScope c) ||
              (if c.fin.isSome then Spec.Call.clientOkMixed (didOf c) saw else Spec.Call.clientOk false (didOf c) saw))]
      | _ => "fail:observed-parses"
    | _ => "fail:observed-parses"
  | _ => if obs = ["bad-case"] then "ok" else "fail:never-panics"

def handle (case obs : List String) : String × String :=
  match parseCase case with
  | none => bad
  | some c =>
    if !c.srvRespStream && c.early.isNone && c.body.msgs.isEmpty then ("bad-case", "ok")
    else (runModel c, verdictOf c obs)

end DriverC02
