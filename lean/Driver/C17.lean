import Driver.Proto
import TonicModel.Model.WebClient
import TonicModel.Spec.GrpcWeb
namespace DriverC17
open Proto WebServer WebClient
open TMap (Pair str)

/-! token helpers (same text form as C16's driver; kept local so that this module imports only
`Driver.Proto` and the model/spec) -/

def parsePairs : Nat → List String → Option (List Pair × List String)
  | 0, r => some ([], r)
  | n + 1, k :: v :: r => do
    let kb ← unhex k
    let vb ← unhex v
    let (ps, r') ← parsePairs n r
    some ((kb, vb) :: ps, r')
  | _ + 1, _ => none

def parseEvsAux : Nat → List String → Option (List BodyEv)
  | _, [] => some []
  | 0, _ => none
  | f + 1, "d" :: h :: r => do
    let b ← unhex h
    let es ← parseEvsAux f r
    some (.data b :: es)
  | f + 1, "e" :: r => (parseEvsAux f r).map (.err :: ·)
  | f + 1, "p" :: r => (parseEvsAux f r).map (.pending :: ·)
  | f + 1, "t" :: n :: r => do
    let n ← nat? n
    let (ps, r') ← parsePairs n r
    let es ← parseEvsAux f r'
    some (.trailers ps :: es)
  | _ + 1, _ => none

def parseEvs (ts : List String) : Option (List BodyEv) := parseEvsAux (ts.length + 1) ts

def renderPairs (ps : List Pair) : List String :=
  ps.flatMap (fun p => [hex p.1, hex p.2])

def renderOuts : List Out → List String
  | [] => []
  | .data b :: r => "d" :: hex b :: renderOuts r
  | .trailers h :: r => "t" :: toString h.length :: (renderPairs h ++ renderOuts r)
  | .err :: r => "err" :: renderOuts r
  | .eos :: r => "eos" :: renderOuts r

/-- observed frame tokens back into `Out`s -/
def parseOutsAux : Nat → List String → Option (List Out)
  | _, [] => some []
  | 0, _ => none
  | f + 1, "d" :: h :: r => do
    let b ← unhex h
    let os ← parseOutsAux f r
    some (.data b :: os)
  | f + 1, "err" :: r => (parseOutsAux f r).map (.err :: ·)
  | f + 1, "eos" :: r => (parseOutsAux f r).map (.eos :: ·)
  | f + 1, "t" :: n :: r => do
    let n ← nat? n
    let (ps, r') ← parsePairs n r
    let os ← parseOutsAux f r'
    some (.trailers ps :: os)
  | _ + 1, _ => none

def parseOuts (ts : List String) : Option (List Out) := parseOutsAux (ts.length + 1) ts

def join (ts : List String) : String := String.intercalate " " ts

def onlyData : List Out → Bool
  | [] => true
  | .data _ :: r => onlyData r
  | _ => false

/-- all `Out`s are data except a final `eos` -/
def dataThenEos (o : List Out) : Bool :=
  o.getLast? == some .eos && onlyData o.dropLast

def isData : BodyEv → Bool
  | .data _ => true
  | _ => false

def firstFail (vs : List String) : String :=
  match vs.find? (· != "ok") with
  | some v => v
  | none => "ok"


def bytesLe : Bytes → Bytes → Bool
  | [], _ => true
  | _ :: _, [] => false
  | a :: as, b :: bs => if a.toNat < b.toNat then true else if b.toNat < a.toNat then false else bytesLe as bs

/-- put `p` before the first entry whose name is not smaller (stable w.r.t. equal names when
folding from the right) -/
def insertByName (p : Pair) : List Pair → List Pair
  | [] => [p]
  | q :: r => if bytesLe p.1 q.1 then p :: q :: r else q :: insertByName p r

def sortByName (l : List Pair) : List Pair := l.foldr insertByName []

/-- canonical form of trailers frames: sorted by name, value order kept -/
def canonOuts : List Out → List Out
  | [] => []
  | .trailers t :: r => .trailers (sortByName t) :: canonOuts r
  | o :: r => o :: canonOuts r

def trailersOf : List Out → List Pair
  | [] => []
  | .trailers t :: r => t ++ trailersOf r
  | _ :: r => trailersOf r

def countTrailers : List Out → Nat
  | [] => 0
  | .trailers _ :: r => countTrailers r + 1
  | _ :: r => countTrailers r

/-- spec verdict for the client: `evs` = inner response body, `obs` = frames the caller saw,
`busy` = the run did not end, `ae` = polls of the inner body after its end. -/
def clientVerdict (evs : List BodyEv) (obs : List Out) (busy : Bool) (ae : Nat) : String :=
  let es := evs.filter notPending
  let live := verdict [("no-busy-loop", !busy && ae ≤ 8)]
  let body := flat es
  let v :=
    match es.find? (fun e => !isData e) with
    | some .err => verdict [("error-not-clean", obs.getLast? == some .err)]
    | some _ => "ok"      -- real HTTP trailers next to in-body ones: outside the property
    | none =>
      match Spec.GrpcWeb.frameStructure body with
      | none => verdict [("cut-off-or-malformed-is-error", obs.getLast? == some .err)]
      | some items =>
        let msgs := items.filter (fun i => i.1 != 128)
        let trs := items.filter (fun i => i.1 == 128)
        let trailersLast := (items.dropWhile (fun i => i.1 != 128)).length ≤ 1
        if trs.length ≤ 1 && trailersLast then
          let msgBytes := msgs.flatMap (fun i => Spec.GrpcWeb.rawFrame i.1 i.2)
          match trs with
          | [] =>
            verdict [("clean-end", obs.getLast? == some .eos),
                     ("message-bytes-identical", dataOf obs == msgBytes),
                     ("no-trailers-invented", trailersOf obs == [])]
          | (_, block) :: _ =>
            match Spec.GrpcWeb.parseBlock block with
            | some ps =>
              if ps.all (fun p => Spec.GrpcWeb.fieldNameOk p.1 && Spec.GrpcWeb.fieldValueOk p.2) then
                verdict [("clean-end", obs.getLast? == some .eos),
                         ("message-bytes-identical", dataOf obs == msgBytes),
                         ("trailers-after-data", match obs.dropLast.getLast? with
                            | some (.trailers _) => true
                            | _ => false),
                         ("one-trailers-frame", countTrailers obs == 1),
                         ("every-trailer-complete",
                            Spec.GrpcWeb.sameTrailers (Spec.GrpcWeb.normPairs (trailersOf obs)) (Spec.GrpcWeb.normPairs ps)
                            && (trailersOf obs).length == ps.length)]
              else "ok"    -- trailer block with bytes no HTTP field may carry: error or lenient
            | none => "ok" -- unterminated line / line without colon: error or lenient
        else "ok"          -- frames after the trailers frame / several trailers frames
  firstFail [live, v]

def handle (case obs : List String) : String × String :=
  match case with
  | "cl" :: evToks =>
    match parseEvs evToks with
    | some evs =>
      let model := join (renderOuts (canonOuts (Fixed.observe evs)) ++ ["ae", "0"])
      let v := match splitAe obs with
        | some (frames, ae) =>
          let busy := frames.getLast? == some "busy" || frames.getLast? == some "hang" || frames.getLast? == some "panic"
          match parseOuts (if busy then frames.dropLast else frames) with
          | some o => clientVerdict evs o busy ae
          | none => "fail:unreadable-observation"
        | none => "fail:unreadable-observation"
      (model, v)
    | none => bad
  | "asis" :: evToks =>
    match parseEvs evToks with
    | some evs =>
      let (os, busy, ae) := AsIs.observe 1000 evs
      let model := join (renderOuts (canonOuts os) ++ (if busy then ["busy"] else []) ++ ["ae", toString ae])
      let v := match splitAe obs with
        | some (frames, ae) =>
          let busy := frames.getLast? == some "busy" || frames.getLast? == some "hang" || frames.getLast? == some "panic"
          match parseOuts (if busy then frames.dropLast else frames) with
          | some o => clientVerdict evs o busy ae
          | none => "fail:unreadable-observation"
        | none => "fail:unreadable-observation"
      (model, v)
    | none => bad
  | "creq" :: evToks =>
    match parseEvs evToks with
    | some evs =>
      -- `client_request`: Encode direction, no base64; HTTP/2 is coerced to HTTP/1.1 and the
      -- content type replaced
      let model := join (["HTTP11", hex GRPC_WEB] ++ renderOuts (respRun .none evs))
      let v := match obs with
        | ver :: ct :: frames =>
          match parseOuts frames with
          | some o =>
            let es := evs.filter notPending
            firstFail [verdict [("http-1.1", ver == "HTTP11"),
                                ("grpc-web-content-type", ct == hex (str "application/grpc-web"))],
                       (match es.find? (fun e => !isData e) with
                        | none => verdict [("request-bytes-identical", dataThenEos o && dataOf o == flat es)]
                        | some .err => verdict [("error-not-clean", o.getLast? == some .err)]
                        | some _ => "ok")]
          | none => "fail:unreadable-observation"
        | _ => "fail:unreadable-observation"
      (model, v)
    | none => bad
  | _ => bad
where
  splitAe (obs : List String) : Option (List String × Nat) :=
    match obs.reverse with
    | n :: "ae" :: r => (nat? n).map (fun k => (r.reverse, k))
    | _ => none

end DriverC17
