import Driver.Proto
import TonicModel.Model.WebClient
import TonicModel.Model.WebCaller
import TonicModel.Model.WebClientHints
import TonicModel.Spec.GrpcWeb
import TonicModel.Spec.Status
namespace DriverC17
open Proto WebServer WebClient
open TMap (Pair str)

/-! token helpers (same text form as C16's driver; kept local so that this module imports only
`Driver.Proto` and the model/spec) -/

def parsePairs : Nat → List String → Option (List Pair × List String)
  | 0, r => some ([], r)
  | n + 1, k :: v :: r => do
    let kb ← unhex k
    let vb ← unhex v
    let (ps, r') ← parsePairs n r
    some ((kb, vb) :: ps, r')
  | _ + 1, _ => none


/-! the optional response head in front of the events: `rp <status> <ver> <n> (<name> <value>){n}` -/

def verOf : String → Option Ver
  | "h09" => some .h09 | "h10" => some .h10 | "h11" => some .h11 | "h2" => some .h2 | "h3" => some .h3
  | _ => none

def verTok : Ver → String
  | .h09 => "h09" | .h10 => "h10" | .h11 => "h11" | .h2 => "h2" | .h3 => "h3"

def parseHead (ts : List String) : Option (Option RespHead × List String) :=
  match ts with
  | "rp" :: st :: ver :: n :: r => do
    let st ← nat? st
    let v ← verOf ver
    let n ← nat? n
    let (ps, r') ← parsePairs n r
    some (some { status := st, version := v, headers := ps }, r')
  | "rp" :: _ => none
  | _ => some (none, ts)

def parseEvsAux : Nat → List String → Option (List BodyEv)
  | _, [] => some []
  | 0, _ => none
  | f + 1, "d" :: h :: r => do
    let b ← unhex h
    let es ← parseEvsAux f r
    some (.data b :: es)
  | f + 1, "e" :: r => (parseEvsAux f r).map (.err :: ·)
  | f + 1, "p" :: r => (parseEvsAux f r).map (.pending :: ·)
  | f + 1, "t" :: n :: r => do
    let n ← nat? n
    let (ps, r') ← parsePairs n r
    let es ← parseEvsAux f r'
    some (.trailers ps :: es)
  | _ + 1, _ => none

def parseEvs (ts : List String) : Option (List BodyEv) := parseEvsAux (ts.length + 1) ts

def renderPairs (ps : List Pair) : List String :=
  ps.flatMap (fun p => [hex p.1, hex p.2])

def renderOuts : List Out → List String
  | [] => []
  | .data b :: r => "d" :: hex b :: renderOuts r
  | .trailers h :: r => "t" :: toString h.length :: (renderPairs h ++ renderOuts r)
  | .err :: r => "err" :: renderOuts r
  | .eos :: r => "eos" :: renderOuts r

/-- observed frame tokens back into `Out`s -/
def parseOutsAux : Nat → List String → Option (List Out)
  | _, [] => some []
  | 0, _ => none
  | f + 1, "d" :: h :: r => do
    let b ← unhex h
    let os ← parseOutsAux f r
    some (.data b :: os)
  | f + 1, "err" :: r => (parseOutsAux f r).map (.err :: ·)
  | f + 1, "eos" :: r => (parseOutsAux f r).map (.eos :: ·)
  | f + 1, "t" :: n :: r => do
    let n ← nat? n
    let (ps, r') ← parsePairs n r
    let os ← parseOutsAux f r'
    some (.trailers ps :: os)
  | _ + 1, _ => none

def parseOuts (ts : List String) : Option (List Out) := parseOutsAux (ts.length + 1) ts

def join (ts : List String) : String := String.intercalate " " ts

def onlyData : List Out → Bool
  | [] => true
  | .data _ :: r => onlyData r
  | _ => false

/-- all `Out`s are data except a final `eos` -/
def dataThenEos (o : List Out) : Bool :=
  o.getLast? == some .eos && onlyData o.dropLast

def isData : BodyEv → Bool
  | .data _ => true
  | _ => false

def isDataOut : Out → Bool
  | .data _ => true
  | _ => false

def firstFail (vs : List String) : String :=
  match vs.find? (· != "ok") with
  | some v => v
  | none => "ok"


def bytesLe : Bytes → Bytes → Bool
  | [], _ => true
  | _ :: _, [] => false
  | a :: as, b :: bs => if a.toNat < b.toNat then true else if b.toNat < a.toNat then false else bytesLe as bs

/-- put `p` before the first entry whose name is not smaller (stable w.r.t. equal names when
folding from the right) -/
def insertByName (p : Pair) : List Pair → List Pair
  | [] => [p]
  | q :: r => if bytesLe p.1 q.1 then p :: q :: r else q :: insertByName p r

def sortByName (l : List Pair) : List Pair := l.foldr insertByName []

/-- the head as the harness prints it: headers stably sorted by name -/
def renderHead (h : RespHead) : List String :=
  ["rp", toString h.status, verTok h.version, toString h.headers.length] ++ renderPairs (sortByName h.headers)

/-- canonical form of trailers frames: sorted by name, value order kept -/
def canonOuts : List Out → List Out
  | [] => []
  | .trailers t :: r => .trailers (sortByName t) :: canonOuts r
  | o :: r => o :: canonOuts r

def trailersOf : List Out → List Pair
  | [] => []
  | .trailers t :: r => t ++ trailersOf r
  | _ :: r => trailersOf r

def countTrailers : List Out → Nat
  | [] => 0
  | .trailers _ :: r => countTrailers r + 1
  | _ :: r => countTrailers r

/-- "every name with its full value": per name the same values in the same order, names in
lower case, values byte for byte except the one optional space after the colon -/
def trailersComplete (seen : List Pair) (block : List Pair) : Bool :=
  Spec.GrpcWeb.sameTrailers seen (Spec.GrpcWeb.exactPairs block) && seen.length == block.length

/-- spec verdict for the client: `evs` = inner response body, `obs` = frames the caller saw,
`busy` = the run did not end, `ae` = polls of the inner body after its end. -/
def clientVerdict (evs : List BodyEv) (obs : List Out) (busy : Bool) (ae : Nat) : String :=
  let es := evs.filter notPending
  let live := verdict [("no-busy-loop", !busy && ae ≤ 8)]
  let body := flat es
  let v :=
    match es.find? (fun e => !isData e) with
    | some .err => verdict [("error-not-clean", obs.getLast? == some .err)]
    | some _ => "ok"      -- real HTTP trailers next to in-body ones: outside the property
    | none =>
      match Spec.GrpcWeb.frameStructure body with
      | none => verdict [("cut-off-or-malformed-is-error", obs.getLast? == some .err)]
      | some items =>
        let msgs := items.filter (fun i => i.1 != 128)
        let trs := items.filter (fun i => i.1 == 128)
        let trailersLast := (items.dropWhile (fun i => i.1 != 128)).length ≤ 1
        let msgBytes := msgs.flatMap (fun i => Spec.GrpcWeb.rawFrame i.1 i.2)
        if trs.length ≤ 1 && trailersLast then
          match trs with
          | [] =>
            verdict [("clean-end", obs.getLast? == some .eos),
                     ("message-bytes-identical", dataOf obs == msgBytes),
                     ("no-trailers-invented", trailersOf obs == [])]
          | (_, block) :: _ =>
            let wellFormed := match Spec.GrpcWeb.parseBlock block with
              | some ps =>
                if ps.all (fun p => Spec.GrpcWeb.fieldNameOk p.1 && Spec.GrpcWeb.fieldValueOk p.2)
                then some ps else none
              | none => none
            match wellFormed with
            | some ps =>
              verdict [("clean-end", obs.getLast? == some .eos),
                       ("message-bytes-identical", dataOf obs == msgBytes),
                       ("trailers-after-data", match obs.dropLast.getLast? with
                          | some (.trailers _) => true
                          | _ => false),
                       ("one-trailers-frame", countTrailers obs == 1),
                       ("every-trailer-complete", trailersComplete (trailersOf obs) ps)]
            | none =>
              -- a malformed trailers block (a line without colon, bytes no field may carry, a last
              -- line without CRLF): an error — or, if the stream does end cleanly, nothing of the
              -- block may have been dropped: every line is listed with its full value
              let complete := match Spec.GrpcWeb.readBlockLoose block with
                | some raw => trailersComplete (trailersOf obs) raw && dataOf obs == msgBytes
                | none => false
              verdict [("malformed-trailers-error-or-every-line-listed",
                        obs.getLast? == some .err || (obs.getLast? == some .eos && complete))]
        else
          -- frames after the trailers frame / several trailers frames: not a grpc-web body; an
          -- error, or at least the message bytes as they are
          verdict [("error-or-message-bytes-identical",
                    obs.getLast? == some .err || dataOf obs == msgBytes)]
  firstFail [live, v]


/-! ### the response head (cases with `rp`) -/

def contentTypeName : Bytes := str "content-type"

def kindOf (h : RespHead) : Spec.GrpcWeb.RespKind :=
  Spec.GrpcWeb.respKind (Spec.GrpcWeb.fieldOf contentTypeName h.headers)

def withoutContentType (h : List Pair) : List Pair := h.filter (fun p => !(p.1 == contentTypeName))

/-- what the layer may do to the head: the status and every header other than `content-type`
reach the caller as the server sent them (the content type may be rewritten; the version is not
the property's business) -/
def headVerdict (sent seen : RespHead) : String :=
  verdict [("status-handed-on", seen.status == sent.status),
           ("headers-handed-on",
              Spec.GrpcWeb.sameTrailers (withoutContentType seen.headers) (withoutContentType sent.headers)
              && (withoutContentType seen.headers).length == (withoutContentType sent.headers).length)]

/-- a grpc-web body: message frames, then at most one trailers frame (last) with a well-formed block -/
def isWebBody (raw : Bytes) : Bool :=
  match Spec.GrpcWeb.frameStructure raw with
  | none => false
  | some items =>
    let trs := items.filter (fun i => i.1 == 128)
    let trailersLast := (items.dropWhile (fun i => i.1 != 128)).length ≤ 1
    trs.length ≤ 1 && trailersLast && trs.all (fun i =>
      match Spec.GrpcWeb.parseBlock i.2 with
      | some ps => ps.all (fun p => Spec.GrpcWeb.fieldNameOk p.1 && Spec.GrpcWeb.fieldValueOk p.2)
      | none => false)

/-- Body verdict by the kind of response the content-type announces.
binary (`application/grpc-web[+format]`, any case, any parameters; or no content-type): the
property in full.  text (`application/grpc-web-text[+format]`): the client never asks for that form
(no `accept`); if the body is the base64 form of a grpc-web body the layer must either decode it
in full or report an error — never a clean end that hides messages or the status.  other: not a
grpc-web response; only liveness. -/
def respBodyVerdict (h : RespHead) (evs : List BodyEv) (obs : List Out) (busy : Bool) (ae : Nat) : String :=
  let live := verdict [("no-busy-loop", !busy && ae ≤ 8)]
  match kindOf h with
  | .binary => clientVerdict evs obs busy ae
  | .other => live
  | .text =>
    let es := evs.filter notPending
    if es.any (fun e => !isData e) then live
    else
      match Spec.GrpcWeb.b64StreamDecode (flat es) with
      | none => live
      | some raw =>
        if isWebBody raw then
          firstFail [live, verdict [("text-body-error-or-decoded",
            obs.getLast? == some .err || clientVerdict [.data raw] obs busy ae == "ok")]]
        else live

/-! ### the caller's view (`st` cases) -/

def renderSt (st : Status.St) : List String :=
  toString st.code.num :: hex st.message :: hex st.details :: HMap.render st.metadata

def renderEnd : WebCaller.End → List String
  | .ok (some t) => "ok" :: HMap.render t
  | .ok none => ["ok", "none"]
  | .status st => "err" :: renderSt st
  | .layer => ["err", "layer"]
  | .panic => ["panic"]

def renderStreamed (s : WebCaller.Streamed) : List String :=
  ["msgs", toString s.msgs.length] ++ s.msgs.map hex ++ ["end"] ++ renderEnd s.fin

def renderUnary : WebCaller.Unary → List String
  | .ok m md => "ok" :: hex m :: HMap.render md
  | .status st => "err" :: renderSt st
  | .layer => ["err", "layer"]
  | .missing => ["err", "13", hex WebCaller.missingMessage, "x", "0"]
  | .panic => ["panic"]


/-- a rendered metadata map equals `expected`, leaving the `content-type` entry aside (the layer
may rewrite the response's content type; the property does not say) -/
def sameButContentType (toks : List String) (expected : HMap) : Bool :=
  match HMap.parseRendered toks with
  | some (m, []) => HMap.render (HMap.remove (str "content-type") m) == HMap.render (HMap.remove (str "content-type") expected)
  | _ => false

/-- clauses for "the caller was given status tokens `toks` where the server's trailers were `t`
and said a failing status" (as C04's reading verdict, against `Spec.Status.read`) -/
def statusClauses (t : HMap) (r : Spec.Status.Reading) (toks : List String) (hdrs : HMap := []) : List (String × Bool) :=
  match toks with
  | c :: m :: d :: md =>
    match nat? c, unhex m, unhex d with
    | some c, some m, some d =>
      match r.message, r.details with
      | some rm, some rd =>
        [("status-code-is-the-servers", c == r.code), ("status-message-is-the-servers", m == rm),
         ("status-details-are-the-servers", d == rd),
         ("other-trailers-are-metadata",
            let own := HMap.removeAll [Spec.Status.statusName, Spec.Status.messageName,
                                       Spec.Status.detailsName] t
            -- (a unary call may add the response headers to the status it hands out)
            md == HMap.render own || (!hdrs.isEmpty && sameButContentType md (HMap.extend own hdrs)))]
      | _, _ => [("undecodable-field-gives-error-status", c != Spec.Status.OK)]
    | _, _, _ => [("observed-parses", false)]
  | _ => [("observed-parses", false)]

/-- what the caller saw, split into messages and the end -/
def splitStreamObs (obs : List String) : Option (List String × List String) :=
  match obs with
  | "msgs" :: n :: r =>
    match nat? n with
    | some n => if r.length < n + 1 then none
                else if r.getD n "" == "end" then some (r.take n, r.drop (n + 1)) else none
    | none => none
  | _ => none

/-- spec verdict for the caller's view.  `unary`: the call was `Grpc::unary`. -/
def callerVerdict (unary : Bool) (evs : List BodyEv) (obs : List String) (hdrs : HMap := []) : String :=
  if obs == ["panic"] || obs == ["hang"] || obs == ["runaway"] then "fail:never-panics-or-hangs"
  else
  let es := evs.filter notPending
  -- the end as the caller saw it: `ok …` / `err …`, and the messages (unary: at most the one)
  let seen : Option (List String × List String) :=
    if unary then
      match obs with
      | "ok" :: m :: md => some ([m], "ok" :: md)
      | "err" :: st => some ([], "err" :: st)
      | _ => none
    else splitStreamObs obs
  match seen with
  | none => "fail:unreadable-observation"
  | some (msgs, fin) =>
    let isErr := fin.head? == some "err"
    match es.find? (fun e => !isData e) with
    | some .err => verdict [("error-not-clean", isErr)]
    | some _ => "ok"
    | none =>
      match Spec.GrpcWeb.frameStructure (flat es) with
      | none => verdict [("cut-off-or-malformed-is-error", isErr)]
      | some items =>
        let ms := items.filter (fun i => i.1 != 128)
        let trs := items.filter (fun i => i.1 == 128)
        let trailersLast := (items.dropWhile (fun i => i.1 != 128)).length ≤ 1
        if !(trs.length ≤ 1 && trailersLast && ms.all (fun i => i.1 == 0)) then "ok"
        else
          let payloads := ms.map (fun i => hex i.2)
          let msgClause : (String × Bool) :=
            if unary then ("message-is-the-first-sent", isErr || msgs == payloads.take 1)
            else ("messages-identical", if isErr then msgs.length ≤ payloads.length && msgs == payloads.take msgs.length
                                        else msgs == payloads)
          match trs with
          | [] => verdict [msgClause]   -- no trailers frame: no status was sent
          | (_, block) :: _ =>
            let wellFormed := match Spec.GrpcWeb.parseBlock block with
              | some ps =>
                if ps.all (fun p => Spec.GrpcWeb.fieldNameOk p.1 && Spec.GrpcWeb.fieldValueOk p.2)
                then some ps else none
              | none => none
            match wellFormed with
            | some ps =>
              let t : HMap := Spec.GrpcWeb.exactPairs ps
              match Spec.Status.read t with
              | none => verdict [msgClause]   -- trailers without grpc-status: nothing to see
              | some r =>
                if r.code == Spec.Status.OK && r.message.isSome && r.details.isSome then
                  if unary && payloads.isEmpty then
                    verdict [("unary-without-message-is-an-error", isErr)]
                  else
                    verdict [msgClause, ("ok-status-is-success", !isErr),
                             ("trailers-are-the-servers",
                                -- unary: the response's metadata = its headers, then the trailers
                                if unary && !hdrs.isEmpty then
                                  -- (a content-type among the TRAILERS replaces the header's)
                                  if HMap.hasKey (str "content-type") t then fin.drop 1 == HMap.render (HMap.extend hdrs t)
                                  else sameButContentType (fin.drop 1) (HMap.extend hdrs t)
                                else fin.drop 1 == HMap.render t)]
                else
                  verdict ([msgClause, ("failing-status-reaches-the-caller", isErr)] ++
                           statusClauses t r (fin.drop 1) (if unary then hdrs else []))
            | none =>
              -- malformed block: whatever can be read of it must not turn a failure into success
              match Spec.GrpcWeb.readBlockLoose block with
              | some raw =>
                match Spec.Status.read (Spec.GrpcWeb.exactPairs raw) with
                | some r =>
                  if r.code != Spec.Status.OK then verdict [("failing-status-line-not-hidden", isErr)] else "ok"
                | none => "ok"
              | none => "ok"

def handleBase (case obs : List String) : String × String :=
  match case with
  | "cl" :: toks =>
    match parseHead toks with
    | none => bad
    | some (head?, evToks) =>
    match parseEvs evToks with
    | some evs =>
      let sent : RespHead := head?.getD {}
      let (mhead, mouts) := respond sent evs
      let m := canonOuts mouts
      let headToks := if head?.isSome then renderHead mhead else []
      let exactLine := join (headToks ++ renderOuts m ++ ["ae", "0"])
      -- the observed head (only printed for cases with a head) and the rest
      let obsSplit : Option (Option RespHead × List String) :=
        if head?.isSome then
          match parseHead obs with
          | some (some h, r) => some (some h, r)
          | _ => none
        else some (none, obs)
      -- `C17_lossless` promises the message bytes, not where the data frames are cut: model and
      -- observation are compared as (head, concatenated data, trailers frames, terminal frame,
      -- `ae`); a run that ends in an error only as "ends in an error".  When they agree in that form
      -- the driver answers with the observed tokens.  The verdict sees the exact observation.
      let model := match obsSplit with
        | some (ohead, rest) =>
          match splitAe rest with
          | some (frames, 0) =>
            match parseOuts frames with
            | some o =>
              let same :=
                if m.getLast? == some .err then o.getLast? == some .err
                else dataOf m == dataOf o && m.filter (!isDataOut ·) == o.filter (!isDataOut ·)
              let sameHead := obs.take headToks.length == headToks && (ohead.isSome == head?.isSome)
              if same && sameHead then join obs else exactLine
            | none => exactLine
          | _ => exactLine
        | none => exactLine
      let v := match obsSplit with
        | some (ohead, rest) =>
          match splitAe rest with
          | some (frames, ae) =>
            let busy := frames.getLast? == some "busy" || frames.getLast? == some "hang" || frames.getLast? == some "panic"
            match parseOuts (if busy then frames.dropLast else frames) with
            | some o =>
              match head?, ohead with
              | some h, some oh => firstFail [headVerdict h oh, respBodyVerdict h evs o busy ae]
              | _, _ => clientVerdict evs o busy ae
            | none => "fail:unreadable-observation"
          | none => "fail:unreadable-observation"
        | none => "fail:unreadable-observation"
      (model, v)
    | none => bad
  | "st" :: k :: toks =>
    match parseHead toks with
    | none => bad
    | some (head?, evToks) =>
    match parseEvs evToks, k == "u" || k == "s" with
    | some evs, true =>
      match head? with
      | none =>
        let outs := Fixed.observe evs
        let model := if k == "u" then join (renderUnary (WebCaller.unary outs))
                     else join (renderStreamed (WebCaller.streaming outs))
        (model, callerVerdict (k == "u") evs obs)
      | some h =>
        let (mhead, outs) := respond h evs
        let model := if k == "u" then join (renderUnary (WebCaller.unaryAt mhead outs))
                     else join (renderStreamed (WebCaller.streamingAt mhead outs))
        -- the property speaks about grpc-web responses (HTTP 200, a binary grpc-web content type
        -- or none); for the rest only: no panic, no hang
        let v :=
          if h.status == 200 && kindOf h == .binary then callerVerdict (k == "u") evs obs h.headers
          else if obs == ["panic"] || obs == ["hang"] || obs == ["runaway"] then "fail:never-panics-or-hangs"
          else "ok"
        (model, v)
    | _, _ => bad
  | "asis" :: evToks =>
    match parseEvs evToks with
    | some evs =>
      let (os, busy, ae) := AsIs.observe 1000 evs
      let model := join (renderOuts (canonOuts os) ++ (if busy then ["busy"] else []) ++ ["ae", toString ae])
      let v := match splitAe obs with
        | some (frames, ae) =>
          let busy := frames.getLast? == some "busy" || frames.getLast? == some "hang" || frames.getLast? == some "panic"
          match parseOuts (if busy then frames.dropLast else frames) with
          | some o => clientVerdict evs o busy ae
          | none => "fail:unreadable-observation"
        | none => "fail:unreadable-observation"
      (model, v)
    | none => bad
  | "creq" :: evToks =>
    match parseEvs evToks with
    | some evs =>
      -- `client_request`: Encode direction, no base64; HTTP/2 is coerced to HTTP/1.1 and the
      -- content type replaced
      let model := join (["HTTP11", hex GRPC_WEB] ++ renderOuts (respRun .none evs))
      let v := match obs with
        | ver :: ct :: frames =>
          match parseOuts frames with
          | some o =>
            let es := evs.filter notPending
            firstFail [verdict [("http-1.1", ver == "HTTP11"),
                                ("grpc-web-content-type", ct == hex (str "application/grpc-web"))],
                       (match es.find? (fun e => !isData e) with
                        | none => verdict [("request-bytes-identical", dataThenEos o && dataOf o == flat es)]
                        | some .err => verdict [("error-not-clean", o.getLast? == some .err)]
                        | some _ => "ok")]
          | none => "fail:unreadable-observation"
        | _ => "fail:unreadable-observation"
      (model, v)
    | none => bad
  | _ => bad
where
  splitAe (obs : List String) : Option (List String × Nat) :=
    match obs.reverse with
    | n :: "ae" :: r => (nat? n).map (fun k => (r.reverse, k))
    | _ => none

/-! ### further dimensions (audit aC17): other entry points / consumers (`clm`), histories (`cls`),
hints of the inner and of the returned body (`clh`, `sth`) -/

def splitSlash : List String → List (List String)
  | [] => [[]]
  | t :: r =>
    match splitSlash r with
    | [] => [[t]]
    | seg :: segs => if t == "/" then [] :: seg :: segs else (t :: seg) :: segs

/-- `… eos again <k> ae <n>` → `… eos ae <n>`, `k` -/
def stripAgain (obs : List String) : List String × Option String :=
  match obs.reverse with
  | n :: "ae" :: k :: "again" :: r => ((n :: "ae" :: r).reverse, some k)
  | _ => (obs, none)

/-- the `q <e> <lower> <upper>` groups taken out of an observation -/
def stripQ : List String → List String × List (String × String × String)
  | [] => ([], [])
  | t :: r =>
    let (ts, qs) := stripQ r
    if t == "q" then
      match ts with
      | e :: lo :: up :: ts' => (ts', (e, lo, up) :: qs)
      | _ => (t :: ts, qs)
    else (t :: ts, qs)

def hintTriple (h : WebClient.Hints.Hint) : String × String × String :=
  (if h.eos then "1" else "0", toString h.lower, match h.upper with | some u => toString u | none => "inf")

def renderHint (h : WebClient.Hints.Hint) : List String :=
  let (e, lo, up) := hintTriple h
  ["q", e, lo, up]

/-- `http_body`'s contract, on what was observed: (`is_end_stream() == true` only right before the
`None`, `lower ≤ data bytes from here on` when the stream ends cleanly, `… ≤ upper` always) -/
def hintsOk : List (String × String × String) → List Out → Bool → Bool × Bool
  | (e, lo, up) :: qs, o :: os, clean =>
    let n := (dataOf (o :: os)).length
    let (a, b) := hintsOk qs os clean
    (a && (e != "1" || o == .eos),
     b && (match nat? lo with | some l => !clean || l ≤ n | none => false)
       && (if up == "inf" then true else match nat? up with | some u => n ≤ u | none => false))
  | _, _, _ => (true, true)

def hintVerdict (withHead : Bool) (obs : List String) (qs : List (String × String × String)) : String :=
  let rest := if withHead then (match parseHead obs with | some (_, r) => r | none => obs) else obs
  match rest.reverse with
  | _ :: "ae" :: fr =>
    let frames := fr.reverse
    let busy := frames.getLast? == some "busy" || frames.getLast? == some "hang" || frames.getLast? == some "panic"
    if busy then "ok"   -- judged by the liveness clauses
    else
      match parseOuts frames with
      | some o =>
        let (a, b) := hintsOk qs o (o.getLast? == some .eos)
        verdict [("one-hint-per-frame", qs.length == o.length),
                 ("is-end-stream-only-before-the-end", a),
                 ("size-hint-is-sound", b)]
      | none => "fail:unreadable-observation"
  | _ => "fail:unreadable-observation"

def handle (case obs : List String) : String × String :=
  match case with
  | "clm" :: modes :: toks =>
    let (obs', again) := stripAgain obs
    let (m, v) := handleBase ("cl" :: toks) obs'
    let wantsAgain := modes.toList.contains 'a'
    let mt := m.splitOn " "
    let model := if wantsAgain then
        match mt.reverse with
        | n :: "ae" :: "eos" :: r => join (n :: "ae" :: "3" :: "again" :: "eos" :: r).reverse
        | _ => m
      else m
    -- the model answers with the observed tokens when they agree canonically: put `again` back
    let model := if wantsAgain && again == some "3" && m == join obs' then join obs else model
    (model, v)
  | "cls" :: _sched :: toks =>
    let segs := splitSlash toks
    let osegs := splitSlash obs
    let rs := (List.range segs.length).map (fun i => handleBase ("cl" :: segs.getD i []) (osegs.getD i []))
    let model := String.intercalate " / " (rs.map Prod.fst)
    let v := if osegs.length != segs.length then "fail:unreadable-observation" else firstFail (rs.map Prod.snd)
    (model, v)
  | "clh" :: bits :: toks =>
    match nat? bits, parseHead toks with
    | some bits, some (head?, evToks) =>
      match parseEvs evToks with
      | some evs =>
        let (obs', qs) := stripQ obs
        let (m, v) := handleBase ("cl" :: toks) obs'
        let hm := WebClient.Hints.observeH (WebClient.Hints.outerHint bits) evs
        let headToks := if head?.isSome then renderHead (respond (head?.getD {}) evs).1 else []
        let exactLine := join (headToks ++ hm.flatMap (fun p => renderHint p.1 ++ renderOuts (canonOuts [p.2])) ++ ["ae", "0"])
        let sameHints := qs == hm.map (fun p => hintTriple p.1)
        let model := if m == join obs' && sameHints then join obs else exactLine
        (model, firstFail [v, hintVerdict head?.isSome obs' qs])
      | none => bad
    | _, _ => bad
  | "sth" :: _bits :: k :: toks => handleBase ("st" :: k :: toks) obs
  | _ => handleBase case obs

end DriverC17
