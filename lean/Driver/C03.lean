import Driver.Framing
namespace DriverC03
open Proto Framing DriverFraming

def afterFirstT : List String → Option (List String)
  | [] => none
  | t :: r => if tokKind t = 't' then some r else afterFirstT r

/-- C03 verdict on an encoder body polled to exhaustion (and beyond): the data is a
concatenation of well-formed frames, flag 1 exactly when a compressed payload (decompressible by
the reference decompressor, right magic number) is carried, server: exactly one trailers frame
with nothing after it, client: no trailers. -/
def handle (case obs : List String) : String × String :=
  match model case, parseEncCase case with
  | some m, some c =>
    let bytes := (obsData obs).flatten
    let (frs, left) := Spec.Framing.split bytes
    let eff := c.cfg.comp
    let flagsOk := frs.all (fun fp =>
      match eff with
      | some e => fp.1 == 1 && magicOk e fp.2 && (payloadMsg c.tab fp).isSome
      | none => fp.1 == 0)
    let payloadsAreMessages := (frs.filterMap (payloadMsg c.tab)).all (fun p => (itemsOf c.evs).contains p)
    let nT := (obs.filter (fun t => tokKind t = 't')).length
    let trailersOk := if c.cfg.server
      then nT == 1 && (match afterFirstT obs with | some r => r.all (fun t => t = "n") | none => false)
      else nT == 0
    (m, verdict [("no-panic", !obs.any isBad),
                 ("body-is-whole-frames", left.isEmpty),
                 ("flag-matches-compression", flagsOk),
                 ("payloads-are-serialized-messages", payloadsAreMessages),
                 ("one-trailers-block-nothing-after", trailersOk)])
  | _, _ => bad
end DriverC03
