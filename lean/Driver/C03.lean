import Driver.Framing
import Driver.C03Prod
import Driver.C03Wire
namespace DriverC03
open Proto Framing DriverFraming

def afterFirstT : List String → Option (List String)
  | [] => none
  | t :: r => if tokKind t = 't' then some r else afterFirstT r


/-! ### whole responses / requests: oracle-only (the spec predicate is evaluated on what the real
`server::Grpc` / `client::Grpc` produced; the "model" column echoes the observation) -/

def afterFirstT' : List String → Option (List String)
  | [] => none
  | t :: r => if tokKind t = 't' then some r else afterFirstT' r

def afterTok (t : String) : List String → List String
  | [] => []
  | x :: r => if x = t then r else afterTok t r

def beforeTok (t : String) : List String → List String
  | [] => []
  | x :: r => if x = t then [] else x :: beforeTok t r

def fieldOf (pfx : String) (obs : List String) : Option String :=
  (obs.find? (fun t => t.startsWith pfx)).map (fun t => (t.drop pfx.length).toString)

def encOfName (b : Bytes) : Option Enc :=
  if b = Ascii.ofString "gzip" then some .gzip
  else if b = Ascii.ofString "deflate" then some .deflate
  else if b = Ascii.ofString "zstd" then some .zstd else none

/-- frames + reference-decompressor table out of the observed `B … Z k …` tail -/
def bodyOf (obs : List String) : List String × ZTab :=
  let tail := afterTok "B" obs
  let frames := beforeTok "Z" tail
  let z := afterTok "Z" tail
  let tab : ZTab := match z with
    | k :: rest =>
      (match nat? k with
       | some k => (match parseZ k rest with | some (t, _) => t | none => [])
       | none => [])
    | [] => []
  (frames.filter (fun t => !t.startsWith "R"), tab)

/-- body clauses common to requests and responses -/
def bodyClauses (ge : Option String) (frames : List String) (tab : ZTab) (expectMsgs : Option (List Bytes)) :
    List (String × Bool) :=
  let bytes := (obsData frames).flatten
  let (frs, left) := Spec.Framing.split bytes
  let announced : Option Enc := match ge with
    | some g => if g = "-" then none else (unhexBare g).bind encOfName
    | none => none
  let flagsOk := frs.all (fun fp =>
    if fp.1 = 0 then true
    else if fp.1 = 1 then
      (match announced with
       | some e => magicOk e fp.2 && (payloadMsg tab fp).isSome
       | none => false)
    else false)
  let msgs := frs.filterMap (payloadMsg tab)
  [("body-is-whole-frames", left.isEmpty),
   ("flag-1-only-with-announced-encoding-and-really-compressed", flagsOk),
   ("payloads-are-the-messages-in-order",
      match expectMsgs with
      | some ms => msgs.length == frs.length && msgs == ms
      | none => true)]

def handleResp (case obs : List String) : String :=
  match case with
  | "resp" :: shape :: _send :: _acc :: early :: endc :: "MSGS" :: ms =>
    let msgs := ms.filterMap unhexBare
    let (frames, tab) := bodyOf obs
    let nT := (frames.filter (fun t => tokKind t = 't')).length
    let gs := fieldOf "gs" obs
    let hasData := !(obsData frames).isEmpty
    let trailersOnly := gs != some "-" && gs.isSome
    let finalCode : Option String :=
      if trailersOnly then gs else (frames.find? (fun t => tokKind t = 't')).map (fun t => (t.drop 1).toString)
    let expectedCode := if early ≠ "-" then early else endc
    let expectMsgs : List Bytes := if early ≠ "-" then [] else if shape = "u" then msgs.take 1 else msgs
    verdict ([("no-panic", !obs.any isBad), ("no-lost-wakeup", noLostWakeup obs),
              ("http-200", fieldOf "S" obs == some "200"),
              ("content-type-application-grpc", fieldOf "ct" obs == some (hexBare (Ascii.ofString "application/grpc"))),
              ("exactly-one-grpc-status",
                 if trailersOnly then nT == 0 && !hasData
                 else nT == 1 && (match afterFirstT' frames with | some r => r.all (fun t => t = "n") | none => false)),
              ("status-is-the-handlers", finalCode == some expectedCode)]
             ++ bodyClauses (fieldOf "ge" obs) frames tab (some expectMsgs))
  | _ => "fail:bad-case"

def handleReq (case obs : List String) : String :=
  match case with
  | "req" :: _send :: _acc :: origin :: path :: rest =>
    let msg := ((afterTok "MSG" rest).head?).bind unhexBare
    let (frames, tab) := bodyOf obs
    let o := (unhexBare origin).getD []
    let p := (unhexBare path).getD []
    -- only the PATH of the origin (up to a `?`) is joined in front of the method path; an origin
    -- path of "" or "/" contributes nothing
    let op := o.takeWhile (· != 63)
    let expectPath := if op = [] ∨ op = Ascii.ofString "/" then p else op ++ p
    verdict ([("no-panic", !obs.any isBad), ("no-lost-wakeup", noLostWakeup obs),
              ("method-POST", fieldOf "M" obs == some "POST"),
              ("http2", fieldOf "V" obs == some "HTTP/2.0"),
              ("path", (fieldOf "P" obs).bind unhexBare == some expectPath),
              ("content-type-application-grpc", fieldOf "ct" obs == some (hexBare (Ascii.ofString "application/grpc"))),
              ("te-trailers", fieldOf "te" obs == some (hexBare (Ascii.ofString "trailers"))),
              ("no-trailers-in-request-body", (frames.filter (fun t => tokKind t = 't')).isEmpty)]
             ++ bodyClauses (fieldOf "ge" obs) frames tab (msg.map (fun m => [m])))
  | _ => "fail:bad-case"

/-- C03 verdict on an encoder body polled to exhaustion (and beyond): the data is a
concatenation of well-formed frames, flag 1 exactly when a compressed payload (decompressible by
the reference decompressor, right magic number) is carried, server: exactly one trailers frame
with nothing after it, client: no trailers. -/
def handle (case obs : List String) : String × String :=
  match case with
  | "resp" :: _ => (String.intercalate " " obs, handleResp case obs)
  | "req" :: _ => (String.intercalate " " obs, handleReq case obs)
  | "prod" :: _ => DriverC03Prod.handle case obs
  | "wresp" :: _ => DriverC03Wire.handle case obs
  | "wreq" :: _ => DriverC03Wire.handle case obs
  | "wsrv" :: _ => DriverC03Wire.handle case obs
  | "wcli" :: _ => DriverC03Wire.handle case obs
  | _ =>
  match parseEncCase case with
  | some c =>
    let m := encColumn c obs
    let bytes := (obsData obs).flatten
    let (frs, left) := Spec.Framing.split bytes
    let eff := c.cfg.comp
    let flagsOk := frs.all (fun fp =>
      match eff with
      | some e => fp.1 == 1 && magicOk e fp.2 && (payloadMsg c.tab fp).isSome
      | none => fp.1 == 0)
    let payloadsAreMessages := (frs.filterMap (payloadMsg c.tab)).all (fun p => (itemsOf c.evs).contains p)
    let nT := (obs.filter (fun t => tokKind t = 't')).length
    let trailersOk := if c.cfg.server
      then nT == 1 && (match afterFirstT (pollToks obs) with | some r => r.all (fun t => t = "n") | none => false)
      else nT == 0
    (m, verdict [("no-panic", !obs.any isBad), ("no-lost-wakeup", noLostWakeup obs),
                 ("body-is-whole-frames", left.isEmpty),
                 ("flag-matches-compression", flagsOk),
                 ("payloads-are-serialized-messages", payloadsAreMessages),
                 ("one-trailers-block-nothing-after", trailersOk),
                 ("is-end-stream-only-after-the-trailers-or-last-data", endStreamOk c.cfg.server obs),
                 ("size-hint-is-sound", sizeHintOk obs)])
  | none => bad
end DriverC03
