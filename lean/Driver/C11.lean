import Driver.Proto
import TonicModel.Model.Codegen
import TonicModel.Model.Router
import TonicModel.Spec.Codegen
import TonicModel.Spec.Router
/-
C11 driver.  Case lines (`-` = empty string; flags are 0/1; sides = both|client|server):
  gen <emit_package> <arc_self> <default_stubs> <transport> <sides> <pkg> <name> <ident> <n> { <fn> <ident> <cs> <ss> <in> <out> }^n
      real `CodeGenBuilder::generate_client/_server` on a hand-made `tonic_build::Service`
  manual <transport> <sides> <pkg> <name> <n> { <fn> <route> <cs> <ss> <in> <out> }^n
      real `tonic_build::manual::Builder::compile`
  prost <emit_package> <arc_self> <default_stubs> <sides> <pkg> <service> <n> { <method> <cs> <ss> <inMsg> <outMsg> }^n
      real `tonic_build::configure()…compile_fds` on a FileDescriptorSet built by the harness
  e2e <api> <wrap> <n> { <idx> <pkg> <name> <k> { <route> <kind> }^k }^n target <idx> <pkg> <name> <k> { <route> <kind> }^k <j> <len>
      compiled generated client of pool service `target`, method j, against a router holding
      the compiled generated servers of the listed pool services
  regen
      run the real `codegen` binary on a scratch copy and byte-compare with the committed files
Observed / model line for gen|manual|prost:
  name <SERVICE_NAME> <NamedService::NAME> on <match scrutinee> default <code of the `_` arm>
  server <n> { <literal> <grpc call> <trait> <reqStream> <respStream> <req> <resp> <fn> }^n
  client <n> { <fn> <path> <GrpcMethod svc> <GrpcMethod method> <grpc call> <reqStream> <respStream> <req> <resp> }^n
(an absent side is `server -` / `client -`, and then `name - - on - default -`).
-/
namespace DriverC11
open Proto Codegen

def b (s : String) : Bytes := if s == "-" then [] else s.toUTF8.toList

def sh (x : Bytes) : String :=
  if x.isEmpty then "-" else
  match String.fromUTF8? (ByteArray.mk x.toArray) with
  | some s => s
  | none => hex x

def flag? (s : String) : Option Bool := if s == "1" then some true else if s == "0" then some false else none
def showFlag (x : Bool) : String := if x then "1" else "0"

def callTok : Call → String
  | .unary => "unary" | .serverStreaming => "server_streaming"
  | .clientStreaming => "client_streaming" | .streaming => "streaming"

def traitTok : SvcTrait → String
  | .unaryService => "UnaryService" | .serverStreamingService => "ServerStreamingService"
  | .clientStreamingService => "ClientStreamingService" | .streamingService => "StreamingService"

def callNum? (s : String) : Option Nat :=
  match s with
  | "unary" => some 0 | "server_streaming" => some 1 | "client_streaming" => some 2
  | "streaming" => some 3 | _ => none

def traitNum? (s : String) : Option Nat :=
  match s with
  | "UnaryService" => some 0 | "ServerStreamingService" => some 1
  | "ClientStreamingService" => some 2 | "StreamingService" => some 3 | _ => none

/-- `n` method blocks of `w` tokens each. -/
def blocks (w : Nat) : Nat → List String → Option (List (List String) × List String)
  | 0, rest => some ([], rest)
  | n + 1, rest =>
    if rest.length < w then none
    else match blocks w n (rest.drop w) with
      | some (bs, r) => some (rest.take w :: bs, r)
      | none => none

structure Job where
  svc : Service
  opts : Opts
  client : Bool
  server : Bool
  /-- Rust-side fn names are predictable (not the case for prost's identifier mangling) -/
  fnKnown : Bool

def method6 : List String → Option Method
  | [fn, ident, cs, ss, i, o] =>
    match flag? cs, flag? ss with
    | some cs, some ss => some ⟨b fn, b ident, cs, ss, b i, b o⟩
    | _, _ => none
  | _ => none

def sides? (s : String) : Option (Bool × Bool) :=
  match s with
  | "both" => some (true, true) | "client" => some (true, false) | "server" => some (false, true)
  | _ => none

def parseJob : List String → Option Job
  | "gen" :: emit :: _arc :: _stubs :: _tr :: sides :: pkg :: name :: ident :: n :: rest => do
    let emit ← flag? emit
    let (c, s) ← sides? sides
    let n ← nat? n
    let (bl, r) ← blocks 6 n rest
    if !r.isEmpty then none
    let ms ← bl.mapM method6
    some ⟨⟨b name, b pkg, b ident, ms⟩, ⟨emit⟩, c, s, true⟩
  | "manual" :: _tr :: sides :: pkg :: name :: n :: rest => do
    let (c, s) ← sides? sides
    let n ← nat? n
    let (bl, r) ← blocks 6 n rest
    if !r.isEmpty then none
    let ms ← bl.mapM method6
    -- manual::Service: identifier = name, emit_package(true)
    some ⟨⟨b name, b pkg, b name, ms⟩, ⟨true⟩, c, s, true⟩
  | "prost" :: emit :: _arc :: _stubs :: sides :: pkg :: svc :: n :: rest => do
    let emit ← flag? emit
    let (c, s) ← sides? sides
    let n ← nat? n
    let (bl, r) ← blocks 5 n rest
    if !r.isEmpty then none
    let ms ← bl.mapM (fun
      | [m, cs, ss, i, o] => do
        let cs ← flag? cs
        let ss ← flag? ss
        -- prost.rs request_response_name: `<proto_path>::<RustType>`, proto_path = "super"
        some (⟨[], b m, cs, ss, b ("super::" ++ i), b ("super::" ++ o)⟩ : Method)
      | _ => none)
    some ⟨⟨[], b pkg, b svc, ms⟩, ⟨emit⟩, c, s, false⟩
  | _ => none

def renderJob (j : Job) : String :=
  let fnTok (x : Bytes) : String := if j.fnKnown then sh x else "="
  let head :=
    if j.server then
      s!"name {sh (serviceNameConst j.svc j.opts)} {sh (serviceNameConst j.svc j.opts)} on req.uri().path() default Unimplemented"
    else "name - - on - default -"
  let server :=
    if j.server then
      let arms := serverArms j.svc j.opts
      String.intercalate " " (s!"server {arms.length}" :: arms.map (fun a =>
        s!"{sh a.literal} {callTok a.call} {traitTok a.svcTrait} {showFlag a.reqStream} {showFlag a.respStream} {sh a.req} {sh a.resp} {fnTok a.fn}"))
    else "server -"
  let client :=
    if j.client then
      let cs := clientCalls j.svc j.opts
      String.intercalate " " (s!"client {cs.length}" :: cs.map (fun c =>
        s!"{fnTok c.fn} {sh c.path} {sh c.gmService} {sh c.gmMethod} {callTok c.call} {showFlag c.reqStream} {showFlag c.respStream} {sh c.req} {sh c.resp}"))
    else "client -"
  s!"{head} {server} {client}"

/- ---- parsing the observed line into the spec's vocabulary ---- -/

def serverObs? : List String → Option Spec.Codegen.ServerObs
  | [lit, call, tr, rq, rs, req, resp, _fn] => do
    some ⟨b lit, ← callNum? call, ← traitNum? tr, ← flag? rq, ← flag? rs, b req, b resp⟩
  | _ => none

def clientObs? : List String → Option Spec.Codegen.ClientObs
  | [_fn, path, gs, gm, call, rq, rs, req, resp] => do
    some ⟨b path, b gs, b gm, ← callNum? call, ← flag? rq, ← flag? rs, b req, b resp⟩
  | _ => none

structure Seen where
  serviceName : Option Bytes
  namedName : Option Bytes
  scrutinee : String
  default : String
  server : Option (List Spec.Codegen.ServerObs)
  serverFns : List String
  client : Option (List Spec.Codegen.ClientObs)
  clientFns : List String

def parseSide (w : Nat) : List String → Option (Option (List (List String)) × List String)
  | "-" :: rest => some (none, rest)
  | n :: rest => do
    let n ← nat? n
    let (bl, r) ← blocks w n rest
    some (some bl, r)
  | [] => none

def parseSeen : List String → Option Seen
  | "name" :: sn :: nn :: "on" :: scr :: "default" :: d :: "server" :: rest => do
    let (sb, rest) ← parseSide 8 rest
    match rest with
    | "client" :: rest =>
      let (cb, rest) ← parseSide 9 rest
      if !rest.isEmpty then none
      let server ← match sb with
        | some bl => (bl.mapM serverObs?).map some
        | none => some none
      let client ← match cb with
        | some bl => (bl.mapM clientObs?).map some
        | none => some none
      let opt (s : String) : Option Bytes := if s == "-" then none else some (b s)
      some ⟨opt sn, opt nn, scr, d, server, (sb.getD []).map (fun l => l.getLast!),
            client, (cb.getD []).map (fun l => l.head!)⟩
    | _ => none
  | _ => none

def specDef (s : Service) : Spec.Codegen.ServiceDef :=
  ⟨s.package, s.ident, s.methods.map (fun m => ⟨m.ident, m.clientStreaming, m.serverStreaming, m.input, m.output⟩)⟩

def judge (j : Job) (obs : List String) : String :=
  match parseSeen obs with
  | none => "fail:generator-output-not-understood"
  | some o =>
    let d := specDef j.svc
    let pkgShown := if j.opts.emitPackage then j.svc.package else []
    let svc := Spec.Codegen.fullName pkgShown d.ident
    verdict [
      ("requested-sides-generated", o.client.isSome == j.client && o.server.isSome == j.server),
      ("service-name-is-path-prefix", !j.server || (o.serviceName == some svc && o.namedName == some svc)),
      ("client-sends-to-/package.Service/Method-with-declared-shape-and-types",
        match o.client with | some cs => Spec.Codegen.all₂ (Spec.Codegen.clientOk svc) d.methods cs | none => true),
      ("server-dispatches-on-/package.Service/Method-with-declared-shape-and-types",
        match o.server with | some ss => Spec.Codegen.all₂ (Spec.Codegen.serverOk svc) d.methods ss | none => true),
      ("client-and-server-agree",
        match o.client, o.server with
        | some cs, some ss => Spec.Codegen.sidesAgree cs ss && o.clientFns == o.serverFns
        | _, _ => true),
      ("server-matches-on-the-request-path", !j.server || o.scrutinee == "req.uri().path()"),
      ("unknown-path-is-unimplemented", !j.server || o.default == "Unimplemented"),
      ("conforms", Spec.Codegen.conforms pkgShown d (if j.server then o.serviceName else none) o.client o.server)]

/- ---- end-to-end through compiled generated code ---- -/

structure PoolSvc where
  idx : Nat
  pkg : Bytes
  name : Bytes
  methods : List (Bytes × Nat)   -- route, kind

def poolSvc? : List String → Option (PoolSvc × List String)
  | idx :: pkg :: name :: k :: rest => do
    let idx ← nat? idx
    let k ← nat? k
    let (bl, r) ← blocks 2 k rest
    let ms ← bl.mapM (fun | [r, kd] => (nat? kd).map (fun kd => (b r, kd)) | _ => none)
    some (⟨idx, b pkg, b name, ms⟩, r)
  | _ => none

def poolSvcs : Nat → List String → Option (List PoolSvc × List String)
  | 0, rest => some ([], rest)
  | n + 1, rest => do
    let (s, r) ← poolSvc? rest
    let (ss, r) ← poolSvcs n r
    some (s :: ss, r)

def PoolSvc.desc (p : PoolSvc) : Service :=
  ⟨p.name, p.pkg, p.name, p.methods.map (fun (r, kd) => ⟨[], r, kd == 2 || kd == 3, kd == 1 || kd == 3, [], []⟩)⟩

def values (idx j kind payload : Nat) : String :=
  let code := idx * 10000 + j * 100 + min payload 99
  if kind == 1 || kind == 3 then s!"ok {code} {code + 1000000}" else s!"ok {code}"

def findIdx {α} (p : α → Bool) : List α → Nat → Option (Nat × α)
  | [], _ => none
  | x :: xs, i => if p x then some (i, x) else findIdx p xs (i + 1)

def handleE2e (rest obs : List String) : String × String :=
  match rest with
  | _api :: _wrap :: n :: rest =>
    match nat? n with
    | none => bad
    | some n =>
      match poolSvcs n rest with
      | some (reg, "target" :: rest) =>
        match poolSvc? rest with
        | some (t, [j, len]) =>
          match nat? j, nat? len with
          | some j, some len =>
            match t.methods[j]? with
            | none => bad
            | some (route, ckind) =>
              let o : Opts := ⟨true⟩
              -- the generated client's path for method j …
              let path := (clientCalls t.desc o).map (·.path) |>.getD j []
              -- … routed among the generated servers (C10's router, fed with NAME + arm idents)
              let rreg : List Router.Svc := reg.map (fun p => ⟨serviceNameConst p.desc o, p.desc.methods.map (·.ident)⟩)
              let nreq := if ckind == 2 || ckind == 3 then 2 else 1
              let model :=
                match Router.dispatch rreg path with
                | .handler s m =>
                  match reg.find? (fun p => serviceNameConst p.desc o == s) with
                  | some p =>
                    match findIdx (fun rm => rm.1 == m) p.methods 0 with
                    | some (mj, (_, skind)) => s!"hit {sh s} {sh m} {nreq} {values p.idx mj skind (len * nreq)}"
                    | none => "model-error"
                  | none => "model-error"
                | .panic => "panic"
                | _ => "hit - - - err 12"
              -- spec, without the model: the call must reach exactly (Service-Name of target, method j)
              -- when the target is registered, and be UNIMPLEMENTED otherwise
              let want := Spec.Codegen.fullName t.pkg t.name
              let registered := reg.any (fun p => p.idx == t.idx)
              let dup := Router.hasDup (reg.map (fun p => Spec.Codegen.fullName p.pkg p.name))
              let v :=
                if dup then "ok" else
                if registered then
                  match obs with
                  | "hit" :: s :: m :: nr :: "ok" :: vals =>
                    verdict [("call-reaches-the-named-method", b s == want && b m == route),
                             ("request-stream-shape", nr == toString nreq),
                             ("response-values", String.intercalate " " ("ok" :: vals) == values t.idx j ckind (len * nreq))]
                  | _ => "fail:call-did-not-reach-the-named-method"
                else verdict [("unregistered-is-unimplemented", obs == ["hit", "-", "-", "-", "err", "12"])]
              (model, v)
          | _, _ => bad
        | _ => bad
      | _ => bad
  | _ => bad

/-- The files the property names (and the descriptor-set files the same run writes). -/
def committed : List String :=
  ["tonic-health/grpc_health_v1.rs", "tonic-health/grpc_health_v1_fds.rs",
   "tonic-reflection/grpc_reflection_v1.rs", "tonic-reflection/grpc_reflection_v1alpha.rs",
   "tonic-reflection/reflection_v1_fds.rs", "tonic-reflection/reflection_v1alpha1_fds.rs",
   "tonic-types/google_rpc.rs", "tonic-types/types_fds.rs"]

def handle (case obs : List String) : String × String :=
  match case with
  | ["regen"] =>
    let model := String.intercalate " " (s!"files {committed.length}" :: committed.map (· ++ "=same"))
    let v := match obs with
      | "files" :: _n :: fs =>
        verdict [("committed-generated-files-are-the-generator-output",
                   fs.all (fun f => f.endsWith "=same") && committed.all (fun c => fs.contains (c ++ "=same")))]
      | _ => "fail:regeneration-did-not-run"
    (model, v)
  | "e2e" :: rest => handleE2e rest obs
  | _ =>
    match parseJob case with
    | some j => (renderJob j, judge j obs)
    | none => bad

end DriverC11
