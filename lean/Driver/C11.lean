import Driver.Proto
import TonicModel.Model.Codegen
import TonicModel.Model.Router
import TonicModel.Spec.Codegen
import TonicModel.Spec.Router
/-
C11 driver.  Case lines (`-` = empty string; flags are 0/1; sides = both|client|server):
  gen <emit_package> <arc_self> <default_stubs> <transport> <sides> <wkt> <proto_path> <pkg> <name> <ident> <n> { <fn> <ident> <cs> <ss> <in> <out> }^n
      real `CodeGenBuilder::generate_client/_server` on a hand-made `tonic_build::Service`;
      <in>/<out> = F:<path> (the path as given) | E:<base> (the harness's `request_response_name`
      answers `<proto_path>::<base>`, with `Wkt` appended under compile_well_known_types)
  manual <transport> <sides> <pkg> <name> <n> { <fn> <route> <cs> <ss> <in> <out> }^n
      real `tonic_build::manual::Builder::compile`
  prost <emit_package> <arc_self> <default_stubs> <sides> <wkt> <proto_path> <extern> <pkg> <service> <n>
        { <method> <cs> <ss> <inKind> <inProto> <inRust> <inHere> <outKind> <outProto> <outRust> <outHere> }^n
      real `tonic_build::configure()…compile_fds` on a FileDescriptorSet built by the harness from
      the message kinds (local / nested / keyword-named / other package / well-known / extern);
      <..Proto> <..Rust> = prost-build's own `input_proto_type` / `input_type` for that message
      under these options (recorded by the harness with a bare prost-build run: the external
      library's answer, an input of the model); <..Here> = 1 iff the message is compiled into the
      generated tree (decided by the harness from kind and options, independently of both)
  e2e <api> <wrap> <n> { <idx> <emit> <pkg> <name> <k> { <route> <kind> }^k }^n target <idx> <emit> <pkg> <name> <k> { <route> <kind> }^k <j> <len>
      compiled generated client of pool service `target`, method j, against a router holding
      the compiled generated servers of the listed pool services (<emit> = emit_package)
  srv <idx> <emit> <pkg> <name> <k> { <route> <kind> }^k <path-hex>
      one request sent straight to the compiled generated server (no router in front)
  regen
      run the real `codegen` binary on a scratch copy and byte-compare with the committed files
  px <via> <knobs> <emit> <arc> <stubs> <sides> <wkt> <proto_path> <extern> <k>
     { <file> <pkg> <service> <n> { 11 tokens as in `prost` }^n }^k
      the prost front end on a descriptor SET (several services per file / files per package /
      packages), through the entry point <via>, with the builder knobs <knobs> (none of which the
      model reads: they must be invisible); observed `svcs <k>` + one `prost`-style block each
  gx <knobs> <gen tail>       `gen` with deprecated / commented methods, attributes, disable_comments
  gseq <k> { <ntok> <sc|cs> <gen tail> }^k
      ONE `CodeGenBuilder` value: before each generation only the setters whose value changes are
      called; model = `Codegen.BState.run` on that very sequence of calls
  mx <transport> <sides> <k> { <pkg> <name> <n> { 6 tokens as in `manual` }^n }^k
      `manual::Builder::compile` on several services
  cseq <ctor> <mode> <wrap> <n> { pool block }^n target <pool block> <ncalls> { <j> }^ncalls
      ONE compiled generated client of pool service `target`, made by <ctor>, used for the calls
      j… in turn / on clones / concurrently (<mode>) against a router holding the listed servers;
      call k carries k+1 payload bytes.  Observed per call: the path and the `GrpcMethod`
      extension a tap between client and router saw, and the answer:
      calls <ncalls> { <path> <gm service> <gm method> (ok <nvals> <vals…> | err <code>) }^ncalls seen <requests>
  cmt <which> <pkg> <service> <n> { <method> <cs> <ss> <inProto> <outProto> }^n
      the COMMITTED generated file of that crate against its own committed descriptor set
Observed / model line for gen|manual|prost:
  name <SERVICE_NAME> <NamedService::NAME>
  server <n> { <literal> <grpc call> <trait> <reqStream> <respStream> <req> <resp> <trait-fn req> <trait-fn resp> <fn> }^n
  client <n> { <fn> <path> <GrpcMethod svc> <GrpcMethod method> <grpc call> <reqStream> <respStream> <req> <resp> }^n
(an absent side is `server -` / `client -`, and then `name - -`).  What the generated `call`
matches on and what its `_` arm answers is not read off the text: `srv` / `e2e` cases (and C10)
decide it by running the compiled generated servers.
-/
namespace DriverC11
open Proto Codegen

def b (s : String) : Bytes := if s == "-" then [] else s.toUTF8.toList

def sh (x : Bytes) : String :=
  if x.isEmpty then "-" else
  match String.fromUTF8? (ByteArray.mk x.toArray) with
  | some s => s
  | none => hex x

def flag? (s : String) : Option Bool := if s == "1" then some true else if s == "0" then some false else none
def showFlag (x : Bool) : String := if x then "1" else "0"

def callTok : Call → String
  | .unary => "unary" | .serverStreaming => "server_streaming"
  | .clientStreaming => "client_streaming" | .streaming => "streaming"

def traitTok : SvcTrait → String
  | .unaryService => "UnaryService" | .serverStreamingService => "ServerStreamingService"
  | .clientStreamingService => "ClientStreamingService" | .streamingService => "StreamingService"

def callNum? (s : String) : Option Nat :=
  match s with
  | "unary" => some 0 | "server_streaming" => some 1 | "client_streaming" => some 2
  | "streaming" => some 3 | _ => none

def traitNum? (s : String) : Option Nat :=
  match s with
  | "UnaryService" => some 0 | "ServerStreamingService" => some 1
  | "ClientStreamingService" => some 2 | "StreamingService" => some 3 | _ => none

/-- `n` method blocks of `w` tokens each. -/
def blocks (w : Nat) : Nat → List String → Option (List (List String) × List String)
  | 0, rest => some ([], rest)
  | n + 1, rest =>
    if rest.length < w then none
    else match blocks w n (rest.drop w) with
      | some (bs, r) => some (rest.take w :: bs, r)
      | none => none

structure Job where
  svc : Service
  opts : Opts
  client : Bool
  server : Bool
  /-- Rust-side fn names are predictable (not the case for prost's identifier mangling) -/
  fnKnown : Bool
  /-- per method: the request / response type paths the definition calls for (spec side) -/
  want : List (Bytes × Bytes)
  /-- the case's premises hold (prost-build's answers are of the assumed shapes) -/
  premises : Bool := true

def colons : Bytes := [58, 58]

/-- `F:<path>` / `E:<base>`: the model's type source and, separately, the type the definition
calls for (for `E` that is the harness's own function of the *configured* options). -/
def typeTok (ppath : Bytes) (wkt : Bool) (t : String) : Option (TypeName × Bytes) :=
  let rest : String := String.ofList (t.toList.drop 2)
  if t.startsWith "F:" then some (.fixed (b rest), b rest)
  else if t.startsWith "E:" then
    some (.echo (b rest), ppath ++ colons ++ b rest ++ (if wkt then b "Wkt" else []))
  else none

def method6 (ppath : Bytes) (wkt : Bool) : List String → Option (Method × (Bytes × Bytes))
  | [fn, ident, cs, ss, i, o] =>
    match flag? cs, flag? ss, typeTok ppath wkt i, typeTok ppath wkt o with
    | some cs, some ss, some (ti, wi), some (to, wo) => some (⟨b fn, b ident, cs, ss, ti, to⟩, (wi, wo))
    | _, _, _, _ => none
  | _ => none

def sides? (s : String) : Option (Bool × Bool) :=
  match s with
  | "both" => some (true, true) | "client" => some (true, false) | "server" => some (false, true)
  | _ => none

/-- the premise `C11.ProstLaw`, as a Bool (spelled out here: the driver does not import Props) -/
def prostLaw (pt rt : Bytes) (wkt here : Bool) : Bool :=
  (((isGoogleType pt && !wkt) || Codegen.colons.isPrefixOf rt || nonPathTypeAllowlist.contains rt ||
    cratePrefix.isPrefixOf rt) == !here)

def parseJob : List String → Option Job
  | "gen" :: emit :: _arc :: _stubs :: _tr :: sides :: wkt :: ppath :: pkg :: name :: ident :: n :: rest => do
    let emit ← flag? emit
    let wkt ← flag? wkt
    let (c, s) ← sides? sides
    let n ← nat? n
    let (bl, r) ← blocks 6 n rest
    if !r.isEmpty then none
    let ms ← bl.mapM (method6 (b ppath) wkt)
    some ⟨⟨b name, b pkg, b ident, ms.map (·.1)⟩, ⟨emit, wkt, b ppath⟩, c, s, true, ms.map (·.2), true⟩
  | "manual" :: _tr :: sides :: pkg :: name :: n :: rest => do
    let (c, s) ← sides? sides
    let n ← nat? n
    let (bl, r) ← blocks 6 n rest
    if !r.isEmpty then none
    let ms ← bl.mapM (fun
      | [fn, ident, cs, ss, i, o] => do
        some ((⟨b fn, b ident, ← flag? cs, ← flag? ss, .fixed (b i), .fixed (b o)⟩ : Method), (b i, b o))
      | _ => none)
    -- manual::Service: identifier = name, emit_package(true), compile_well_known_types(false), proto_path ""
    some ⟨⟨b name, b pkg, b name, ms.map (·.1)⟩, ⟨true, false, []⟩, c, s, true, ms.map (·.2), true⟩
  | "prost" :: emit :: _arc :: _stubs :: sides :: wkt :: ppath :: _ext :: pkg :: svc :: n :: rest => do
    let emit ← flag? emit
    let wkt ← flag? wkt
    let (c, s) ← sides? sides
    let n ← nat? n
    let (bl, r) ← blocks 11 n rest
    if !r.isEmpty then none
    let ms ← bl.mapM (fun
      | [m, cs, ss, _ik, ip, ir, ih, _ok, op, or, oh] => do
        let cs ← flag? cs
        let ss ← flag? ss
        let ih ← flag? ih
        let oh ← flag? oh
        -- prost.rs request_response_name works from prost-build's (proto type, Rust type);
        -- the definition calls for: compiled here → below proto_path, else as prost names it
        some ((⟨[], b m, cs, ss, .prost (b ip) (b ir), .prost (b op) (b or)⟩ : Method),
              (Spec.Codegen.typePath (b ppath) ih (b ir), Spec.Codegen.typePath (b ppath) oh (b or)),
              prostLaw (b ip) (b ir) wkt ih && prostLaw (b op) (b or) wkt oh)
      | _ => none)
    some ⟨⟨[], b pkg, b svc, ms.map (·.1)⟩, ⟨emit, wkt, b ppath⟩, c, s, false,
          ms.map (·.2.1), ms.all (·.2.2)⟩
  | _ => none

/-- one `name … server … client …` block -/
def renderOut (fnKnown : Bool) (name : Option Bytes) (arms : Option (List ServerArm))
    (calls : Option (List ClientCall)) : String :=
  let fnTok (x : Bytes) : String := if fnKnown then sh x else "="
  let head :=
    match arms, name with
    | some _, some n => s!"name {sh n} {sh n}"
    | _, _ => "name - -"
  let server :=
    match arms with
    | some arms =>
      String.intercalate " " (s!"server {arms.length}" :: arms.map (fun (a : ServerArm) =>
        s!"{sh a.literal} {callTok a.call} {traitTok a.svcTrait} {showFlag a.reqStream} {showFlag a.respStream} {sh a.req} {sh a.resp} {sh a.traitReq} {sh a.traitResp} {fnTok a.fn}"))
    | none => "server -"
  let client :=
    match calls with
    | some cs =>
      String.intercalate " " (s!"client {cs.length}" :: cs.map (fun (c : ClientCall) =>
        s!"{fnTok c.fn} {sh c.path} {sh c.gmService} {sh c.gmMethod} {callTok c.call} {showFlag c.reqStream} {showFlag c.respStream} {sh c.req} {sh c.resp}"))
    | none => "client -"
  s!"{head} {server} {client}"

/-- the requested sides of what was generated for the job's service -/
def renderGenerated (j : Job) (g : Output) : String :=
  renderOut j.fnKnown (some g.serviceName) (if j.server then some g.arms else none)
    (if j.client then some g.calls else none)

def renderJob (j : Job) : String := renderGenerated j (generate j.svc j.opts)

/- ---- parsing the observed line into the spec's vocabulary ---- -/

def serverObs? : List String → Option Spec.Codegen.ServerObs
  | [lit, call, tr, rq, rs, req, resp, treq, tresp, _fn] => do
    some ⟨b lit, ← callNum? call, ← traitNum? tr, ← flag? rq, ← flag? rs, b req, b resp, b treq, b tresp⟩
  | _ => none

def clientObs? : List String → Option Spec.Codegen.ClientObs
  | [_fn, path, gs, gm, call, rq, rs, req, resp] => do
    some ⟨b path, b gs, b gm, ← callNum? call, ← flag? rq, ← flag? rs, b req, b resp⟩
  | _ => none

structure Seen where
  serviceName : Option Bytes
  namedName : Option Bytes
  server : Option (List Spec.Codegen.ServerObs)
  serverFns : List String
  client : Option (List Spec.Codegen.ClientObs)
  clientFns : List String

def parseSide (w : Nat) : List String → Option (Option (List (List String)) × List String)
  | "-" :: rest => some (none, rest)
  | n :: rest => do
    let n ← nat? n
    let (bl, r) ← blocks w n rest
    some (some bl, r)
  | [] => none

def parseSeenRest : List String → Option (Seen × List String)
  | "name" :: sn :: nn :: "server" :: rest => do
    let (sb, rest) ← parseSide 10 rest
    match rest with
    | "client" :: rest =>
      let (cb, rest) ← parseSide 9 rest
      let server ← match sb with
        | some bl => (bl.mapM serverObs?).map some
        | none => some none
      let client ← match cb with
        | some bl => (bl.mapM clientObs?).map some
        | none => some none
      let opt (s : String) : Option Bytes := if s == "-" then none else some (b s)
      some (⟨opt sn, opt nn, server, (sb.getD []).map (fun l => l.getLast!),
            client, (cb.getD []).map (fun l => l.head!)⟩, rest)
    | _ => none
  | _ => none

def parseSeen (obs : List String) : Option Seen :=
  match parseSeenRest obs with
  | some (o, []) => some o
  | _ => none

/-- `k` blocks, one after the other -/
def parseSeens : Nat → List String → Option (List Seen × List String)
  | 0, rest => some ([], rest)
  | k + 1, rest => do
    let (o, rest) ← parseSeenRest rest
    let (os, rest) ← parseSeens k rest
    some (o :: os, rest)

/-- the service definition in the spec's vocabulary; the message types are those the definition
calls for (`want`), not what the model computes -/
def specDef (j : Job) : Spec.Codegen.ServiceDef :=
  ⟨j.svc.package, j.svc.ident, (j.svc.methods.zip j.want).map (fun (m, w) =>
    ⟨m.ident, m.clientStreaming, m.serverStreaming, w.1, w.2⟩)⟩

def clauses (j : Job) (o : Seen) : List (String × Bool) :=
    let d := specDef j
    let pkgShown := if j.opts.emitPackage then j.svc.package else []
    let svc := Spec.Codegen.fullName pkgShown d.ident
    [
      ("prost-build-output-as-assumed", j.premises),
      ("requested-sides-generated", o.client.isSome == j.client && o.server.isSome == j.server),
      ("service-name-is-path-prefix", !j.server || (o.serviceName == some svc && o.namedName == some svc)),
      ("client-sends-to-/package.Service/Method-with-declared-shape-and-types",
        match o.client with | some cs => Spec.Codegen.all₂ (Spec.Codegen.clientOk svc) d.methods cs | none => true),
      ("server-dispatches-on-/package.Service/Method-with-declared-shape-and-types",
        match o.server with | some ss => Spec.Codegen.all₂ (Spec.Codegen.serverOk svc) d.methods ss | none => true),
      ("client-and-server-agree",
        match o.client, o.server with
        | some cs, some ss => Spec.Codegen.sidesAgree cs ss && o.clientFns == o.serverFns
        | _, _ => true),
      ("conforms", Spec.Codegen.conforms pkgShown d (if j.server then o.serviceName else none) o.client o.server)]

def judge (j : Job) (obs : List String) : String :=
  match parseSeen obs with
  | none => "fail:generator-output-not-understood"
  | some o => verdict (clauses j o)

/-- several services in one case: every service is judged on its own definition and the options
of the case (of its step); the verdict names every clause some service fails -/
def judgeAll (js : List Job) (obs : List String) : String :=
  match obs with
  | "svcs" :: k :: rest =>
    if nat? k != some js.length then "fail:generator-output-not-understood" else
    match parseSeens js.length rest with
    | some (os, []) => verdict ((js.zip os).flatMap (fun (j, o) => clauses j o))
    | _ => "fail:generator-output-not-understood"
  | _ => "fail:generator-output-not-understood"

def renderAll (blocks : List String) : String :=
  String.intercalate " " (s!"svcs {blocks.length}" :: blocks)

/- ---- the dimension audit's case kinds ---- -/

def knobNames : List String :=
  ["dep0", "dep1", "comm", "nocomm", "attrs", "codec", "notr", "tattr", "incl", "fdsp"]

def knobsOk (allowed : List String) (s : String) : Bool :=
  s == "-" || (s.splitOn ",").all (fun k => allowed.contains k)

/-- `k` blocks `<hdr tokens> <n> { w tokens }^n` → per block (hdr, n :: method tokens) -/
def svcBlocks (hdr w : Nat) : Nat → List String → Option (List (List String × List String) × List String)
  | 0, rest => some ([], rest)
  | k + 1, rest => do
    if rest.length < hdr + 1 then none
    let h := rest.take hdr
    let n ← nat? (rest.getD hdr "")
    let body := rest.drop (hdr + 1)
    if body.length < n * w then none
    let (bs, r) ← svcBlocks hdr w k (body.drop (n * w))
    some ((h, toString n :: body.take (n * w)) :: bs, r)

def vias : List String := ["fds", "fdscfg", "sgen", "skip", "protos", "protoscfg", "free", "freep"]

/-- `px`: the set's services, each as the `prost` job it would be alone.  `<via>` and `<knobs>`
are not handed on: the model has no place for them. -/
def parsePx : List String → Option (List Job)
  | via :: knobs :: emit :: arc :: stubs :: sides :: wkt :: ppath :: ext :: k :: rest => do
    if !vias.contains via || !knobsOk knobNames knobs then none
    let k ← nat? k
    if k == 0 then none
    let (bl, r) ← svcBlocks 3 11 k rest
    if !r.isEmpty then none
    bl.mapM (fun (h, body) =>
      match h with
      | [_file, pkg, svc] => parseJob ("prost" :: emit :: arc :: stubs :: sides :: wkt :: ppath :: ext :: pkg :: svc :: body)
      | _ => none)
  | _ => none

def handlePx (rest obs : List String) : String × String :=
  match parsePx rest with
  | none => bad
  | some js =>
    match js with
    | [] => bad
    | j0 :: _ =>
      -- one front-end builder, hence one option set, for the whole descriptor set
      let outs := generateSet (js.map (·.svc)) j0.opts
      (renderAll ((js.zip outs).map (fun (j, g) => renderGenerated j g)), judgeAll js obs)

def handleMx (rest obs : List String) : String × String :=
  match rest with
  | tr :: sides :: k :: rest =>
    match nat? k with
    | none => bad
    | some k =>
      match svcBlocks 2 6 k rest with
      | some (bl, []) =>
        match bl.mapM (fun (h, body) =>
            match h with
            | [pkg, name] => parseJob ("manual" :: tr :: sides :: pkg :: name :: body)
            | _ => none) with
        | none => bad
        | some js =>
          let o : Opts := ⟨true, false, []⟩
          let outs := generateSet (js.map (·.svc)) o
          (renderAll ((js.zip outs).map (fun (j, g) => renderGenerated j g)), judgeAll js obs)
      | _ => bad
  | _ => bad

def handleGx (rest obs : List String) : String × String :=
  match rest with
  | knobs :: tail =>
    if !knobsOk (knobNames.take 6) knobs then bad else
    match parseJob ("gen" :: tail) with
    | some j => (renderJob j, judge j obs)
    | none => bad
  | _ => bad

/-- `gseq` steps: (order, job) -/
def gseqSteps : Nat → List String → Option (List (String × Job) × List String)
  | 0, rest => some ([], rest)
  | k + 1, n :: order :: rest => do
    let n ← nat? n
    if rest.length < n || !(order == "sc" || order == "cs") then none
    let j ← parseJob ("gen" :: rest.take n)
    let (ss, r) ← gseqSteps k (rest.drop n)
    some ((order, j) :: ss, r)
  | _, _ => none

/-- the calls the harness makes on its one builder for a step: the setters whose value changes,
then the generations in the step's order -/
def stepOps (st : BState) (order : String) (j : Job) : List BOp :=
  (if j.opts.emitPackage != st.emitPackage then [BOp.emitPackage j.opts.emitPackage] else []) ++
  (if j.opts.compileWkt != st.compileWkt then [BOp.compileWkt j.opts.compileWkt] else []) ++
  [BOp.other] ++
  (let s := if j.server then [BOp.genServer j.svc j.opts.protoPath] else []
   let c := if j.client then [BOp.genClient j.svc j.opts.protoPath] else []
   if order == "sc" then s ++ c else c ++ s)

def runSteps (st : BState) : List (String × Job) → List String
  | [] => []
  | (order, j) :: rest =>
    let ops := stepOps st order j
    let outs := st.run ops
    let server := outs.findSome? (fun | .server n a => some (n, a) | _ => none)
    let client := outs.findSome? (fun | .client c => some c | _ => none)
    renderOut j.fnKnown (server.map (·.1)) (server.map (·.2)) client :: runSteps (st.after ops) rest

def handleGseq (rest obs : List String) : String × String :=
  match rest with
  | k :: rest =>
    match nat? k with
    | none => bad
    | some k =>
      match gseqSteps k rest with
      | some (steps, []) => (renderAll (runSteps {} steps), judgeAll (steps.map (·.2)) obs)
      | _ => bad
  | _ => bad

/-- `cmt`: the committed file was made by `tonic_build::configure()` as `codegen` calls it
(package emitted, well-known types not compiled, `proto_path` = `super`, both sides).  Every
message of the three committed services is a top-level message of the service's own package with
a canonical name, which prost names by that name (checked: else the premise clause fails). -/
def handleCmt (rest obs : List String) : String × String :=
  match rest with
  | _which :: pkg :: svc :: n :: rest =>
    match nat? n with
    | none => bad
    | some n =>
      match blocks 5 n rest with
      | some (bl, []) =>
        let pre := [46] ++ b pkg ++ [46]
        let ms := bl.mapM (fun
          | [m, cs, ss, ip, op] => do
            let cs ← flag? cs
            let ss ← flag? ss
            let ir := (b ip).drop pre.length
            let or := (b op).drop pre.length
            let okShape := pre.isPrefixOf (b ip) && pre.isPrefixOf (b op) && !ir.contains 46 && !or.contains 46
            some ((⟨[], b m, cs, ss, .prost (b ip) ir, .prost (b op) or⟩ : Method),
                  (Spec.Codegen.typePath superPath true ir, Spec.Codegen.typePath superPath true or), okShape)
          | _ => none)
        match ms with
        | none => bad
        | some ms =>
          let j : Job := ⟨⟨[], b pkg, b svc, ms.map (·.1)⟩, ⟨true, false, superPath⟩, true, true, false,
            ms.map (·.2.1), ms.all (·.2.2)⟩
          (renderJob j, judge j obs)
      | _ => bad
  | _ => bad

/- ---- end-to-end through compiled generated code ---- -/

structure PoolSvc where
  idx : Nat
  /-- generated with `emit_package(true)` -/
  emit : Bool
  pkg : Bytes
  name : Bytes
  methods : List (Bytes × Nat)   -- route, kind

def poolSvc? : List String → Option (PoolSvc × List String)
  | idx :: emit :: pkg :: name :: k :: rest => do
    let idx ← nat? idx
    let emit ← flag? emit
    let k ← nat? k
    let (bl, r) ← blocks 2 k rest
    let ms ← bl.mapM (fun | [r, kd] => (nat? kd).map (fun kd => (b r, kd)) | _ => none)
    some (⟨idx, emit, b pkg, b name, ms⟩, r)
  | _ => none

def poolSvcs : Nat → List String → Option (List PoolSvc × List String)
  | 0, rest => some ([], rest)
  | n + 1, rest => do
    let (s, r) ← poolSvc? rest
    let (ss, r) ← poolSvcs n r
    some (s :: ss, r)

def PoolSvc.desc (p : PoolSvc) : Service :=
  ⟨p.name, p.pkg, p.name, p.methods.map (fun (r, kd) => ⟨[], r, kd == 2 || kd == 3, kd == 1 || kd == 3, .fixed [], .fixed []⟩)⟩

def PoolSvc.opts (p : PoolSvc) : Opts := { emitPackage := p.emit }

/-- gRPC Service-Name the definition calls for (spec side) -/
def PoolSvc.want (p : PoolSvc) : Bytes := Spec.Codegen.fullName (if p.emit then p.pkg else []) p.name

def values (idx j kind payload : Nat) : String :=
  let code := idx * 10000 + j * 100 + min payload 99
  if kind == 1 || kind == 3 then s!"ok {code} {code + 1000000}" else s!"ok {code}"

def findIdx {α} (p : α → Bool) : List α → Nat → Option (Nat × α)
  | [], _ => none
  | x :: xs, i => if p x then some (i, x) else findIdx p xs (i + 1)

def handleE2e (rest obs : List String) : String × String :=
  match rest with
  | _api :: _wrap :: n :: rest =>
    match nat? n with
    | none => bad
    | some n =>
      match poolSvcs n rest with
      | some (reg, "target" :: rest) =>
        match poolSvc? rest with
        | some (t, [j, len]) =>
          match nat? j, nat? len with
          | some j, some len =>
            match t.methods[j]? with
            | none => bad
            | some (route, ckind) =>
              -- the generated client's path for method j …
              let path := (clientCalls t.desc t.opts).map (·.path) |>.getD j []
              -- … routed among the generated servers (C10's router, fed with NAME + arm idents)
              let rreg : List Router.Svc := reg.map (fun p => ⟨serviceNameConst p.desc p.opts, p.desc.methods.map (·.ident)⟩)
              let nreq := if ckind == 2 || ckind == 3 then 2 else 1
              let model :=
                match Router.dispatch rreg path with
                | .handler s m =>
                  match reg.find? (fun p => serviceNameConst p.desc p.opts == s) with
                  | some p =>
                    match findIdx (fun rm => rm.1 == m) p.methods 0 with
                    | some (mj, (_, skind)) => s!"hit {sh s} {sh m} {nreq} {values p.idx mj skind (len * nreq)}"
                    | none => "model-error"
                  | none => "model-error"
                | .panic => "panic"
                | _ => "hit - - - err 12"
              -- spec, without the model: the call must reach exactly (Service-Name of target, method j)
              -- when the target is registered, and be UNIMPLEMENTED otherwise
              let want := t.want
              let registered := reg.any (fun p => p.idx == t.idx)
              let dup := Router.hasDup (reg.map PoolSvc.want)
              let v :=
                if dup then "ok" else
                if registered then
                  match obs with
                  | "hit" :: s :: m :: nr :: "ok" :: vals =>
                    verdict [("call-reaches-the-named-method", b s == want && b m == route),
                             ("request-stream-shape", nr == toString nreq),
                             ("response-values", String.intercalate " " ("ok" :: vals) == values t.idx j ckind (len * nreq))]
                  | _ => "fail:call-did-not-reach-the-named-method"
                else verdict [("unregistered-is-unimplemented", obs == ["hit", "-", "-", "-", "err", "12"])]
              (model, v)
          | _, _ => bad
        | _ => bad
      | _ => bad
  | _ => bad

/-- `srv`: one request straight into a compiled generated server.  Model: C10's `Svc.call` on
(NAME, arm identifiers) as the generator model gives them.  Spec: C10's predicate on the single
declared service — the exact `/Service-Name/method` path runs that method (status 0), every
other path is answered UNIMPLEMENTED by the generated code itself with no handler run. -/
def handleSrv (rest obs : List String) : String × String :=
  match poolSvc? rest with
  | some (t, [p]) =>
    match unhex p with
    | none => bad
    | some path =>
      let svc : Router.Svc := ⟨serviceNameConst t.desc t.opts, (serverArms t.desc t.opts).map
        (fun a => a.literal.drop ((serviceNameConst t.desc t.opts).length + 2))⟩
      let model := match svc.call path with
        | .handler s m => s!"hit {sh s} {sh m} status 0 http 200 ct application/grpc"
        | _ => "hit - - status 12 http 200 ct application/grpc"
      let decl : Spec.Router.Decl := [(t.want, t.methods.map (·.1))]
      let v := match obs with
        | ["hit", s, m, "status", st, "http", code, "ct", ct] =>
          match optNat? st, nat? code with
          | some st, some code =>
            let o : Spec.Router.Obs := ⟨if s == "-" then none else some (b s, b m), st, code, ct == "application/grpc"⟩
            verdict [("generated-server-runs-a-method-iff-exact-path", Spec.Router.handlerOk decl path o),
                     ("generated-server-answers-unimplemented-otherwise", Spec.Router.answerOk decl path 0 o)]
          | _, _ => "fail:no-response-observed"
        | _ => "fail:no-response-observed"
      (model, v)
  | _ => bad

def ctors : List String := ["new", "origin", "origin-slash", "icept", "conf", "cloned"]
def modes : List String := ["same", "clones", "clone-used", "conc"]

/-- `ok <n> <vals…>` from `values`' `ok <vals…>` -/
def countedValues (idx j kind payload : Nat) : String :=
  let vs := ((values idx j kind payload).splitOn " ").drop 1
  String.intercalate " " ("ok" :: toString vs.length :: vs)

/-- one observed call: (path, gm service, gm method, answer tokens joined) -/
def obsCalls : Nat → List String → Option (List (String × String × String × String) × List String)
  | 0, rest => some ([], rest)
  | k + 1, p :: gs :: gm :: "ok" :: n :: rest => do
    let n ← nat? n
    if rest.length < n then none
    let (cs, r) ← obsCalls k (rest.drop n)
    some ((p, gs, gm, String.intercalate " " ("ok" :: toString n :: rest.take n)) :: cs, r)
  | k + 1, p :: gs :: gm :: "err" :: code :: rest => do
    let (cs, r) ← obsCalls k rest
    some ((p, gs, gm, s!"err {code}") :: cs, r)
  | _, _ => none

/-- `cseq`: the constructor and the way the one client value is used (<ctor>, <mode>) are not
handed to the model: every call is predicted as the `e2e` call it would be alone. -/
def handleCseq (rest obs : List String) : String × String :=
  match rest with
  | ctor :: mode :: _wrap :: n :: rest =>
    if !ctors.contains ctor || !modes.contains mode then bad else
    match nat? n with
    | none => bad
    | some n =>
      match poolSvcs n rest with
      | some (reg, "target" :: rest) =>
        match poolSvc? rest with
        | some (t, nc :: js) =>
          match nat? nc, js.mapM nat? with
          | some nc, some js =>
            if js.length != nc || nc == 0 || nc > 40 || js.any (fun j => j ≥ t.methods.length) then bad else
            let cc := clientCalls t.desc t.opts
            let rreg : List Router.Svc := reg.map (fun p => ⟨serviceNameConst p.desc p.opts, p.desc.methods.map (·.ident)⟩)
            let nreqOf (kind : Nat) : Nat := if kind == 2 || kind == 3 then 2 else 1
            let modelCall (k j : Nat) : String :=
              match cc[j]?, t.methods[j]? with
              | some c, some (_, ckind) =>
                let ans :=
                  match Router.dispatch rreg c.path with
                  | .handler s m =>
                    match reg.find? (fun (p : PoolSvc) => serviceNameConst p.desc p.opts == s) with
                    | some p =>
                      match findIdx (fun (rm : Bytes × Nat) => rm.1 == m) p.methods 0 with
                      | some (mj, (_, skind)) => countedValues p.idx mj skind ((k + 1) * nreqOf ckind)
                      | none => "model-error"
                    | none => "model-error"
                  | .panic => "panic"
                  | _ => "err 12"
                s!"{sh c.path} {sh c.gmService} {sh c.gmMethod} {ans}"
              | _, _ => "model-error"
            let idxs := List.range nc
            let model := String.intercalate " "
              (s!"calls {nc}" :: (idxs.zip js).map (fun (k, j) => modelCall k j)) ++ s!" seen {nc}"
            -- spec, without the model
            let want := t.want
            let registered := reg.any (fun p => p.idx == t.idx)
            let dup := Router.hasDup (reg.map PoolSvc.want)
            let v :=
              match obs with
              | "calls" :: k :: rest =>
                match obsCalls nc rest with
                | some (cs, ["seen", seen]) =>
                  if nat? k != some nc then "fail:no-response-observed" else
                  verdict (("one-request-per-call", nat? seen == some nc) ::
                    ((idxs.zip js).zip cs).flatMap (fun ((k, j), (p, gs, gm, ans)) =>
                      match t.methods[j]? with
                      | some (route, ckind) =>
                        [("client-sends-to-the-declared-path", b p == Spec.Codegen.methodPath want route),
                         ("grpc-method-extension-names-the-call", b gs == want && b gm == route),
                         ("call-reaches-the-named-method-whatever-the-clients-history",
                           dup || ans == (if registered then countedValues t.idx j ckind ((k + 1) * nreqOf ckind) else "err 12"))]
                      | none => [("bad-case", false)]))
                | _ => "fail:no-response-observed"
              | _ => "fail:no-response-observed"
            (model, v)
          | _, _ => bad
        | _ => bad
      | _ => bad
  | _ => bad

/-- The files the property names (and the descriptor-set files the same run writes). -/
def committed : List String :=
  ["tonic-health/grpc_health_v1.rs", "tonic-health/grpc_health_v1_fds.rs",
   "tonic-reflection/grpc_reflection_v1.rs", "tonic-reflection/grpc_reflection_v1alpha.rs",
   "tonic-reflection/reflection_v1_fds.rs", "tonic-reflection/reflection_v1alpha1_fds.rs",
   "tonic-types/google_rpc.rs", "tonic-types/types_fds.rs"]

def handle (case obs : List String) : String × String :=
  match case with
  | ["regen"] =>
    let model := String.intercalate " " (s!"files {committed.length}" :: committed.map (· ++ "=same"))
    let v := match obs with
      | "files" :: _n :: fs =>
        verdict [("committed-generated-files-are-the-generator-output",
                   fs.all (fun f => f.endsWith "=same") && committed.all (fun c => fs.contains (c ++ "=same")))]
      | _ => "fail:regeneration-did-not-run"
    (model, v)
  | "e2e" :: rest => handleE2e rest obs
  | "srv" :: rest => handleSrv rest obs
  | "px" :: rest => handlePx rest obs
  | "mx" :: rest => handleMx rest obs
  | ["gcod", _pkg, _svc, kinds] =>
    -- every method names its own codec (`Method::codec_path`); both generated sides construct, for method j, codec j
    -- (seed C11i).  Tie only: the codec path is not part of `Model/Codegen`; the expected line is the demand itself.
    let n := kinds.length
    let idx := String.intercalate "," ((List.range n).map toString)
    let expected := ["server:" ++ idx, "client:" ++ idx]
    (String.intercalate " " expected,
     verdict [("client-and-server-use-the-methods-codec", obs == expected)])
  | "gx" :: rest => handleGx rest obs
  | "gseq" :: rest => handleGseq rest obs
  | "cmt" :: rest => handleCmt rest obs
  | "cseq" :: rest => handleCseq rest obs
  | _ =>
    match parseJob case with
    | some j => (renderJob j, judge j obs)
    | none => bad

end DriverC11
