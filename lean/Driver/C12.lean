import Driver.Proto
namespace DriverC12
/-- stub: property not yet claimed -/
def handle (_case _obs : List String) : String × String := ("unclaimed", "fail:unclaimed")
end DriverC12
