import Driver.Proto
import TonicModel.Basic.HMapLite
import TonicModel.Model.Interceptor
import TonicModel.Spec.Interceptor
/-
C12 driver: parses a case (see harness/src/c12.rs for the grammar), runs the model
(`Interceptor.runCalls` with the scripted interceptor and a scripted wrapped service), renders
the canonical tokens, and evaluates `Spec.Interceptor` on what the implementation was observed
to do.
-/
namespace DriverC12
open Proto HMapLite HttpLite Interceptor

/-! ### token parser -/

abbrev P := StateT (List String) Option

def next : P String := fun ts => match ts with
  | [] => none
  | t :: r => some (t, r)

def pnat : P Nat := do
  let t ← next
  match t.toNat? with
  | some n => pure n
  | none => failure

def pbytes : P Bytes := do
  let t ← next
  match unhex t with
  | some b => pure b
  | none => failure

def pflag : P Bool := do
  let t ← next
  if t == "0" then pure false else if t == "1" then pure true else failure

def rep {α} (p : P α) : Nat → P (List α)
  | 0 => pure []
  | n + 1 => do
    let x ← p
    let xs ← rep p n
    pure (x :: xs)

/-- `count (name value sens)*`, names normalised as `HeaderName::from_bytes` does; entries in
`append` order -/
def phdrs : P Hdrs := do
  let n ← pnat
  rep (do
    let name ← pbytes
    let v ← pbytes
    let s ← pflag
    pure (normName name, (v, s))) n

/-- `count (id value)*`, inserted in order -/
def pext : P Ext := do
  let n ← pnat
  let xs ← rep (do
    let id ← pnat
    let v ← pbytes
    pure (id, v)) n
  pure (xs.foldl (fun acc e => Ext.set e.1 e.2 acc) [])

def pbody : P Body := do
  let n ← pnat
  let chunks ← rep pbytes n
  let t ← next
  if t == "notr" then pure { chunks := chunks, trailers := none }
  else if t == "tr" then do
    let h ← phdrs
    pure { chunks := chunks, trailers := some h }
  else failure

def pop : P Op := do
  let t ← next
  match t with
  | "hins" => do let n ← pbytes; let v ← pbytes; let s ← pflag; pure (.hins n (v, s))
  | "happ" => do let n ← pbytes; let v ← pbytes; let s ← pflag; pure (.happ n (v, s))
  | "hrem" => do let n ← pbytes; pure (.hrem n)
  | "mins" => do let n ← pbytes; let v ← pbytes; pure (.mins n v)
  | "mapp" => do let n ← pbytes; let v ← pbytes; pure (.mapp n v)
  | "mrem" => do let n ← pbytes; pure (.mrem n)
  | "bins" => do let n ← pbytes; let v ← pbytes; pure (.bins n v)
  | "bapp" => do let n ← pbytes; let v ← pbytes; pure (.bapp n v)
  | "brem" => do let n ← pbytes; pure (.brem n)
  | "clear" => pure .clear
  | "cnt" => do let n ← pbytes; pure (.cnt n)
  | "xset" => do let id ← pnat; let v ← pbytes; pure (.xset id v)
  | "xrm" => do let id ← pnat; pure (.xrm id)
  | "xclear" => pure .xclear
  | _ => failure

def pscript : P Script := do
  let n ← pnat
  let ops ← rep pop n
  let t ← next
  if t == "ok" then pure { ops := ops, reject := none }
  else if t == "rej" then do
    let _ctor ← pnat
    let code ← pnat
    let msg ← pbytes
    let details ← pbytes
    let _src ← pflag
    let md ← phdrs
    pure { ops := ops, reject := some { code := codeFromI32 code, message := msg, details := details, metadata := md } }
  else failure

/-- the wrapped service's response body: scripted frames plus the hint mode (`!h<m>`, async kind) that says how
its `size_hint` / `is_end_stream` answer -/
abbrev RB := Body × Nat

/-- the wrapped service's scripted answer -/
abbrev RespScript := Except Nat (Response RB)

def presp (hint : Nat) : P RespScript := do
  let t ← next
  if t == "e" then do
    let n ← pnat
    pure (.error n)
  else if t == "r" then do
    let status ← pnat
    let version ← pnat
    let h ← phdrs
    let x ← pext
    let b ← pbody
    pure (.ok { status := status, version := version, headers := h, ext := x, body := (b, hint) })
  else failure

/-- The body type the model is instantiated with: the request body proper plus the scripted
answer travelling with it (the model cannot look inside `β`). -/
abbrev B := Body × RespScript

/-- optional markers before a call: `!p` pending, `!e<n>` error n (readiness of the wrapped service); async kind:
`!h<m>` hint mode of the wrapped service's response body, `!d<k>` / `!w<k>` (the wrapped future / body stays
`Pending` k times) and `!l` (future polled after all calls were made) — the last three are parsed and IGNORED:
the prediction does not depend on them (`C12_future_resolves_to_call`, `C12_poll_order_invisible`). -/
def pmarks : Nat → Poll Nat → Nat → P (Poll Nat × Nat)
  | 0, rd, hint => pure (rd, hint)
  | fuel + 1, rd, hint => do
  let ts ← get
  match ts with
  | t :: _ =>
    if t == "!p" then do let _ ← next; pmarks fuel .pending hint
    else if t == "!l" then do let _ ← next; pmarks fuel rd hint
    else if t.startsWith "!e" then do
      let _ ← next
      match (t.drop 2).toNat? with
      | some n => pmarks fuel (.err n) hint
      | none => failure
    else if t.startsWith "!d" || t.startsWith "!w" then do
      let _ ← next
      match (t.drop 2).toNat? with
      | some _ => pmarks fuel rd hint
      | none => failure
    else if t.startsWith "!h" then do
      let _ ← next
      match (t.drop 2).toNat? with
      | some n => if n ≤ 4 then pmarks fuel rd n else failure
      | none => failure
    else pure (rd, hint)
  | [] => pure (rd, hint)

def pcall (hint : Nat) : P (Request B) := do
  let method ← pbytes
  let version ← pnat
  let uri ← pbytes
  let h ← phdrs
  let x ← pext
  let b ← pbody
  let r ← presp hint
  pure { method := method, version := version, uri := uri, headers := h, ext := x, body := (b, r) }

structure Case where
  scripts : List Script
  calls : List (Request B)
  /-- the wrapped service's readiness before each call -/
  readiness : List (Poll Nat)

def pcase : P Case := do
  let _kind ← next
  let _via ← next
  let ns ← pnat
  let scripts ← rep pscript ns
  let nc ← pnat
  let calls ← rep (do
    let (r, hint) ← pmarks 8 .ready 0
    let c ← pcall hint
    pure (r, c)) nc
  pure { scripts := scripts, calls := calls.map (·.2), readiness := calls.map (·.1) }

def parseCase (ts : List String) : Option Case :=
  match pcase ts with
  | some (c, []) => some c
  | _ => none

/-! ### rendering -/

def flagTok (b : Bool) : String := if b then "1" else "0"

def showHdrs (h : Hdrs) : String :=
  String.intercalate " " (toString h.length :: (canon h).map (fun e => s!"{hex e.1} {hex e.2.1} {flagTok e.2.2}"))

def showExt (x : Ext) : String :=
  String.intercalate " " (toString x.length :: toString x.length ::
    (Ext.canon x).map (fun e => s!"{e.1} {hex e.2}"))

def showBody (b : Body) : String :=
  String.intercalate " " ([toString b.chunks.length] ++ b.chunks.map hex ++
    [match b.trailers with
     | none => "notr"
     | some h => "tr " ++ showHdrs h])

def showStatus (st : GStatus) : String :=
  s!"{st.code} {hex st.message} {hex st.details} {showHdrs st.metadata}"

def bodyEos (b : Body) : Bool := b.chunks.isEmpty && b.trailers.isNone
def bodySize (b : Body) : Nat := (b.chunks.map List.length).foldl (· + ·) 0

/-- the wrapped body's own hints, by hint mode (harness/src/c12_x.rs `HintBody`): 0 exact and truthful; 1 lower bound
only; 2 nothing known, never "end"; 3 upper bound only; 4 exact, never "end" -/
def innerEos (b : RB) : Bool := if b.2 == 2 || b.2 == 4 then false else bodyEos b.1
def innerHint (b : RB) : Nat × Option Nat :=
  let sz := bodySize b.1
  if b.2 == 1 then (sz, none) else if b.2 == 2 then (0, none) else if b.2 == 3 then (0, some (sz + 7))
  else (sz, some sz)

def optTok : Option Nat → String
  | none => "none"
  | some n => toString n

def showOutcome : Outcome RB Nat → Option String
  | .panic => none
  | .error n => some s!"outerr {n}"
  | .response r =>
    let eos := RespBody.isEndStream innerEos r.body
    let sz := RespBody.sizeHintRange innerHint r.body
    some s!"out {r.status} {r.version} {showHdrs r.headers} {showExt r.ext} {flagTok eos} {sz.1} {optTok sz.2} {showBody (RespBody.frames (·.1) r.body)}"

def showSaw : Option (Request B) → String
  | none => "noinner"
  | some r => s!"inner {hex r.method} {r.version} {hex r.uri} {showHdrs r.headers} {showExt r.ext} {showBody r.body.1}"

/-- the scripted wrapped service: counts invocations, answers with the script carried in the body -/
def recorder : Inner Nat B RB Nat := fun n r => (n + 1, r.body.2)

def callLine (l : (Hdrs × Ext) × Except GStatus (Hdrs × Ext)) (saw : Option (Request B))
    (out : Outcome RB Nat) : Option String :=
  let isaw := s!"isaw {showHdrs l.1.1} {showExt l.1.2}"
  let dec := match l.2 with
    | .ok (md, x) => s!"iret {showHdrs md} {showExt x}"
    | .error st => s!"irej {showStatus st}"
  match showOutcome out with
  | none => none
  | some o => some s!"{isaw} {dec} {showSaw saw} {o}"

/-- sequences with back-pressure: a call is made only when `pollReady` says ready -/
def runWithReadiness (scripts : List Script) :
    (Nat × List ((Hdrs × Ext) × Except GStatus (Hdrs × Ext))) → Nat → List (Poll Nat × Request B) →
    List (Option String) → List (Option String) × Nat
  | _, n, [], acc => (acc, n)
  | s, n, (rd, r) :: rest, acc =>
    match pollReady (fun (_ : Nat) => rd) n with
    | .pending => runWithReadiness scripts s n rest (acc ++ [some "notready pending"])
    | .err e => runWithReadiness scripts s n rest (acc ++ [some s!"notready err {e}"])
    | .ready =>
      let c := call (logged (scripted scripts)) recorder s n r
      let line := match c.icpt.2.getLast? with
        | some l => callLine l c.innerSaw c.out
        | none => none
      runWithReadiness scripts c.icpt c.inner rest (acc ++ [line])

def runModel (c : Case) : String :=
  if c.readiness.any (fun r => r != Poll.ready) then
    let (lines, n) := runWithReadiness c.scripts (0, []) 0 (c.readiness.zip c.calls) []
    if lines.any Option.isNone then "panic"
    else String.intercalate " " (lines.filterMap id ++ [s!"calls {n}"])
  else
  let (st, ncalls, results) := runCalls (logged (scripted c.scripts)) recorder (0, []) 0 c.calls
  let log := st.2
  let lines := (log.zip results).map (fun (l, res) =>
    let isaw := s!"isaw {showHdrs l.1.1} {showExt l.1.2}"
    let dec := match l.2 with
      | .ok (md, x) => s!"iret {showHdrs md} {showExt x}"
      | .error st => s!"irej {showStatus st}"
    match showOutcome res.2 with
    | none => none
    | some o => some s!"{isaw} {dec} {showSaw res.1} {o}")
  if lines.any Option.isNone then "panic"
  else String.intercalate " " (lines.filterMap id ++ [s!"calls {ncalls}"])

/-- gsrv kind (`HealthServer::with_interceptor`): the wrapped service is the generated server; what is observed is its
HANDLER: `Request::from_http` of the request the wrapped service was handed (`C12_handler_view`), the message being the
body's frames in one piece; the generated server's own answer is not predicted (`gaccepted`). -/
def runGsrvModel (c : Case) : String :=
  let (st, ncalls, results) := runCalls (logged (scripted c.scripts)) recorder (0, []) 0 c.calls
  let lines := (st.2.zip results).map (fun (l, res) =>
    let isaw := s!"isaw {showHdrs l.1.1} {showExt l.1.2}"
    let dec := match l.2 with
      | .ok (md, x) => s!"iret {showHdrs md} {showExt x}"
      | .error st => s!"irej {showStatus st}"
    match res.1 with
    | some r =>
      let t := fromHttp r
      some s!"{isaw} {dec} handler {showHdrs t.metadata} {showExt t.extensions} 1 {hex t.message.1.chunks.flatten} notr gaccepted"
    | none => (showOutcome res.2).map (fun o => s!"{isaw} {dec} nohandler {o}"))
  if lines.any Option.isNone then "panic"
  else String.intercalate " " (lines.filterMap id ++ [s!"calls {ncalls}"])

/-! ### parsing the observation, evaluating the oracle on it -/

/-- observed `hdrs` (already lower-case): keep as given -/
def ohdrs : P Hdrs := do
  let n ← pnat
  rep (do
    let name ← pbytes
    let v ← pbytes
    let s ← pflag
    pure (name, (v, s))) n

/-- observed `total-len count (id value)*` -/
def oext : P (Nat × Ext) := do
  let total ← pnat
  let n ← pnat
  let xs ← rep (do
    let id ← pnat
    let v ← pbytes
    pure (id, v)) n
  pure (total, xs)

def obody : P Body := do
  let n ← pnat
  let chunks ← rep pbytes n
  let t ← next
  if t == "notr" then pure { chunks := chunks, trailers := none }
  else if t == "tr" then do
    let h ← ohdrs
    pure { chunks := chunks, trailers := some h }
  else failure

structure ObsOut where
  resp : Response Body
  extTotal : Nat
  eos : Bool
  lo : Nat
  hi : Option Nat

structure ObsCall where
  isawH : Hdrs
  isawX : Nat × Ext
  decision : Spec.Interceptor.Decision
  iretXTotal : Nat
  saw : Option (Request Body × Nat)
  out : Except Nat ObsOut
  /-- async kind: the response future (or the body) returned `Pending` without waking the caller / never finished -/
  hung : Bool := false
  /-- `false`: the observation of this call does not start with `isaw` — the interceptor was not run -/
  invoked : Bool := true
  /-- gsrv kind: `saw` is the HANDLER's view (`tonic::Request` metadata / extensions / message); method, version and
  URI are not observable there -/
  handlerView : Bool := false
  /-- gsrv kind: the call was accepted and the generated server answered (its answer is not part of the tie) -/
  gaccepted : Bool := false

def ocall : P ObsCall := do
  let ts ← get
  let invoked := match ts with
    | t :: _ => t == "isaw"
    | [] => false
  let ih ← (if invoked then do let _ ← next; ohdrs else pure [] : P Hdrs)
  let ix ← (if invoked then oext else pure (0, []) : P (Nat × Ext))
  let t ← (if invoked then next else pure "iret-missing" : P String)
  let (dec, tot) ← (if !invoked then pure (Spec.Interceptor.Decision.accept [] [], 0)
    else if t == "iret" then do
      let h ← ohdrs
      let x ← oext
      pure (Spec.Interceptor.Decision.accept h x.2, x.1)
    else if t == "irej" then do
      let code ← pnat
      let msg ← pbytes
      let det ← pbytes
      let md ← ohdrs
      pure (Spec.Interceptor.Decision.reject { code := code, message := msg, details := det, metadata := md }, 0)
    else failure : P (Spec.Interceptor.Decision × Nat))
  let t ← next
  let handlerView := t == "handler" || t == "nohandler"
  let saw ← (if t == "noinner" || t == "nohandler" then pure none
    else if t == "inner" then do
      let m ← pbytes
      let v ← pnat
      let u ← pbytes
      let h ← ohdrs
      let x ← oext
      let b ← obody
      pure (some ({ method := m, version := v, uri := u, headers := h, ext := x.2, body := b }, x.1))
    else if t == "handler" then do
      let h ← ohdrs
      let x ← oext
      let b ← obody
      pure (some ({ method := [], version := 0, uri := [], headers := h, ext := x.2, body := b }, x.1))
    else failure : P (Option (Request Body × Nat)))
  let t ← next
  if t == "gaccepted" then
    return { isawH := ih, isawX := ix, decision := dec, iretXTotal := tot, saw := saw, out := .error 0, invoked := invoked,
             handlerView := handlerView, gaccepted := true }
  -- async kind: `pendings n` = the response future was `Pending` n times where the wrapped future's own count says
  -- otherwise (not a clause: the model never prints it, so it shows as a correspondence disagreement)
  let t ← (if t == "pendings" then do let _ ← pnat; next else pure t : P String)
  if t == "out-hang" || t == "out-busy-loop" then
    return { isawH := ih, isawX := ix, decision := dec, iretXTotal := tot, saw := saw, out := .error 0, hung := true, invoked := invoked, handlerView := handlerView }
  let out ← (if t == "outerr" then do
      let n ← pnat
      pure (.error n)
    else if t == "out" then do
      let status ← pnat
      let version ← pnat
      let h ← ohdrs
      let x ← oext
      let eos ← pflag
      let lo ← pnat
      let hiT ← next
      let hi ← (match optNat? hiT with
        | some v => pure v
        | none => failure : P (Option Nat))
      let b ← obody
      pure (.ok { resp := { status := status, version := version, headers := h, ext := x.2, body := b },
                  extTotal := x.1, eos := eos, lo := lo, hi := hi })
    else failure : P (Except Nat ObsOut))
  -- a body that stalled (`body-hang` / `body-busy-loop` after the frames): the caller never gets the rest
  let ts ← get
  let stalled ← (match ts with
    | t :: _ => if t == "body-hang" || t == "body-busy-loop" then do let _ ← next; pure true else pure false
    | [] => pure false : P Bool)
  pure { isawH := ih, isawX := ix, decision := dec, iretXTotal := tot, saw := saw, out := out, hung := stalled, invoked := invoked, handlerView := handlerView }

def pobs (n : Nat) : P (List ObsCall × Nat) := do
  let cs ← rep ocall n
  let t ← next
  if t != "calls" then failure
  let k ← pnat
  pure (cs, k)

/-- bodies are compared with their trailers in canonical order (the observation lists them so) -/
def canonBody (b : Body) : Body := { b with trailers := b.trailers.map canon }

def frameCount (b : Body) : Nat := b.chunks.length + (if b.trailers.isSome then 1 else 0)

/-- spec clauses for one call: `req` and `script` come from the case, everything else from the
observation of the real code -/
def callClauses (req : Request B) (script : Option Script) (o : ObsCall) : List (String × Bool) :=
  if !o.invoked then [("interceptor-is-run-on-every-call", false)] else
  let input : List (String × Bool) :=
    [("response-future-and-body-complete", !o.hung),
     ("interceptor-sees-request-metadata", Spec.Interceptor.hdrsEq o.isawH req.headers),
     ("interceptor-sees-request-extensions",
        Spec.Interceptor.extEq o.isawX.2 req.ext && o.isawX.1 == req.ext.length)]
  match o.decision with
  | .accept md ext =>
    -- the handler of a generated server is given the MESSAGE: the frames of the body in one piece
    let req' : Request Body := { method := req.method, version := req.version, uri := req.uri,
                                 headers := req.headers, ext := req.ext,
                                 body := if o.handlerView then { chunks := [req.body.1.chunks.flatten], trailers := none }
                                         else canonBody req.body.1 }
    let touched : Bytes → Bool := fun k => match script with
      | none => false
      | some sc => sc.ops.any (Op.mentions k)
    let sawH : Hdrs := match o.saw with
      | some (r, _) => r.headers
      | none => []
    -- (handler view: method / version / URI are not observable, those three clauses are fed the request's own)
    let acc := Spec.Interceptor.acceptClauses req' md ext (o.saw.map (fun p =>
      if o.handlerView then { p.1 with method := req.method, version := req.version, uri := req.uri } else p.1))
    let frame := [("untouched-headers-intact", Spec.Interceptor.untouchedOk touched req.headers sawH),
                  ("no-foreign-extensions", match o.saw with
                     | some (_, total) => total == o.iretXTotal
                     | none => false)]
    let resp : List (String × Bool) := if o.gaccepted then [] else match req.body.2, o.out with
      | .error n, .error m => [("inner-error-passed-through", n == m)]
      | .ok r, .ok oo =>
        Spec.Interceptor.passClauses
          ({ status := r.status, version := r.version, headers := r.headers, ext := r.ext, body := canonBody r.body.1 } : Response Body)
          oo.resp ++
        [("response-no-foreign-extensions", oo.extTotal == r.ext.length),
         -- `size_hint` is compared model-vs-observed only (a different hint on the same body is not a
         -- violation of the property); `is_end_stream` is part of the verdict because hyper acts on it:
         -- the flag the caller reads is the wrapped body's own (for the plain kinds: "no frames left")
         ("response-body-end-stream", oo.eos == innerEos r.body)]
      | _, _ => [("response-kind-passed-through", false)]
    input ++ acc ++ frame ++ resp
  | .reject st =>
    let view : List (String × Bool) := match o.out with
      | .error _ => [("reject-yields-response", false), ("inner-not-invoked", o.saw.isNone)]
      | .ok oo =>
        Spec.Interceptor.rejectClauses st o.saw.isSome
          { status := oo.resp.status, headers := oo.resp.headers, endStream := oo.eos, frames := frameCount oo.resp.body }
    input ++ view

/-- one call's observation: either the service reported not ready (no call made) or a call -/
def ocallOrNotReady : P (Except (Poll Nat) ObsCall) := do
  let ts ← get
  match ts with
  | "notready" :: _ => do
    let _ ← next
    let t ← next
    if t == "pending" then pure (.error .pending)
    else if t == "err" then do
      let n ← pnat
      pure (.error (.err n))
    else failure
  | _ => do
    let o ← ocall
    pure (.ok o)

def specVerdict (c : Case) (obs : List String) : String :=
  if obs == ["panic"] then "fail:panic"
  else
    let p : P (List (Except (Poll Nat) ObsCall) × Nat) := do
      let cs ← rep ocallOrNotReady c.calls.length
      let t ← next
      if t != "calls" then failure
      let k ← pnat
      pure (cs, k)
    match p obs with
    | some ((ocs, ncalls), []) =>
      let n := c.scripts.length
      -- `cnt` = number of calls the interceptor has seen (its script index)
      let rec go : List ((Poll Nat × Request B) × Except (Poll Nat) ObsCall) → Nat → List (String × Bool)
        | [], _ => []
        | ((rd, req), o) :: rest, cnt =>
          match o with
          | .error p => ("readiness-is-wrapped-services", p == rd && rd != Poll.ready) :: go rest cnt
          | .ok oc =>
            ("readiness-is-wrapped-services", rd == Poll.ready) ::
              (callClauses req (if n == 0 then none else c.scripts[cnt % n]?) oc ++ go rest (cnt + 1))
      let accepts := (ocs.filter (fun o => match o with
        | .ok oc => (match oc.decision with
          | .accept _ _ => true
          | .reject _ => false)
        | .error _ => false)).length
      verdict (go ((c.readiness.zip c.calls).zip ocs) 0 ++ [("inner-call-count", ncalls == accepts)])
    | _ => "fail:unparseable-observation"

/-! ### client kind: `Grpc<InterceptedService<Mock, F>>::server_streaming` -/

/-- transport answer scripted per call: trailers-only headers and extensions -/
abbrev CB := Bytes × (Hdrs × Ext)

structure CCall where
  originPrefix : Bytes
  originPath : Bytes
  originHasQuery : Bool
  path : Bytes
  userMd : Hdrs
  ext : Ext
  msg : Bytes
  rhdrs : Hdrs
  rext : Ext

structure CCase where
  scripts : List Script
  calls : List CCall

def pccall : P CCall := do
  let pre ← pbytes
  let op ← pbytes
  let q ← pflag
  let path ← pbytes
  let h ← phdrs
  let x ← pext
  let m ← pbytes
  let rh ← phdrs
  let rx ← pext
  pure { originPrefix := pre, originPath := op, originHasQuery := q, path := path, userMd := h, ext := x, msg := m, rhdrs := rh, rext := rx }

def pccase : P CCase := do
  let _kind ← next
  let _via ← next
  let ns ← pnat
  let scripts ← rep pscript ns
  let nc ← pnat
  let calls ← rep pccall nc
  pure { scripts := scripts, calls := calls }

/-- gRPC Length-Prefixed-Message, uncompressed (what `EncodeBody` produces for one small message) -/
def frame (m : Bytes) : Bytes := 0 :: (u32be m.length ++ m)

def clientMock : Inner Nat CB Unit Nat := fun n r =>
  (n + 1, .ok { status := 200, version := 2, headers := r.body.2.1, ext := r.body.2.2, body := () })

def showClientResult : ClientResult → String
  | .ok md x => s!"cok {showHdrs md} {showExt x}"
  | .err st => s!"cerr {showStatus st}"
  | .transport => "ctransport"
  | .panic => "panic"
  | .unmodelled => "unmodelled"

def showSawC : Option (Request CB) → String
  | none => "noinner"
  | some r => s!"inner {hex r.method} {r.version} {hex r.uri} {showHdrs r.headers} {showExt r.ext} 1 {hex r.body.1} notr"

/-- thread interceptor state (with its log) and transport state through the client calls -/
def runClient (scripts : List Script) :
    (Nat × List ((Hdrs × Ext) × Except GStatus (Hdrs × Ext))) → Nat → List CCall → List String → List String × Nat
  | _, n, [], acc => (acc, n)
  | s, n, k :: ks, acc =>
    let t : TRequest CB := { metadata := k.userMd, message := (frame k.msg, (k.rhdrs, k.rext)), extensions := k.ext }
    let (c, res) := clientCall (fun _ => true) (logged (scripted scripts)) clientMock s n k.originPrefix k.originPath k.originHasQuery k.path t
    let line := match c.icpt.2.getLast? with
      | none => "nolog"
      | some l =>
        let isaw := s!"isaw {showHdrs l.1.1} {showExt l.1.2}"
        let dec := match l.2 with
          | .ok (md, x) => s!"iret {showHdrs md} {showExt x}"
          | .error st => s!"irej {showStatus st}"
        s!"{isaw} {dec} {showSawC c.innerSaw} {showClientResult res}"
    runClient scripts c.icpt c.inner ks (acc ++ [line])

def runClientModel (c : CCase) : String :=
  let (lines, n) := runClient c.scripts (0, []) 0 c.calls []
  if lines.any (fun l => (l.splitOn " panic").length > 1) then "panic"
  else String.intercalate " " (lines ++ [s!"calls {n}"])

inductive ObsClient
  | cok (md : Hdrs) (ext : Nat × Ext)
  | cerr (st : GStatus)

structure ObsCCall where
  isawH : Hdrs
  isawX : Nat × Ext
  decision : Spec.Interceptor.Decision
  iretXTotal : Nat
  saw : Option (Request Body × Nat)
  res : ObsClient

def occall : P ObsCCall := do
  let t ← next
  if t != "isaw" then failure
  let ih ← ohdrs
  let ix ← oext
  let t ← next
  let (dec, tot) ← (if t == "iret" then do
      let h ← ohdrs
      let x ← oext
      pure (Spec.Interceptor.Decision.accept h x.2, x.1)
    else if t == "irej" then do
      let code ← pnat
      let msg ← pbytes
      let det ← pbytes
      let md ← ohdrs
      pure (Spec.Interceptor.Decision.reject { code := code, message := msg, details := det, metadata := md }, 0)
    else failure : P (Spec.Interceptor.Decision × Nat))
  let t ← next
  let saw ← (if t == "noinner" then pure none
    else if t == "inner" then do
      let m ← pbytes
      let v ← pnat
      let u ← pbytes
      let h ← ohdrs
      let x ← oext
      let b ← obody
      pure (some ({ method := m, version := v, uri := u, headers := h, ext := x.2, body := b }, x.1))
    else failure : P (Option (Request Body × Nat)))
  let t ← next
  let res ← (if t == "cok" then do
      let h ← ohdrs
      let x ← oext
      pure (ObsClient.cok h x)
    else if t == "cerr" then do
      let code ← pnat
      let msg ← pbytes
      let det ← pbytes
      let md ← ohdrs
      pure (ObsClient.cerr { code := code, message := msg, details := det, metadata := md })
    else failure : P ObsClient)
  pure { isawH := ih, isawX := ix, decision := dec, iretXTotal := tot, saw := saw, res := res }

def pcobs (n : Nat) : P (List ObsCCall × Nat) := do
  let cs ← rep occall n
  let t ← next
  if t != "calls" then failure
  let k ← pnat
  pure (cs, k)

def clientClauses (k : CCall) (script : Option Script) (o : ObsCCall) : List (String × Bool) :=
  let te := str "te"
  let ct := str "content-type"
  let input : List (String × Bool) :=
    [("client-interceptor-sees-te-trailers", getAll te o.isawH == [(str "trailers", false)]),
     ("client-interceptor-sees-grpc-content-type", getAll ct o.isawH == [(str "application/grpc", false)]),
     ("client-interceptor-sees-user-metadata", (keys o.isawH ++ keys k.userMd).all (fun n =>
        Spec.Interceptor.reserved n || getAll n o.isawH == getAll n k.userMd)),
     ("client-interceptor-sees-extensions", Spec.Interceptor.extEq o.isawX.2 k.ext && o.isawX.1 == k.ext.length)]
  match o.decision with
  | .accept md ext =>
    let touched : Bytes → Bool := fun n => match script with
      | none => false
      | some sc => sc.ops.any (Op.mentions n)
    let acc : List (String × Bool) := match o.saw with
      | none => [("inner-invoked", false)]
      | some (r, total) =>
        [("method-post", r.method == str "POST"), ("version-h2", r.version == 2),
         ("uri-has-origin-and-path", k.originPrefix.isPrefixOf r.uri && k.path.isSuffixOf r.uri),
         ("body-is-length-prefixed-message", r.body == { chunks := [frame k.msg], trailers := none }),
         ("metadata-is-interceptors", Spec.Interceptor.hdrsEq r.headers md),
         ("extensions-are-interceptors", Spec.Interceptor.extEq r.ext ext && total == o.iretXTotal),
         ("untouched-headers-intact", Spec.Interceptor.untouchedOk touched o.isawH r.headers)]
    -- the transport's trailers-only answer reaches the caller
    let codeTok : Bytes := match (getAll (str "grpc-status") k.rhdrs).head? with
      | some v => v.1
      | none => []
    let expectCode : Nat :=
      if !codeTok.isEmpty && codeTok.all Ascii.isDigit && codeTok.length ≤ 2 && digitsVal codeTok ≤ 16
         && (codeTok.length == 1 || codeTok.head? != some 48) then digitsVal codeTok else 2
    let resp : List (String × Bool) := match o.res with
      | .cok h x => [("transport-ok-passed-through", expectCode == 0 && Spec.Interceptor.hdrsEq h k.rhdrs
                        && Spec.Interceptor.extEq x.2 k.rext && x.1 == k.rext.length)]
      | .cerr st => [("transport-status-passed-through", expectCode != 0 && st.code == expectCode &&
                        (keys st.metadata ++ keys k.rhdrs).all (fun n =>
                          Spec.Interceptor.reserved n || getAll n st.metadata == getAll n k.rhdrs))]
    input ++ acc ++ resp
  | .reject st =>
    let res : List (String × Bool) := match o.res with
      | .cerr st' =>
        [("caller-gets-error-status", st.code != 0), ("caller-status-code", st'.code == st.code),
         ("caller-status-message", st'.message == st.message), ("caller-status-details", st'.details == st.details),
         ("caller-status-metadata", (keys st'.metadata ++ keys st.metadata).all (fun n =>
            Spec.Interceptor.reserved n || getAll n st'.metadata == getAll n st.metadata))]
      | .cok h _ =>
        [("caller-gets-ok-only-for-ok-status", st.code == 0),
         ("caller-status-metadata", (keys h ++ keys st.metadata).all (fun n =>
            Spec.Interceptor.reserved n || getAll n h == getAll n st.metadata))]
    input ++ [("inner-not-invoked", o.saw.isNone)] ++ res

def clientVerdict (c : CCase) (obs : List String) : String :=
  if obs == ["panic"] then "fail:panic"
  else match pcobs c.calls.length obs with
  | some ((ocs, ncalls), []) =>
    let n := c.scripts.length
    let perCall := (c.calls.zip ocs).zipIdx.map (fun ((k, o), i) =>
      clientClauses k (if n == 0 then none else c.scripts[i % n]?) o)
    let accepts := (ocs.filter (fun o => match o.decision with
      | .accept _ _ => true
      | .reject _ => false)).length
    verdict (perCall.flatten ++ [("inner-call-count", ncalls == accepts)])
  | _ => "fail:unparseable-observation"

/-! ### routed kind: `Routes::new(InterceptedService<Named, F>).add_service(Other)` -/

def routedName : Bytes := str "pkg.Svc"
def otherName : Bytes := str "other.Svc"

def pathOfUri (u : Bytes) : Bytes := u.takeWhile (fun c => c != 63)

def showFallback : Option (Response Unit) → Option String
  | none => none
  | some r => some s!"out {r.status} {r.version} {showHdrs r.headers} {showExt r.ext} 1 0 0 0 notr"

/-- thread the states through `routesCall`; per call one line -/
def runRouted (scripts : List Script) :
    (Nat × List ((Hdrs × Ext) × Except GStatus (Hdrs × Ext))) → Nat → List (Request B) → List (Option String) → List (Option String) × Nat
  | _, n, [], acc => (acc, n)
  | s, n, r :: rs, acc =>
    match routesCall routedName otherName (logged (scripted scripts)) recorder s n (pathOfUri r.uri) r with
    | .service c =>
      let line := match c.icpt.2.getLast?, showOutcome c.out with
        | some l, some o =>
          let isaw := s!"isaw {showHdrs l.1.1} {showExt l.1.2}"
          let dec := match l.2 with
            | .ok (md, x) => s!"iret {showHdrs md} {showExt x}"
            | .error st => s!"irej {showStatus st}"
          some s!"{isaw} {dec} {showSaw c.innerSaw} {o}"
        | _, _ => none
      runRouted scripts c.icpt c.inner rs (acc ++ [line])
    | .other => runRouted scripts s n rs (acc ++ [some "noicpt noinner other out 418 11 0 0 0 1 0 0 0 notr"])
    | .fallback fr =>
      runRouted scripts s n rs (acc ++ [(showFallback fr).map (fun o => s!"noicpt noinner {o}")])

def runRoutedModel (c : Case) : String :=
  let (lines, n) := runRouted c.scripts (0, []) 0 c.calls []
  if lines.any Option.isNone then "panic"
  else String.intercalate " " (lines.filterMap id ++ [s!"calls {n}"])

structure ObsRCall where
  icpt : Option (Hdrs × (Nat × Ext) × Spec.Interceptor.Decision × Nat)
  saw : Option (Request Body × Nat)
  other : Bool
  out : Except Nat ObsOut

def oout : P (Except Nat ObsOut) := do
  let t ← next
  if t == "outerr" then do
    let n ← pnat
    pure (.error n)
  else if t == "out" then do
    let status ← pnat
    let version ← pnat
    let h ← ohdrs
    let x ← oext
    let eos ← pflag
    let lo ← pnat
    let hiT ← next
    let hi ← (match optNat? hiT with
      | some v => pure v
      | none => failure : P (Option Nat))
    let b ← obody
    pure (.ok { resp := { status := status, version := version, headers := h, ext := x.2, body := b },
                extTotal := x.1, eos := eos, lo := lo, hi := hi })
  else failure

def orcall : P ObsRCall := do
  let t ← next
  let icpt ← (if t == "noicpt" then pure none
    else if t == "isaw" then do
      let ih ← ohdrs
      let ix ← oext
      let t ← next
      if t == "iret" then do
        let h ← ohdrs
        let x ← oext
        pure (some (ih, ix, Spec.Interceptor.Decision.accept h x.2, x.1))
      else if t == "irej" then do
        let code ← pnat
        let msg ← pbytes
        let det ← pbytes
        let md ← ohdrs
        pure (some (ih, ix, Spec.Interceptor.Decision.reject { code := code, message := msg, details := det, metadata := md }, 0))
      else failure
    else failure : P (Option (Hdrs × (Nat × Ext) × Spec.Interceptor.Decision × Nat)))
  let t ← next
  let saw ← (if t == "noinner" then pure none
    else if t == "inner" then do
      let m ← pbytes
      let v ← pnat
      let u ← pbytes
      let h ← ohdrs
      let x ← oext
      let b ← obody
      pure (some ({ method := m, version := v, uri := u, headers := h, ext := x.2, body := b }, x.1))
    else failure : P (Option (Request Body × Nat)))
  -- optional `other`
  let ts ← get
  let other ← (match ts with
    | "other" :: _ => do let _ ← next; pure true
    | _ => pure false : P Bool)
  let out ← oout
  pure { icpt := icpt, saw := saw, other := other, out := out }

def routedClauses (req : Request B) (script : Option Script) (o : ObsRCall) : List (String × Bool) :=
  let path := pathOfUri req.uri
  if Spec.Interceptor.pathNamesService routedName path then
    match o.icpt with
    | none => [("routed-call-reaches-interceptor", false)]
    | some (ih, ix, dec, tot) =>
      ("routed-call-not-sent-elsewhere", !o.other) ::
      callClauses req script { isawH := ih, isawX := ix, decision := dec, iretXTotal := tot, saw := o.saw, out := o.out }
  else
    let base : List (String × Bool) :=
      [("unrouted-interceptor-not-invoked", o.icpt.isNone), ("unrouted-inner-not-invoked", o.saw.isNone)]
    if Spec.Interceptor.pathNamesService otherName path then base ++ [("other-service-invoked", o.other)]
    else
      let un : GStatus := { code := 12, message := [], details := [], metadata := [] }
      base ++ [("unrouted-not-sent-elsewhere", !o.other)] ++ (match o.out with
        | .error _ => [("unrouted-yields-response", false)]
        | .ok oo =>
          Spec.Interceptor.rejectClauses un false
            { status := oo.resp.status,
              headers := oo.resp.headers.filter (fun e => !Spec.Interceptor.httpFraming e.1),
              endStream := oo.eos, frames := frameCount oo.resp.body })

def routedVerdict (c : Case) (obs : List String) : String :=
  if obs == ["panic"] then "fail:panic"
  else
    let p : P (List ObsRCall × Nat) := do
      let cs ← rep orcall c.calls.length
      let t ← next
      if t != "calls" then failure
      let k ← pnat
      pure (cs, k)
    match p obs with
    | some ((ocs, ncalls), []) =>
      let n := c.scripts.length
      -- the interceptor's call counter advances only on routed calls
      let rec go : List (Request B × ObsRCall) → Nat → List (String × Bool)
        | [], _ => []
        | (req, o) :: rest, cnt =>
          let routedHere := Spec.Interceptor.pathNamesService routedName (pathOfUri req.uri)
          routedClauses req (if n == 0 then none else c.scripts[cnt % n]?) o ++
            go rest (if routedHere then cnt + 1 else cnt)
      let accepts := (ocs.filter (fun o => match o.icpt with
        | some (_, _, .accept _ _, _) => true
        | _ => false)).length
      verdict (go (c.calls.zip ocs) 0 ++ [("inner-call-count", ncalls == accepts)])
    | _ => "fail:unparseable-observation"

def handle (case obs : List String) : String × String :=
  match case with
  | "client" :: _ =>
    (match pccase case with
     | some (c, []) => (runClientModel c, clientVerdict c obs)
     | _ => bad)
  | "routed" :: _ =>
    (match parseCase case with
     | none => bad
     | some c => (runRoutedModel c, routedVerdict c obs))
  | "gsrv" :: _ =>
    (match parseCase case with
     | none => bad
     | some c => (runGsrvModel c, specVerdict c obs))
  | _ =>
    match parseCase case with
    | none => bad
    | some c => (runModel c, specVerdict c obs)

end DriverC12
