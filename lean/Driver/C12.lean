import Driver.Proto
import TonicModel.Basic.HMapLite
import TonicModel.Model.Interceptor
import TonicModel.Spec.Interceptor
/-
C12 driver: parses a case (see harness/src/c12.rs for the grammar), runs the model
(`Interceptor.runCalls` with the scripted interceptor and a scripted wrapped service), renders
the canonical tokens, and evaluates `Spec.Interceptor` on what the implementation was observed
to do.
-/
namespace DriverC12
open Proto HMapLite HttpLite Interceptor

/-! ### token parser -/

abbrev P := StateT (List String) Option

def next : P String := fun ts => match ts with
  | [] => none
  | t :: r => some (t, r)

def pnat : P Nat := do
  let t ← next
  match t.toNat? with
  | some n => pure n
  | none => failure

def pbytes : P Bytes := do
  let t ← next
  match unhex t with
  | some b => pure b
  | none => failure

def pflag : P Bool := do
  let t ← next
  if t == "0" then pure false else if t == "1" then pure true else failure

def rep {α} (p : P α) : Nat → P (List α)
  | 0 => pure []
  | n + 1 => do
    let x ← p
    let xs ← rep p n
    pure (x :: xs)

/-- `count (name value sens)*`, names normalised as `HeaderName::from_bytes` does; entries in
`append` order -/
def phdrs : P Hdrs := do
  let n ← pnat
  rep (do
    let name ← pbytes
    let v ← pbytes
    let s ← pflag
    pure (normName name, (v, s))) n

/-- `count (id value)*`, inserted in order -/
def pext : P Ext := do
  let n ← pnat
  let xs ← rep (do
    let id ← pnat
    let v ← pbytes
    pure (id, v)) n
  pure (xs.foldl (fun acc e => Ext.set e.1 e.2 acc) [])

def pbody : P Body := do
  let n ← pnat
  let chunks ← rep pbytes n
  let t ← next
  if t == "notr" then pure { chunks := chunks, trailers := none }
  else if t == "tr" then do
    let h ← phdrs
    pure { chunks := chunks, trailers := some h }
  else failure

def pop : P Op := do
  let t ← next
  match t with
  | "hins" => do let n ← pbytes; let v ← pbytes; let s ← pflag; pure (.hins n (v, s))
  | "happ" => do let n ← pbytes; let v ← pbytes; let s ← pflag; pure (.happ n (v, s))
  | "hrem" => do let n ← pbytes; pure (.hrem n)
  | "mins" => do let n ← pbytes; let v ← pbytes; pure (.mins n v)
  | "mapp" => do let n ← pbytes; let v ← pbytes; pure (.mapp n v)
  | "mrem" => do let n ← pbytes; pure (.mrem n)
  | "bins" => do let n ← pbytes; let v ← pbytes; pure (.bins n v)
  | "bapp" => do let n ← pbytes; let v ← pbytes; pure (.bapp n v)
  | "brem" => do let n ← pbytes; pure (.brem n)
  | "clear" => pure .clear
  | "cnt" => do let n ← pbytes; pure (.cnt n)
  | "xset" => do let id ← pnat; let v ← pbytes; pure (.xset id v)
  | "xrm" => do let id ← pnat; pure (.xrm id)
  | "xclear" => pure .xclear
  | _ => failure

def pscript : P Script := do
  let n ← pnat
  let ops ← rep pop n
  let t ← next
  if t == "ok" then pure { ops := ops, reject := none }
  else if t == "rej" then do
    let _ctor ← pnat
    let code ← pnat
    let msg ← pbytes
    let details ← pbytes
    let _src ← pflag
    let md ← phdrs
    pure { ops := ops, reject := some { code := codeFromI32 code, message := msg, details := details, metadata := md } }
  else failure

/-- the wrapped service's scripted answer -/
abbrev RespScript := Except Nat (Response Body)

def presp : P RespScript := do
  let t ← next
  if t == "e" then do
    let n ← pnat
    pure (.error n)
  else if t == "r" then do
    let status ← pnat
    let version ← pnat
    let h ← phdrs
    let x ← pext
    let b ← pbody
    pure (.ok { status := status, version := version, headers := h, ext := x, body := b })
  else failure

/-- The body type the model is instantiated with: the request body proper plus the scripted
answer travelling with it (the model cannot look inside `β`). -/
abbrev B := Body × RespScript

def pcall : P (Request B) := do
  let method ← pbytes
  let version ← pnat
  let uri ← pbytes
  let h ← phdrs
  let x ← pext
  let b ← pbody
  let r ← presp
  pure { method := method, version := version, uri := uri, headers := h, ext := x, body := (b, r) }

structure Case where
  scripts : List Script
  calls : List (Request B)

def pcase : P Case := do
  let _kind ← next
  let _via ← next
  let ns ← pnat
  let scripts ← rep pscript ns
  let nc ← pnat
  let calls ← rep pcall nc
  pure { scripts := scripts, calls := calls }

def parseCase (ts : List String) : Option Case :=
  match pcase ts with
  | some (c, []) => some c
  | _ => none

/-! ### rendering -/

def flagTok (b : Bool) : String := if b then "1" else "0"

def showHdrs (h : Hdrs) : String :=
  String.intercalate " " (toString h.length :: (canon h).map (fun e => s!"{hex e.1} {hex e.2.1} {flagTok e.2.2}"))

def showExt (x : Ext) : String :=
  String.intercalate " " (toString x.length :: toString x.length ::
    (Ext.canon x).map (fun e => s!"{e.1} {hex e.2}"))

def showBody (b : Body) : String :=
  String.intercalate " " ([toString b.chunks.length] ++ b.chunks.map hex ++
    [match b.trailers with
     | none => "notr"
     | some h => "tr " ++ showHdrs h])

def showStatus (st : GStatus) : String :=
  s!"{st.code} {hex st.message} {hex st.details} {showHdrs st.metadata}"

def bodyEos (b : Body) : Bool := b.chunks.isEmpty && b.trailers.isNone
def bodySize (b : Body) : Nat := (b.chunks.map List.length).foldl (· + ·) 0

def showOutcome : Outcome Body Nat → Option String
  | .panic => none
  | .error n => some s!"outerr {n}"
  | .response r =>
    let eos := RespBody.isEndStream bodyEos r.body
    let sz := RespBody.sizeHint bodySize r.body
    some s!"out {r.status} {r.version} {showHdrs r.headers} {showExt r.ext} {flagTok eos} {sz} {sz} {showBody (RespBody.frames id r.body)}"

def showSaw : Option (Request B) → String
  | none => "noinner"
  | some r => s!"inner {hex r.method} {r.version} {hex r.uri} {showHdrs r.headers} {showExt r.ext} {showBody r.body.1}"

/-- the scripted wrapped service: counts invocations, answers with the script carried in the body -/
def recorder : Inner Nat B Body Nat := fun n r => (n + 1, r.body.2)

def runModel (c : Case) : String :=
  let (st, ncalls, results) := runCalls (logged (scripted c.scripts)) recorder (0, []) 0 c.calls
  let log := st.2
  let lines := (log.zip results).map (fun (l, res) =>
    let isaw := s!"isaw {showHdrs l.1.1} {showExt l.1.2}"
    let dec := match l.2 with
      | .ok (md, x) => s!"iret {showHdrs md} {showExt x}"
      | .error st => s!"irej {showStatus st}"
    match showOutcome res.2 with
    | none => none
    | some o => some s!"{isaw} {dec} {showSaw res.1} {o}")
  if lines.any Option.isNone then "panic"
  else String.intercalate " " (lines.filterMap id ++ [s!"calls {ncalls}"])

/-! ### parsing the observation, evaluating the oracle on it -/

/-- observed `hdrs` (already lower-case): keep as given -/
def ohdrs : P Hdrs := do
  let n ← pnat
  rep (do
    let name ← pbytes
    let v ← pbytes
    let s ← pflag
    pure (name, (v, s))) n

/-- observed `total-len count (id value)*` -/
def oext : P (Nat × Ext) := do
  let total ← pnat
  let n ← pnat
  let xs ← rep (do
    let id ← pnat
    let v ← pbytes
    pure (id, v)) n
  pure (total, xs)

def obody : P Body := do
  let n ← pnat
  let chunks ← rep pbytes n
  let t ← next
  if t == "notr" then pure { chunks := chunks, trailers := none }
  else if t == "tr" then do
    let h ← ohdrs
    pure { chunks := chunks, trailers := some h }
  else failure

structure ObsOut where
  resp : Response Body
  extTotal : Nat
  eos : Bool
  lo : Nat
  hi : Option Nat

structure ObsCall where
  isawH : Hdrs
  isawX : Nat × Ext
  decision : Spec.Interceptor.Decision
  iretXTotal : Nat
  saw : Option (Request Body × Nat)
  out : Except Nat ObsOut

def ocall : P ObsCall := do
  let t ← next
  if t != "isaw" then failure
  let ih ← ohdrs
  let ix ← oext
  let t ← next
  let (dec, tot) ← (if t == "iret" then do
      let h ← ohdrs
      let x ← oext
      pure (Spec.Interceptor.Decision.accept h x.2, x.1)
    else if t == "irej" then do
      let code ← pnat
      let msg ← pbytes
      let det ← pbytes
      let md ← ohdrs
      pure (Spec.Interceptor.Decision.reject { code := code, message := msg, details := det, metadata := md }, 0)
    else failure : P (Spec.Interceptor.Decision × Nat))
  let t ← next
  let saw ← (if t == "noinner" then pure none
    else if t == "inner" then do
      let m ← pbytes
      let v ← pnat
      let u ← pbytes
      let h ← ohdrs
      let x ← oext
      let b ← obody
      pure (some ({ method := m, version := v, uri := u, headers := h, ext := x.2, body := b }, x.1))
    else failure : P (Option (Request Body × Nat)))
  let t ← next
  let out ← (if t == "outerr" then do
      let n ← pnat
      pure (.error n)
    else if t == "out" then do
      let status ← pnat
      let version ← pnat
      let h ← ohdrs
      let x ← oext
      let eos ← pflag
      let lo ← pnat
      let hiT ← next
      let hi ← (match optNat? hiT with
        | some v => pure v
        | none => failure : P (Option Nat))
      let b ← obody
      pure (.ok { resp := { status := status, version := version, headers := h, ext := x.2, body := b },
                  extTotal := x.1, eos := eos, lo := lo, hi := hi })
    else failure : P (Except Nat ObsOut))
  pure { isawH := ih, isawX := ix, decision := dec, iretXTotal := tot, saw := saw, out := out }

def pobs (n : Nat) : P (List ObsCall × Nat) := do
  let cs ← rep ocall n
  let t ← next
  if t != "calls" then failure
  let k ← pnat
  pure (cs, k)

/-- bodies are compared with their trailers in canonical order (the observation lists them so) -/
def canonBody (b : Body) : Body := { b with trailers := b.trailers.map canon }

def frameCount (b : Body) : Nat := b.chunks.length + (if b.trailers.isSome then 1 else 0)

/-- spec clauses for one call: `req` and `script` come from the case, everything else from the
observation of the real code -/
def callClauses (req : Request B) (script : Option Script) (o : ObsCall) : List (String × Bool) :=
  let input : List (String × Bool) :=
    [("interceptor-sees-request-metadata", Spec.Interceptor.hdrsEq o.isawH req.headers),
     ("interceptor-sees-request-extensions",
        Spec.Interceptor.extEq o.isawX.2 req.ext && o.isawX.1 == req.ext.length)]
  match o.decision with
  | .accept md ext =>
    let req' : Request Body := { method := req.method, version := req.version, uri := req.uri,
                                 headers := req.headers, ext := req.ext, body := canonBody req.body.1 }
    let touched : Bytes → Bool := fun k => match script with
      | none => false
      | some sc => sc.ops.any (Op.mentions k)
    let sawH : Hdrs := match o.saw with
      | some (r, _) => r.headers
      | none => []
    let acc := Spec.Interceptor.acceptClauses req' md ext (o.saw.map (·.1))
    let frame := [("untouched-headers-intact", Spec.Interceptor.untouchedOk touched req.headers sawH),
                  ("no-foreign-extensions", match o.saw with
                     | some (_, total) => total == o.iretXTotal
                     | none => false)]
    let resp : List (String × Bool) := match req.body.2, o.out with
      | .error n, .error m => [("inner-error-passed-through", n == m)]
      | .ok r, .ok oo =>
        Spec.Interceptor.passClauses { r with body := canonBody r.body } oo.resp ++
        [("response-no-foreign-extensions", oo.extTotal == r.ext.length),
         ("response-body-hints", oo.eos == bodyEos r.body && oo.lo == bodySize r.body && oo.hi == some (bodySize r.body))]
      | _, _ => [("response-kind-passed-through", false)]
    input ++ acc ++ frame ++ resp
  | .reject st =>
    let view : List (String × Bool) := match o.out with
      | .error _ => [("reject-yields-response", false)]
      | .ok oo =>
        Spec.Interceptor.rejectClauses st o.saw.isSome
          { status := oo.resp.status, headers := oo.resp.headers, endStream := oo.eos, frames := frameCount oo.resp.body } ++
        [("reject-size-hint-zero", oo.lo == 0 && oo.hi == some 0)]
    input ++ view

def specVerdict (c : Case) (obs : List String) : String :=
  if obs == ["panic"] then "fail:panic"
  else match pobs c.calls.length obs with
  | some ((ocs, ncalls), []) =>
    let n := c.scripts.length
    let perCall := (c.calls.zip ocs).zipIdx.map (fun ((req, o), k) =>
      callClauses req (if n == 0 then none else c.scripts[k % n]?) o)
    let accepts := (ocs.filter (fun o => match o.decision with
      | .accept _ _ => true
      | .reject _ => false)).length
    verdict (perCall.flatten ++ [("inner-call-count", ncalls == accepts)])
  | _ => "fail:unparseable-observation"

def handle (case obs : List String) : String × String :=
  match parseCase case with
  | none => bad
  | some c => (runModel c, specVerdict c obs)

end DriverC12
