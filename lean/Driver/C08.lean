import Driver.Proto
import TonicModel.Model.Metadata
import TonicModel.Model.MetadataEntry
import TonicModel.Model.MetadataApi
import TonicModel.Spec.Metadata
import TonicModel.Spec.MetadataEntry
import TonicModel.Basic.MetaOps
import TonicModel.Basic.Utf8
import TonicModel.Spec.Status
import TonicModel.Basic.HMap
namespace DriverC08
open Proto Metadata
open Status (Variant St Code)

def join (ts : List String) : String := String.intercalate " " ts

/-! ### token forms -/

def encOfTok : String → Option Enc
  | "A" => some .ascii
  | "B" => some .binary
  | _ => none

def tokOfEnc : Enc → String
  | .ascii => "A"
  | .binary => "B"

/-- `<n> (A|B <key> <value>)*` -/
def parseTypedN : Nat → List String → Option (List (Enc × Bytes × Bytes) × List String)
  | 0, rest => some ([], rest)
  | n + 1, e :: k :: v :: rest =>
    match encOfTok e, unhex k, unhex v, parseTypedN n rest with
    | some e, some k, some v, some (es, r) => some ((e, k, v) :: es, r)
    | _, _, _, _ => none
  | _ + 1, _ => none

def parseTyped : List String → Option (List (Enc × Bytes × Bytes) × List String)
  | n :: rest => (nat? n).bind (fun n => parseTypedN n rest)
  | [] => none

/-- a row of a typed view: category, stored name, decoded bytes (`none` = undecodable, `!`) -/
abbrev Row := Enc × Bytes × Option Bytes

def optHex : Option Bytes → String
  | some b => hex b
  | none => "none"

def renderRows (rows : List Row) : List String :=
  let sorted := rows.mergeSort (fun a b => HMap.bytesLe a.2.1 b.2.1)
  toString sorted.length :: sorted.flatMap (fun r =>
    [tokOfEnc r.1, hex r.2.1, match r.2.2 with | some b => hex b | none => "!"])

def parseRowsN : Nat → List String → Option (List Row × List String)
  | 0, rest => some ([], rest)
  | n + 1, e :: k :: v :: rest =>
    match encOfTok e, unhex k, parseRowsN n rest with
    | some e, some k, some (rs, r) =>
      if v == "!" then some ((e, k, none) :: rs, r)
      else match unhex v with
        | some v => some ((e, k, some v) :: rs, r)
        | none => none
    | _, _, _ => none
  | _ + 1, _ => none

def parseRows : List String → Option (List Row × List String)
  | n :: rest => (nat? n).bind (fun n => parseRowsN n rest)
  | [] => none

def renderSt (v : Variant) (st : St) : List String :=
  toString st.code.num :: hex st.message :: hex st.details :: renderRows (typedView v st.metadata)

/-! ### spec-side expectations (written against Spec/ and Basic/ only) -/

/-- the typed entries a caller attached that the API accepts, under their normalised names:
key is a header name whose suffix matches the encoding, ASCII values are legal header values -/
def specAccepted (es : List (Enc × Bytes × Bytes)) : List Row :=
  es.filterMap (fun e =>
    match HMap.normName e.2.1 with
    | none => none
    | some n =>
      if (e.1 == Enc.binary) != Spec.Metadata.isBinName n then none
      else if e.1 == Enc.ascii && !HMap.legalValue e.2.2 then none
      else some (e.1, n, some e.2.2))

def nonReserved (rows : List Row) : List Row :=
  rows.filter (fun r => !Spec.Metadata.reserved.contains r.2.1)

def nonProtocol (rows : List Row) : List Row :=
  rows.filter (fun r => !Spec.Status.protocolNames.contains r.2.1)

def sameRows (a b : List Row) : Bool := renderRows a == renderRows b

def specView (m : HMap) : List Row :=
  m.map (fun e =>
    if Spec.Metadata.isBinName e.1 then (Enc.binary, e.1, B64.decode e.2) else (Enc.ascii, e.1, some e.2))

def CT : Bytes := HMap.name "content-type"
def APP_GRPC : Bytes := HMap.name "application/grpc"

/-- what the protocol itself puts under the reserved names of a request -/
def requestOwn : HMap := [(HMap.name "te", HMap.name "trailers"), (CT, APP_GRPC)]
def responseOwn : HMap := [(CT, APP_GRPC)]

/-! ### observed-output sectioning -/

def splitOn1 (marker : String) (toks : List String) : Option (List String × List String) :=
  let pre := toks.takeWhile (· != marker)
  let post := toks.dropWhile (· != marker)
  match post with
  | _ :: rest => some (pre, rest)
  | [] => none

def handleAcc (h : HMap) (ks : Bytes) (obs : List String) : String × String :=
  let v := Variant.fixed
  let showAll (l : List Bytes) : List String := toString l.length :: l.map hex
  let rmA := remove v .ascii ks h
  let rmB := remove v .binary ks h
  let model :=
    ["get", optHex (get v .ascii ks h), "getbin", optHex (get v .binary ks h), "all"] ++ showAll (getAll v .ascii ks h)
    ++ ["allbin"] ++ showAll (getAll v .binary ks h) ++ ["has", if containsKey ks h then "1" else "0"]
    ++ ["rm", optHex rmA.1] ++ HMap.render rmA.2 ++ ["rmbin", optHex rmB.1] ++ HMap.render rmB.2
    ++ ["mut", optHex (get v .ascii ks h), optHex (get v .binary ks h)] ++ ["kt", "1"]
  -- spec: the stored (normalised) name decides the category
  let n? := HMap.normName ks
  let asc : Bool := match n? with | some n => !Spec.Metadata.isBinName n | none => false
  let bin : Bool := match n? with | some n => Spec.Metadata.isBinName n | none => false
  let vals : List Bytes := match n? with | some n => HMap.getAll n h | none => []
  let after : HMap := match n? with | some n => HMap.remove n h | none => h
  let expected :=
    ["get", optHex (if asc then vals.head? else none), "getbin", optHex (if bin then vals.head? else none), "all"]
    ++ showAll (if asc then vals else []) ++ ["allbin"] ++ showAll (if bin then vals else [])
    ++ ["has", if vals.isEmpty then "0" else "1"]
    ++ ["rm", optHex (if asc then vals.head? else none)] ++ HMap.render (if asc then after else h)
    ++ ["rmbin", optHex (if bin then vals.head? else none)] ++ HMap.render (if bin then after else h)
    ++ ["mut", optHex (if asc then vals.head? else none), optHex (if bin then vals.head? else none)]
    -- `kt`: String, &String and typed keys gave what the &str key gave
    ++ ["kt", "1"]
  -- name the clause by the first differing accessor
  let clause : String :=
    let rec firstDiff : List String → List String → String → String
      | a :: as, b :: bs, cur =>
        let cur := if ["get", "getbin", "all", "allbin", "has", "rm", "rmbin", "mut", "kt"].contains b then b else cur
        if a == b then firstDiff as bs cur else cur
      | _, _, cur => cur
    firstDiff obs expected "shape"
  (join model, verdict [("accessor-presents-only-its-own-category:" ++ clause, obs == expected)])

def renderIter (rows : List (Enc × Bytes × Bytes)) : List String :=
  let sorted := rows.mergeSort (fun a b => HMap.bytesLe a.2.1 b.2.1)
  toString sorted.length :: sorted.flatMap (fun r => [tokOfEnc r.1, hex r.2.1, hex r.2.2])

def iterOutput (rows : List (Enc × Bytes × Bytes)) : List String :=
  let sorted := rows.mergeSort (fun a b => HMap.bytesLe a.2.1 b.2.1)
  let keys := (sorted.map (fun r => (r.1, r.2.1))).eraseDups
  renderIter rows ++ ["keys", toString keys.length] ++ keys.flatMap (fun k => [tokOfEnc k.1, hex k.2])
  ++ ["values", toString sorted.length] ++ sorted.flatMap (fun r => [tokOfEnc r.1, hex r.2.2]) ++ ["mut-agrees", "1"]

structure E2EOut where
  reqwire : HMap
  srv : List Row
  respwire : List String
  client : List String

def handleE2E (mode : String) (code : Nat) (msg det : Bytes) (req resp stmd : List (Enc × Bytes × Bytes))
    (obs : List String) : String × String :=
  let v := Variant.fixed
  let reqmd := buildTyped v req
  let respmd := buildTyped v resp
  let st : St := { code := Code.ofNum code, message := msg, details := det, metadata := buildTyped v stmd }
  let reqwire := requestWire reqmd
  let srv := typedView v reqwire
  let (respwire, client) : List String × List String :=
    if mode == "ok" then
      (HMap.render (responseWire respmd), "ok" :: renderRows (typedView v (clientUnaryMetadata respmd)))
    else if mode == "err" then
      match errorResponseWire v st with
      | .error e => (["enc-err"], "err" :: renderSt v e)
      | .ok h =>
        (HMap.render h, match Status.fromHeaderMap v h with
          | some (.status s) => "err" :: renderSt v s
          | some .panic => ["panic"]
          | none => ["no-status"])
    else if mode == "umix" then
      let h := responseWire respmd
      let cl := match Status.toHeaderMap v st with
        | .error e => "err" :: renderSt v e
        | .ok t => match Status.streamEnd v [t] 200 with
          | .err s => "err" :: renderSt v { s with metadata := clientUnaryErrorMetadata respmd s.metadata }
          | .finished _ => ["unmodelled"]
          | .panic => ["panic"]
      (HMap.render h, cl)
    else
      let h := responseWire respmd
      let tail := match Status.toHeaderMap v st with
        | .error e => "err" :: renderSt v e
        | .ok t => match Status.streamEnd v [t] 200 with
          | .finished (some t) => "end" :: "some" :: renderRows (typedView v t)
          | .finished none => ["end", "none"]
          | .err s => "err" :: renderSt v s
          | .panic => ["panic"]
      (HMap.render h, ("ok" :: renderRows (typedView v h)) ++ ("then" :: tail))
  let model := ("reqwire" :: HMap.render reqwire) ++ ("srv" :: renderRows srv) ++ ("respwire" :: respwire) ++ ("client" :: client)
  -- spec verdict on the observed output
  let sentReq := nonReserved (specAccepted req)
  let sentResp := nonReserved (specAccepted resp)
  let sentSt := nonProtocol (specAccepted stmd)
  let verdictClauses : List (String × Bool) :=
    match splitOn1 "reqwire" obs with
    | some (_, r0) =>
      match splitOn1 "srv" r0 with
      | some (reqwireT, r1) =>
        match splitOn1 "respwire" r1 with
        | some (srvT, r2) =>
          match splitOn1 "client" r2 with
          | some (respwireT, clientT) =>
            match HMap.parseRendered reqwireT, parseRows srvT, HMap.parseRendered respwireT with
            | some (rw, []), some (srvRows, []), some (pw, []) =>
              let common :=
                [("request-reserved-names-only-from-protocol", Spec.Metadata.reservedOnlyFromProtocol rw requestOwn),
                 ("request-wire-carries-custom-entries", sameRows (nonReserved (specView rw)) sentReq),
                 ("server-sees-request-metadata", sameRows (nonReserved srvRows) sentReq)]
              let respReserved (own : HMap) := ("response-reserved-names-only-from-protocol", Spec.Metadata.reservedOnlyFromProtocol pw own)
              if mode == "ok" then
                match clientT with
                | "ok" :: rows =>
                  match parseRows rows with
                  | some (cr, []) =>
                    common ++ [respReserved responseOwn,
                      ("response-wire-carries-custom-entries", sameRows (nonReserved (specView pw)) sentResp),
                      ("client-sees-response-metadata", sameRows (nonReserved cr) sentResp)]
                  | _ => [("observed-parses", false)]
                | _ => common ++ [("successful-call-succeeds", false)]
              else if mode == "err" then
                let own : HMap := [(CT, APP_GRPC), (HMap.name "grpc-status", decimal code)]
                  ++ (if msg.isEmpty then [] else (HMap.getAll (HMap.name "grpc-message") pw).map (fun w => (HMap.name "grpc-message", w)))
                match clientT with
                | "err" :: c :: m :: d :: rows =>
                  match parseRows rows with
                  | some (cr, []) =>
                    common ++ [respReserved own,
                      ("status-message-on-wire-decodes", msg.isEmpty || (HMap.getAll (HMap.name "grpc-message") pw).map Pct.decode == [msg]),
                      ("client-sees-status", c == toString code && m == hex msg && d == hex det),
                      ("client-sees-status-metadata", sameRows (nonProtocol cr) sentSt)]
                  | _ => [("observed-parses", false)]
                | _ => common ++ [("failed-call-fails", false)]
              else if mode == "umix" then
                match clientT with
                | "err" :: c :: m :: d :: rows =>
                  match parseRows rows with
                  | some (cr, []) =>
                    -- the client has ONE metadata map for both the response headers and the status'
                    -- metadata.  Every status entry must be there (no filter: the full clause); it is
                    -- evaluated in two parts so that the recorded finding C08-F1 (a status entry whose
                    -- name also occurs in the response headers is replaced by the header's values)
                    -- can be told apart from any other loss: names only in the status first.
                    let respNames := sentResp.map (fun r => r.2.1)
                    let stNames := sentSt.map (fun r => r.2.1)
                    let underSt := (nonProtocol cr).filter (fun r => stNames.contains r.2.1)
                    let only (rows : List Row) := rows.filter (fun r => !respNames.contains r.2.1)
                    let both (rows : List Row) := rows.filter (fun r => respNames.contains r.2.1)
                    common ++ [respReserved responseOwn,
                      ("client-sees-status", c == toString code && m == hex msg && d == hex det),
                      ("client-sees-response-metadata", sameRows ((nonProtocol cr).filter (fun r => respNames.contains r.2.1)) (nonProtocol sentResp)),
                      ("client-sees-status-metadata", sameRows (only underSt) (only sentSt)),
                      ("client-sees-status-metadata-under-names-also-in-response-headers", sameRows (both underSt) (both sentSt))]
                  | _ => [("observed-parses", false)]
                | _ => common ++ [("failed-call-fails", false)]
              else
                match clientT with
                | "ok" :: rest =>
                  match splitOn1 "then" rest with
                  | some (headT, tailT) =>
                    match parseRows headT with
                    | some (hr, []) =>
                      let tailOk : Bool := match tailT with
                        | "err" :: c :: m :: d :: rows =>
                          (match parseRows rows with
                            | some (cr, []) => code != 0 && c == toString code && m == hex msg && d == hex det && sameRows (nonProtocol cr) sentSt
                            | _ => false)
                        | "end" :: _ => code == 0
                        | _ => false
                      common ++ [respReserved responseOwn,
                        ("client-sees-response-metadata", sameRows (nonReserved hr) sentResp),
                        ("client-sees-stream-status", tailOk)]
                    | _ => [("observed-parses", false)]
                  | none => [("observed-parses", false)]
                | _ => common ++ [("streaming-call-starts", false)]
            | _, _, _ => [("observed-parses", false)]
          | none => [("observed-parses", false)]
        | none => [("observed-parses", false)]
      | none => [("observed-parses", false)]
    | none => [("observed-parses", false)]
  (join model, verdict verdictClauses)

/-! ### the entry API as operation sequences (`eops`) -/

def firstDiffIndex : List String → List String → Nat → Option Nat
  | [], [], _ => none
  | a :: as, b :: bs, i => if a == b then firstDiffIndex as bs (i + 1) else some i
  | _, _, i => some i

def handleEops (init : HMap) (ops : List MetaOps.Op) (obs : List String) : String × String :=
  let v := Variant.fixed
  let steps := Metadata.run v .fixed ops init
  let fin := Metadata.finalMap steps init
  let panics := steps.any (fun st => st.1.contains (MetaOps.Ev.note "panic"))
  let model := if panics then ["panic"] else MetaOps.renderRun steps ++ ("view" :: renderRows (typedView v fin))
  -- oracle: Spec/MetadataEntry on a name ↦ values table
  let ssteps := Spec.Metadata.EntryApi.run ops (Spec.Metadata.EntryApi.ofHMap init)
  let sfin : HMap := match ssteps.getLast? with
    | some st => st.2
    | none => init
  let expected := MetaOps.renderRun ssteps ++ ("view" :: renderRows (specView sfin))
  let catOk := obs.all Spec.Metadata.EntryApi.tokenCategoryOk
  -- values a peer sent under a -bin name need not be base64; everything written here must be
  let initDecodes := init.all (fun e => !Spec.Metadata.isBinName e.1 || (B64.decode e.2).isSome)
  let viewOk : Bool := match splitOn1 "view" obs with
    | some (_, vt) =>
      match parseRows vt with
      | some (rows, []) => rows.all (fun r =>
          (r.1 == Enc.binary) == Spec.Metadata.isBinName r.2.1 && (r.2.2.isSome || !initDecodes))
      | _ => false
    | none => false
  let label : String := match firstDiffIndex obs expected 0 with
    | none => "none"
    | some i =>
      let k := ((expected.take (i + 1)).filter (· == "|")).length
      match ops[k - 1]? with
      | some op => op.label
      | none => "view"
  (join model, verdict [("entry-api-does-not-panic", obs != ["panic"]),
    ("entry-api-presents-each-entry-in-its-category", catOk),
    ("typed-api-stores-each-entry-in-its-category", viewOk),
    ("entry-api-behaves-as-documented:" ++ label, obs == expected)])

/-! ### constructors and comparisons (`kctor`, `vctor`, `veq`) -/

def firstDiffTok (obs expected : List String) : String :=
  match firstDiffIndex obs expected 0 with
  | none => "none"
  | some i => match expected[i]? with
    | some t => (t.splitOn ":").headD "shape"
    | none => "shape"

def handleKctor (enc : Enc) (k : Bytes) (obs : List String) : String × String :=
  let v := Variant.fixed
  let okOr (bad : String) : Option Bytes → String
    | some n => "ok:" ++ hex n
    | none => bad
  let utf8 := Utf8.valid k
  let model :=
    ["fb:" ++ okOr "err" (keyFromBytes v enc k)] ++
    (if utf8 then
      ["fs:" ++ okOr "panic" (keyFromStatic v enc k), "ps:" ++ okOr "err" (keyFromStr v enc k),
       "si:" ++ okOr "panic" (keyFromStatic v enc k), "sa:" ++ okOr "panic" (keyFromStatic v enc k)]
     else ["fs:nostr", "ps:nostr", "si:nostr", "sa:nostr"])
  -- oracle: a key exists iff the string is a header name whose normalised form has the -bin
  -- suffix iff the key type is the binary one; `from_static` (and a `&'static str` handed to
  -- insert / append) additionally insists on the stored form itself and panics otherwise
  let own (n : Bytes) : Bool := (enc == Enc.binary) == Spec.Metadata.isBinName n
  let dyn : Option Bytes := match HMap.normName k with
    | some n => if own n then some n else none
    | none => none
  let stat : Option Bytes := if MetaOps.staticName k && own k then some k else none
  let expected :=
    ["fb:" ++ okOr "err" dyn] ++
    (if utf8 then ["fs:" ++ okOr "panic" stat, "ps:" ++ okOr "err" dyn, "si:" ++ okOr "panic" stat, "sa:" ++ okOr "panic" stat]
     else ["fs:nostr", "ps:nostr", "si:nostr", "sa:nostr"])
  (join model, verdict [("key-constructors-follow-bin-suffix:" ++ firstDiffTok obs expected, obs == expected)])

def showBuilt (enc : Enc) : Built → String
  | .err => "err"
  | .panic => "panic"
  | .ok w =>
    let d := match valueToBytes enc w with | some d => hex d | none => "!"
    match enc with
    | .binary => "ok:" ++ hex w ++ ":" ++ d
    | .ascii => "ok:" ++ hex w ++ ":" ++ d ++ ":" ++ (match toStr w with | some t => hex t | none => "!")

def handleVctor (enc : Enc) (raw : Bytes) (obs : List String) : String × String :=
  let utf8 := Utf8.valid raw
  let b01 (b : Bool) : String := if b then "1" else "0"
  let strTok (name : String) (c : Ctor) : String := name ++ ":" ++ (if utf8 then showBuilt enc (construct enc c raw) else "nostr")
  let model : List String := match enc with
    | .ascii =>
      ["sl:" ++ showBuilt enc (construct enc .slice raw), "ve:" ++ showBuilt enc (construct enc .vec raw),
       "by:" ++ showBuilt enc (construct enc .shared raw),
       strTok "st" .str, strTok "sg" .str, strTok "rs" .str, strTok "ps" .str, strTok "fs" .fromStatic] ++
      (match construct enc .slice raw with
        | .ok w => ["eb:" ++ b01 (equalsBytes enc w raw), "es:" ++ (if utf8 then b01 (equalsBytes enc w raw) else "nostr"),
                    "len:" ++ toString w.length, "emp:" ++ b01 (valueIsEmpty enc w)]
        | _ => ["eb:-", "es:-", "len:-", "emp:-"])
    | .binary =>
      ["fb:" ++ showBuilt enc (construct enc .fromBytes raw), "sl:" ++ showBuilt enc (construct enc .slice raw),
       "ve:" ++ showBuilt enc (construct enc .vec raw), "by:" ++ showBuilt enc (construct enc .shared raw),
       strTok "fs" .fromStatic] ++
      (match construct enc .fromBytes raw with
        | .ok w => ["eb:" ++ b01 (equalsBytes enc w raw), "es:" ++ (if utf8 then b01 (equalsBytes enc w raw) else "nostr"),
                    "emp:" ++ b01 (valueIsEmpty enc w)]
        | _ => ["eb:-", "es:-", "emp:-"])
  -- oracle (Basic/ only): ASCII values are kept verbatim and accepted iff legal header values
  -- (`from_static`: visible ASCII, else panic); binary values are stored as unpadded base64 of the
  -- bytes given, by every constructor; `from_static` takes a base64 text; a value equals the bytes
  -- (or string) it was built from
  let expected : List String := match enc with
    | .ascii =>
      let vis := raw.all Ascii.isVisible
      let okTok := "ok:" ++ hex raw ++ ":" ++ hex raw ++ ":" ++ (if vis then hex raw else "!")
      let dynTok := if HMap.legalValue raw then okTok else "err"
      let s (t : String) := if utf8 then t else "nostr"
      ["sl:" ++ dynTok, "ve:" ++ dynTok, "by:" ++ dynTok, "st:" ++ s dynTok, "sg:" ++ s dynTok, "rs:" ++ s dynTok,
       "ps:" ++ s dynTok, "fs:" ++ s (if vis then okTok else "panic")] ++
      (if HMap.legalValue raw then ["eb:1", "es:" ++ s "1", "len:" ++ toString raw.length, "emp:" ++ b01 raw.isEmpty]
       else ["eb:-", "es:-", "len:-", "emp:-"])
    | .binary =>
      let okTok := "ok:" ++ hex (B64.encode false raw) ++ ":" ++ hex raw
      ["fb:" ++ okTok, "sl:" ++ okTok, "ve:" ++ okTok, "by:" ++ okTok,
       "fs:" ++ (if utf8 then (match B64.decode raw with | some d => "ok:" ++ hex raw ++ ":" ++ hex d | none => "panic") else "nostr"),
       "eb:1", "es:" ++ (if utf8 then "1" else "nostr"), "emp:" ++ b01 raw.isEmpty]
  let clause := match enc with
    | .ascii => "ascii-constructors-keep-the-value-verbatim:"
    | .binary => "binary-constructors-store-base64-of-the-bytes:"
  (join model, verdict [(clause ++ firstDiffTok obs expected, obs == expected)])

def handleVeq (enc : Enc) (wa wb other : Bytes) (obs : List String) : String × String :=
  if !(HMap.legalValue wa && HMap.legalValue wb) then ("not-a-header-value", "ok") else
  let b01 (b : Bool) : String := if b then "1" else "0"
  let utf8 := Utf8.valid other
  let model := ["eq:" ++ b01 (valuesEqual enc wa wb), "he:" ++ b01 (hashKey enc wa == hashKey enc wb),
    "eo:" ++ b01 (equalsBytes enc wa other), "es:" ++ (if utf8 then b01 (equalsBytes enc wa other) else "nostr"),
    "ro:" ++ b01 (equalsBytes enc wa other)]
  let field (name : String) : Option String :=
    (obs.find? (fun t => t.startsWith (name ++ ":"))).map (fun t => (t.drop (name.length + 1)).toString)
  -- oracle: ASCII values compare by their bytes; binary values that decode compare by the decoded
  -- bytes, with each other and with a `[u8]` / `str`; equal values hash alike
  let vd : List (String × Bool) := match field "eq", field "he", field "eo", field "es", field "ro" with
    | some eq, some he, some eo, some es, some ro =>
      let viaStr := es == "nostr" || es == eo
      [("hash-consistent-with-eq", eq != "1" || he == "1"), ("str-and-bytes-comparisons-agree", viaStr && ro == eo)] ++
      (match enc with
        | .ascii => [("ascii-values-equal-iff-bytes-equal", eq == b01 (wa == wb)), ("ascii-value-equals-its-bytes", eo == b01 (wa == other))]
        | .binary =>
          (match B64.decode wa, B64.decode wb with
            | some x, some y => [("binary-values-equal-iff-bytes-equal", eq == b01 (x == y))]
            | _, _ => []) ++
          (match B64.decode wa with
            | some x => [("binary-value-compares-decoded-bytes", eo == b01 (x == other))]
            | none => []))
    | _, _, _, _, _ => [("observed-parses", false)]
  (join model, verdict vd)

/-! ### a status in an error's source chain (`ferr`) -/

def wrapNames (depth : Nat) : List Bytes :=
  (List.range depth).reverse.map (fun i => Ascii.ofString "wrap" ++ decimal (i + 1))

def handleFerr (how : String) (depth : Nat) (inner : Option (Nat × Bytes × Bytes × List (Enc × Bytes × Bytes)))
    (obs : List String) : String × String :=
  let v := Variant.fixed
  let chain : ErrChain := wrapN (wrapNames depth) (match inner with
    | some (code, msg, det, stmd) =>
      .status { code := Code.ofNum code, message := msg, details := det, metadata := buildTyped v stmd }
    | none => .leaf (Ascii.ofString "leaf"))
  let model : List String :=
    if how == "from" then "ok" :: renderSt v (fromErrorChain chain)
    else if how == "try" then (match tryFromError chain with | some st => "ok" :: renderSt v st | none => ["none"])
    else match recoverError v chain with
      | none => ["passed"]
      | some (.error _) => ["panic"]
      | some (.ok h) => ("resp" :: HMap.render h) ++ ("st" :: (match Status.fromHeaderMap v h with
          | some (.status s) => renderSt v s
          | some .panic => ["panic"]
          | none => ["no-status"]))
  let vd : List (String × Bool) := match inner with
    | none =>
      -- no status anywhere in the chain: UNKNOWN with the outer error's text / nothing recovered
      if how == "from" then (match obs with
        | "ok" :: c :: _ :: d :: rows => [("error-without-status-is-unknown", c == "2" && d == "x" && rows == ["0"])]
        | _ => [("error-without-status-is-unknown", false)])
      else if how == "try" then [("error-without-status-is-not-a-status", obs == ["none"])]
      else [("error-without-status-is-passed-on", obs == ["passed"])]
    | some (code, msg, det, stmd) =>
      let sent := specAccepted stmd
      if how == "recover" then
        match splitOn1 "st" (obs.drop 1) with
        | some (wireT, c :: m :: d :: rows) =>
          match obs.head?, HMap.parseRendered wireT, parseRows rows with
          | some "resp", some (pw, []), some (cr, []) =>
            let own : HMap := [(CT, APP_GRPC), (HMap.name "grpc-status", decimal code)]
              ++ (if msg.isEmpty then [] else (HMap.getAll (HMap.name "grpc-message") pw).map (fun w => (HMap.name "grpc-message", w)))
            [("response-reserved-names-only-from-protocol", Spec.Metadata.reservedOnlyFromProtocol pw own),
             ("recovered-response-carries-the-status", c == toString code && m == hex msg && d == hex det),
             ("recovered-response-carries-status-metadata", sameRows (nonProtocol (specView pw)) (nonProtocol sent)),
             ("status-from-error-chain-keeps-metadata", sameRows (nonProtocol cr) (nonProtocol sent))]
          | _, _, _ => [("status-in-source-chain-is-recovered", false)]
        | _ => [("status-in-source-chain-is-recovered", false)]
      else
        match obs with
        | "ok" :: c :: m :: d :: rows =>
          match parseRows rows with
          | some (cr, []) =>
            [("status-from-error-chain-keeps-code-message-details", c == toString code && m == hex msg && d == hex det),
             ("status-from-error-chain-keeps-metadata", sameRows cr sent)]
          | _ => [("observed-parses", false)]
        | _ => [("status-in-source-chain-is-found", false)]
  (join model, verdict vd)

/-- a unary client has ONE map for response headers and OK trailers.  Every entry of both must be
there; the clause is evaluated in parts so that finding C08-F3 (a response-header entry whose name
also occurs in the trailers is replaced by the trailers' values) is told apart from any other loss. -/
def okMergeClauses (cr sentResp sentSt : List Row) : List (String × Bool) :=
  let stNames := sentSt.map (fun r => r.2.1)
  let respNames := sentResp.map (fun r => r.2.1)
  let got := nonProtocol cr
  let both (rows : List Row) := rows.filter (fun r => stNames.contains r.2.1 && respNames.contains r.2.1)
  let onlyResp (rows : List Row) := rows.filter (fun r => !stNames.contains r.2.1)
  let onlySt (rows : List Row) := rows.filter (fun r => !respNames.contains r.2.1)
  [("client-sees-response-metadata", sameRows (onlyResp got) (onlyResp sentResp)),
   ("client-sees-trailer-metadata", sameRows (onlySt got) (onlySt sentSt)),
   ("client-sees-trailer-metadata-under-names-also-in-response-headers", (both sentSt).all (fun r => (both got).contains r)),
   ("client-sees-response-metadata-under-names-also-in-trailers", sameRows (both got) (both sentResp ++ both sentSt))]

/-- the error twin (finding C08-F1): status metadata and response headers in ONE map -/
def errMergeClauses (cr sentResp sentSt : List Row) : List (String × Bool) :=
  let respNames := sentResp.map (fun r => r.2.1)
  let stNames := sentSt.map (fun r => r.2.1)
  let underSt := (nonProtocol cr).filter (fun r => stNames.contains r.2.1)
  let only (rows : List Row) := rows.filter (fun r => !respNames.contains r.2.1)
  let both (rows : List Row) := rows.filter (fun r => respNames.contains r.2.1)
  [("client-sees-status-metadata", sameRows (only underSt) (only sentSt)),
   ("client-sees-status-metadata-under-names-also-in-response-headers", sameRows (both underSt) (both sentSt))]

def GRPC_STATUS : Bytes := HMap.name "grpc-status"

/-! ### a peer that is not tonic (`peer`) -/

def custom (m : HMap) : List Row := nonProtocol (specView m)

def handlePeerCli (shape : String) (h : HMap) (nmsg : Nat) (t? : Option HMap) (obs : List String) : String × String :=
  let v := Variant.fixed
  let endS := Status.streamEnd v t?.toList 200
  let model : List String := ["peer", "client"] ++
    (if shape == "u" then
      match nmsg, endS with
      | 0, .err s => "err" :: renderSt v { s with metadata := merge s.metadata h }
      | 0, .finished _ => ["err", "13", hex (Ascii.ofString "Missing response message."), "x", "0"]
      | _ + 1, .err s => "err" :: renderSt v s
      | _ + 1, .finished (some t) => "ok" :: renderRows (typedView v (merge h t))
      | _ + 1, .finished none => "ok" :: renderRows (typedView v h)
      | _, .panic => ["panic"]
    else
      let tail := match endS with
        | .finished (some t) => "end" :: "some" :: renderRows (typedView v t)
        | .finished none => ["end", "none"]
        | .err s => "err" :: renderSt v s
        | .panic => ["panic"]
      ("ok" :: renderRows (typedView v h)) ++ ["msgs", toString nmsg] ++ ("then" :: tail))
  -- oracle: what the peer put under names of its own choosing must be what the typed view shows
  let code? : Option Bytes := t?.bind (fun t => HMap.get GRPC_STATUS t)
  let sentT : List Row := match t? with | some t => custom t | none => []
  let sentH := custom h
  let isOk := code? == some [48]
  let isErr := match code? with | some c => c != [48] | none => false
  let vd : List (String × Bool) := match obs with
    | "peer" :: "client" :: rest =>
      if shape == "u" then
        match rest with
        | "ok" :: rows =>
          (match parseRows rows with
            | some (cr, []) => ("a-call-that-failed-fails", !isErr) :: (if isOk then okMergeClauses cr sentH sentT else [])
            | _ => [("observed-parses", false)])
        | "err" :: _ :: _ :: _ :: rows =>
          (match parseRows rows with
            | some (cr, []) =>
              if !isErr then [("a-call-that-succeeded-succeeds", !(isOk && nmsg ≥ 1))]
              else if nmsg == 0 then errMergeClauses cr sentH sentT
              else [("client-sees-status-metadata", sameRows (nonProtocol cr) sentT)]
            | _ => [("observed-parses", false)])
        | _ => [("observed-parses", false)]
      else
        match rest with
        | "ok" :: more =>
          (match splitOn1 "msgs" more with
            | some (headT, n :: "then" :: tailT) =>
              (match parseRows headT with
                | some (hr, []) =>
                  [("client-sees-response-metadata", sameRows (nonProtocol hr) sentH),
                   ("client-sees-every-message", n == toString nmsg),
                   ("client-sees-trailer-metadata", match tailT with
                      | "end" :: "some" :: rows => (match parseRows rows with | some (tr, []) => !isErr && sameRows (nonProtocol tr) sentT | _ => false)
                      | "end" :: _ => !isErr && sentT.isEmpty
                      | "err" :: _ :: _ :: _ :: rows => (match parseRows rows with | some (tr, []) => !isOk && (!isErr || sameRows (nonProtocol tr) sentT) | _ => false)
                      | _ => false)]
                | _ => [("observed-parses", false)])
            | _ => [("observed-parses", false)])
        | _ => [("streaming-call-starts", false)]
    | _ => [("observed-parses", false)]
  (join model, verdict vd)

def handlePeerSrv (shape : String) (h : HMap) (t? : Option HMap) (obs : List String) : String × String :=
  let v := Variant.fixed
  let model : List String :=
    if shape == "u" then
      ("srv" :: renderRows (typedView v (match t? with | some t => merge h t | none => h))) ++ ["client", "0"]
    else
      ("srv" :: renderRows (typedView v h)) ++ (match t? with
        | some t => "tr" :: "some" :: renderRows (typedView v t)
        | none => ["tr", "none"]) ++ ["client", "0"]
  let sentH := custom h
  let sentT : List Row := match t? with | some t => custom t | none => []
  let tNames := sentT.map (fun r => r.2.1)
  let hNames := sentH.map (fun r => r.2.1)
  let vd : List (String × Bool) := match obs with
    | "srv" :: rest =>
      (match splitOn1 "client" rest with
        | some (srvT, code) =>
          ("call-succeeds", code == ["0"]) ::
          (if shape == "u" then
            match parseRows srvT with
            | some (rows, []) =>
              -- names the trailers share with the headers are the merge of C08-F1 / F3 (not generated)
              [("server-sees-request-metadata", sameRows ((nonProtocol rows).filter (fun r => !tNames.contains r.2.1)) (sentH.filter (fun r => !tNames.contains r.2.1))),
               ("server-sees-request-trailer-metadata", sameRows ((nonProtocol rows).filter (fun r => !hNames.contains r.2.1)) (sentT.filter (fun r => !hNames.contains r.2.1)))]
            | _ => [("observed-parses", false)]
          else
            match splitOn1 "tr" srvT with
            | some (headT, trT) =>
              (match parseRows headT with
                | some (rows, []) =>
                  [("server-sees-request-metadata", sameRows (nonProtocol rows) sentH),
                   ("server-sees-request-trailer-metadata", match trT with
                      | "some" :: tr => (match parseRows tr with | some (trr, []) => sameRows (nonProtocol trr) sentT | _ => false)
                      | _ => t?.isNone)]
                | _ => [("observed-parses", false)])
            | none => [("observed-parses", false)])
        | none => [("observed-parses", false)])
    | _ => [("observed-parses", false)]
  (join model, verdict vd)

/-! ### dimension audit: every API route, call shape, interceptor and transport (`e2x`)

The nine knobs select HOW the same metadata is attached and carried (see harness/src/c08_dim.rs);
the prediction is the plain `e2e` model's — the knobs must be invisible — except where a knob adds
an entry of its own (`rq = 5`: `set_timeout`) or selects a path `e2e` does not have (a unary client
that receives a message and then trailers carrying metadata). -/

def parseKnobs (t : String) : Option (List Nat) :=
  let ps := t.splitOn "."
  let ns := ps.filterMap nat?
  if ns.length == 9 && ps.length == 9 then some ns else none

def GRPC_TIMEOUT : Bytes := HMap.name "grpc-timeout"

def handleE2X (kn : List Nat) (mode : String) (code : Nat) (msg det : Bytes) (req0 resp stmd : List (Enc × Bytes × Bytes))
    (obs : List String) : String × String :=
  let v := Variant.fixed
  let rq := kn.getD 2 0
  let k := kn.getD 7 0
  -- `Request::set_timeout` inserts one more entry (the generator keeps the name out of `req`)
  let req := if rq == 5 then req0 ++ [(Enc.ascii, GRPC_TIMEOUT, Ascii.ofString "3600000m")] else req0
  if rq == 5 && req0.any (fun e => (e.2.1.map Ascii.toLower).take 12 == GRPC_TIMEOUT) then bad else
  if !(mode == "umix" && k ≥ 1) then handleE2E mode code msg det req resp stmd obs else
  let reqmd := buildTyped v req
  let respmd := buildTyped v resp
  let st : St := { code := Code.ofNum code, message := msg, details := det, metadata := buildTyped v stmd }
  let reqwire := requestWire reqmd
  let srv := typedView v reqwire
  let h := responseWire respmd
  let cl : List String := match Status.toHeaderMap v st with
    | .error e => "err" :: renderSt v e
    | .ok t => match Status.streamEnd v [t] 200 with
      -- the message has been taken: `body.trailers().await?` hands the status on as it is
      | .err s => "err" :: renderSt v s
      -- OK trailers: merged over the response headers
      | .finished (some t) => "ok" :: renderRows (typedView v (clientUnaryOkMetadata respmd t))
      | .finished none => ["unmodelled"]
      | .panic => ["panic"]
  let model := ("reqwire" :: HMap.render reqwire) ++ ("srv" :: renderRows srv) ++ ("respwire" :: HMap.render h) ++ ("client" :: cl)
  let sentReq := nonReserved (specAccepted req)
  let sentResp := nonReserved (specAccepted resp)
  let sentSt := nonProtocol (specAccepted stmd)
  let vd : List (String × Bool) :=
    match splitOn1 "reqwire" obs with
    | some (_, r0) =>
      match splitOn1 "srv" r0 with
      | some (reqwireT, r1) =>
        match splitOn1 "respwire" r1 with
        | some (srvT, r2) =>
          match splitOn1 "client" r2 with
          | some (respwireT, clientT) =>
            match HMap.parseRendered reqwireT, parseRows srvT, HMap.parseRendered respwireT with
            | some (rw, []), some (srvRows, []), some (pw, []) =>
              let common :=
                [("request-reserved-names-only-from-protocol", Spec.Metadata.reservedOnlyFromProtocol rw requestOwn),
                 ("request-wire-carries-custom-entries", sameRows (nonReserved (specView rw)) sentReq),
                 ("server-sees-request-metadata", sameRows (nonReserved srvRows) sentReq),
                 ("response-reserved-names-only-from-protocol", Spec.Metadata.reservedOnlyFromProtocol pw responseOwn),
                 ("response-wire-carries-custom-entries", sameRows (nonReserved (specView pw)) sentResp)]
              if code != 0 then
                match clientT with
                | "err" :: c :: m :: d :: rows =>
                  match parseRows rows with
                  | some (cr, []) =>
                    common ++ [("client-sees-status", c == toString code && m == hex msg && d == hex det),
                      ("client-sees-status-metadata", sameRows (nonProtocol cr) sentSt)]
                  | _ => [("observed-parses", false)]
                | _ => common ++ [("failed-call-fails", false)]
              else
                match clientT with
                | "ok" :: rows =>
                  match parseRows rows with
                  | some (cr, []) =>
                    common ++ okMergeClauses cr (nonProtocol sentResp) sentSt
                  | _ => [("observed-parses", false)]
                | _ => common ++ [("successful-call-succeeds", false)]
            | _, _, _ => [("observed-parses", false)]
          | none => [("observed-parses", false)]
        | none => [("observed-parses", false)]
      | none => [("observed-parses", false)]
    | none => [("observed-parses", false)]
  (join model, verdict vd)

/-- `tx = 2`: the call crosses tonic-web's two layers.  Everything the plain model predicts must
hold as it is — the grpc-web translation is invisible — except for the one header the server layer
owns: `coerce_response` overwrites the response's `content-type` with the grpc-web one, and that
is what the client's view of the response head (the part after `client`) shows. -/
def throughWeb (model : String) : String :=
  let ct := hex (HMap.name "content-type")
  let grpc := hex (Ascii.ofString "application/grpc")
  let web := hex (Ascii.ofString "application/grpc-web+proto")
  let rec go (inClient : Bool) (prev : String) : List String → List String
    | [] => []
    | t :: ts =>
      let t' := if inClient && prev == ct && t == grpc then web else t
      t' :: go (inClient || t == "client") t ts
  join (go false "" (model.splitOn " "))

def handle (case obs : List String) : String × String :=
  let v := Variant.fixed
  match case with
  | ["bin", hv] =>
    match unhex hv with
    | none => bad
    | some b =>
      let w := (valueFromBytes .binary b).getD []
      let showD : Option Bytes → String := fun | some d => hex d | none => "!"
      let model := ["w", hex w, showD (valueToBytes .binary w), showD (valueToBytes .binary (B64.encode true b)),
        if valuesEqual .binary (B64.encode true b) w then "1" else "0"]
      let vd := match obs with
        | [_, ow, d1, d2, eq] =>
          match unhex ow with
          | some ow =>
            [("wire-is-base64-of-value", Spec.Metadata.carriesBinary ow b),
             ("emits-unpadded", !ow.contains 61),
             ("restored-from-unpadded", d1 == hex b), ("restored-from-padded", d2 == hex b),
             ("padded-and-unpadded-equal", eq == "1")]
          | none => [("observed-parses", false)]
        | _ => [("observed-parses", false)]
      (join model, verdict vd)
  | ["binw", hw] =>
    match unhex hw with
    | none => bad
    | some w =>
      if !HMap.legalValue w then ("not-a-header-value", "ok") else
      let showD : Option Bytes → String := fun | some d => hex d | none => "!"
      let model := ["d", showD (valueToBytes .binary w), if valueIsEmpty .binary w then "1" else "0"]
      let vd := match obs with
        | [_, d, _] => [("decodes-as-base64-padding-indifferent", d == showD (B64.decode w))]
        | _ => [("observed-parses", false)]
      (join model, verdict vd)
  | ["bineq", ha, hb] =>
    match unhex ha, unhex hb with
    | some a, some b =>
      if !(HMap.legalValue a && HMap.legalValue b) then ("not-a-header-value", "ok") else
      let model := if valuesEqual .binary a b then "1" else "0"
      let vd := match B64.decode a, B64.decode b with
        | some x, some y => [("binary-values-equal-iff-bytes-equal", join obs == (if x == y then "1" else "0"))]
        | _, _ => []
      (model, verdict vd)
    | _, _ => bad
  | ["ascv", hv] =>
    match unhex hv with
    | none => bad
    | some b =>
      let model := match valueFromBytes .ascii b with
        | some w => ["ok", hex w, hex ((valueToBytes .ascii w).getD [])]
        | none => ["err"]
      let expected := if HMap.legalValue b then join ["ok", hex b, hex b] else "err"
      (join model, verdict [("ascii-value-kept-verbatim", join obs == expected)])
  | ["key", e, hk] =>
    match encOfTok e, unhex hk with
    | some enc, some k =>
      let model := match keyFromBytes v enc k with
        | some n => ["ok", hex n]
        | none => ["err"]
      let expected := match HMap.normName k with
        | none => "err"
        | some n => if (enc == Enc.binary) == Spec.Metadata.isBinName n then join ["ok", hex n] else "err"
      (join model, verdict [("key-category-follows-bin-suffix", join obs == expected)])
    | _, _ => bad
  | "acc" :: rest =>
    match HMap.parse rest with
    | some (h, [ks]) =>
      match unhex ks with
      | some ks => handleAcc h ks obs
      | none => bad
    | _ => bad
  | "iter" :: rest =>
    match HMap.parse rest with
    | some (h, []) =>
      let model := iterOutput (iter v h)
      let expected := iterOutput (h.map (fun e => (if Spec.Metadata.isBinName e.1 then Enc.binary else Enc.ascii, e.1, e.2)))
      (join model, verdict [("iterators-present-entries-by-their-bin-suffix", obs == expected)])
    | _ => bad
  | "ops" :: n :: rest =>
    match nat? n with
    | none => bad
    | some n =>
      let rec run : Nat → List String → HMap → List String → Option (HMap × List String)
        | 0, [], m, acc => some (m, acc.reverse)
        | 0, _, _, _ => none
        | k + 1, op :: e :: key :: more, m, acc =>
          match encOfTok e, unhex key with
          | some enc, some key =>
            if op == "rm" then
              let r := remove v enc key m
              run k more r.2 (("removed:" ++ optHex r.1) :: acc)
            else match more with
              | val :: more' =>
                match unhex val with
                | none => none
                | some val =>
                  let r := if op == "ins" then insert v enc key val m
                    else if op == "ent" then entryOrInsert v enc key val m else append v enc key val m
                  let tok := match r.1 with
                    | .keyErr => "keyerr"
                    | .valErr => "valerr"
                    | .prev p => "prev:" ++ optHex p
                    | .existed b => "existed:" ++ (if b then "1" else "0")
                    | .removed p => "removed:" ++ optHex p
                    | .entry w => "entry:" ++ hex w
                  run k more' r.2 (tok :: acc)
              | [] => none
          | _, _ => none
        | _ + 1, _, _, _ => none
      match run n rest [] [] with
      | none => bad
      | some (m, toks) =>
        let model := ("r" :: toks) ++ ("map" :: HMap.render m) ++ ("view" :: renderRows (typedView v m))
        let vd := match splitOn1 "view" obs with
          | some (_, vt) =>
            match parseRows vt with
            | some (rows, []) =>
              [("typed-api-stores-each-entry-in-its-category", rows.all (fun r =>
                  (r.1 == Enc.binary) == Spec.Metadata.isBinName r.2.1 && r.2.2.isSome))]
            | _ => [("observed-parses", false)]
          | none => [("observed-parses", false)]
        (join model, verdict vd)
  | "hmap" :: n :: rest =>
    match nat? n with
    | none => bad
    | some n =>
      let rec runH : Nat → List String → HMap → List String → Option (HMap × List String)
        | 0, [], m, acc => some (m, acc.reverse)
        | 0, _, _, _ => none
        | k + 1, "ins" :: key :: val :: more, m, acc =>
          match unhex key, unhex val with
          | some key, some val => runH k more (HMap.insert key val m) (("prev:" ++ optHex (HMap.get key m)) :: acc)
          | _, _ => none
        | k + 1, "app" :: key :: val :: more, m, acc =>
          match unhex key, unhex val with
          | some key, some val => runH k more (HMap.append key val m) (("existed:" ++ (if HMap.hasKey key m then "1" else "0")) :: acc)
          | _, _ => none
        | k + 1, "rm" :: key :: more, m, acc =>
          match unhex key with
          | some key => runH k more (HMap.remove key m) (("removed:" ++ optHex (HMap.get key m)) :: acc)
          | none => none
        | k + 1, "get" :: key :: more, m, acc =>
          match unhex key with
          | some key =>
            let tok := match HMap.normName key with
              | some nm => "got:" ++ optHex (HMap.get nm m) ++ ":" ++ (if HMap.hasKey nm m then "1" else "0") ++ ":" ++
                  String.intercalate "," ((HMap.getAll nm m).map hex)
              | none => "got:none:0:"
            runH k more m (tok :: acc)
          | none => none
        | k + 1, "ext" :: more, m, acc =>
          match HMap.parse more with
          | some (o, more') => runH k more' (HMap.extend m o) ("extended" :: acc)
          | none => none
        | _ + 1, _, _, _ => none
      match runH n rest [] [] with
      | none => bad
      | some (m, toks) => (join (("r" :: toks) ++ ("map" :: HMap.render m)), "ok")
  | "eops" :: rest =>
    match HMap.parse rest with
    | some (init, n :: more) =>
      match nat? n with
      | some n =>
        match MetaOps.parseOps n more with
        | some (ops, []) => handleEops init ops obs
        | _ => bad
      | none => bad
    | _ => bad
  | ["kctor", e, hk] =>
    match encOfTok e, unhex hk with
    | some enc, some k => handleKctor enc k obs
    | _, _ => bad
  | ["vctor", e, hv] =>
    match encOfTok e, unhex hv with
    | some enc, some raw => handleVctor enc raw obs
    | _, _ => bad
  | ["veq", e, ha, hb, ho] =>
    match encOfTok e, unhex ha, unhex hb, unhex ho with
    | some enc, some a, some b, some o => handleVeq enc a b o obs
    | _, _, _, _ => bad
  | ["ferr", how, depth, "nostatus"] =>
    match nat? depth with
    | some depth => if ["from", "try", "recover"].contains how then handleFerr how depth none obs else bad
    | none => bad
  | "ferr" :: how :: depth :: c :: m :: d :: rest =>
    match nat? depth, nat? c, unhex m, unhex d, parseTyped rest with
    | some depth, some c, some m, some d, some (stmd, []) =>
      if c ≤ 16 && ["from", "try", "recover"].contains how then handleFerr how depth (some (c, m, d, stmd)) obs else bad
    | _, _, _, _, _ => bad
  | "mapi" :: rest =>
    match HMap.parse rest with
    | some (h, []) =>
      -- oracle and model coincide here (counting): entries, distinct names; every hint brackets the
      -- real count; capacity calls and clones change nothing; a cleared map is empty and usable
      let keys := (h.map (·.1)).eraseDups.length
      let reuse : HMap := [(HMap.name "x-a", [49]), (HMap.name "k-bin", Ascii.ofString "AQI")]
      let expected := ["len", toString h.length, "keys", toString keys, "empty", if h.isEmpty then "1" else "0",
        "hints", "1", "cap", "1", "clone", "1", "cleared", "0", "0", "reuse"] ++ renderRows (specView reuse)
      let field (name : String) : Option String := match splitOn1 name obs with | some (_, x :: _) => some x | _ => none
      (join expected, verdict [("len-counts-every-value", field "len" == some (toString h.length)),
        ("keys-len-counts-distinct-names", field "keys" == some (toString keys)),
        ("is-empty-iff-no-entry", field "empty" == some (if h.isEmpty then "1" else "0")),
        ("iterator-size-hints-bracket-the-count", field "hints" == some "1"),
        ("capacity-calls-change-no-entry", field "cap" == some "1"),
        ("clones-are-independent", field "clone" == some "1"),
        ("cleared-map-is-empty-and-usable", obs.dropWhile (· != "cleared") == expected.dropWhile (· != "cleared"))])
    | _ => bad
  | "peer" :: "cli" :: shape :: rest =>
    if !["u", "s"].contains shape then bad else
    match HMap.parse rest with
    | some (h, [n, "0"]) => (match nat? n with | some n => handlePeerCli shape h n none obs | none => bad)
    | some (h, n :: "1" :: more) =>
      (match nat? n, HMap.parse more with
        | some n, some (t, []) => handlePeerCli shape h n (some t) obs
        | _, _ => bad)
    | _ => bad
  | "peer" :: "srv" :: shape :: rest =>
    if !["u", "s"].contains shape then bad else
    match HMap.parse rest with
    | some (h, ["0"]) => handlePeerSrv shape h none obs
    | some (h, "1" :: more) =>
      (match HMap.parse more with
        | some (t, []) => handlePeerSrv shape h (some t) obs
        | none => bad
        | _ => bad)
    | _ => bad
  | "e2x" :: kn :: mode :: c :: m :: d :: rest =>
    match parseKnobs kn, nat? c, unhex m, unhex d, parseTyped rest with
    | some kn, some c, some m, some d, some (req, r1) =>
      match parseTyped r1 with
      | some (resp, r2) =>
        match parseTyped r2 with
        | some (stmd, []) =>
          if c ≤ 16 && ["ok", "err", "sserr", "umix"].contains mode then
            let (mo, vd) := handleE2X kn mode c m d req resp stmd obs
            (if kn.getD 8 0 == 2 then throughWeb mo else mo, vd)
          else bad
        | _ => bad
      | none => bad
    | _, _, _, _, _ => bad
  | "e2e" :: mode :: c :: m :: d :: rest =>
    match nat? c, unhex m, unhex d, parseTyped rest with
    | some c, some m, some d, some (req, r1) =>
      match parseTyped r1 with
      | some (resp, r2) =>
        match parseTyped r2 with
        | some (stmd, []) => if c ≤ 16 then handleE2E mode c m d req resp stmd obs else bad
        | _ => bad
      | none => bad
    | _, _, _, _ => bad
  | _ => bad

end DriverC08
