import Driver.Framing
import Driver.C07
import TonicModel.Model.FramingOps
import TonicModel.Lemmas.FramingEnc
/-
C01 audit (aC01): the case kinds of harness/src/c01_x.rs.

`xenc <X…> <enc|penc case>` and `rdec <R<k>> <dec case>` wrap an ordinary case in a dimension that
must be INVISIBLE (the encoder double's way of writing into its `EncodeBuf`, `tonic::body::Body`
around the body, the body built by `client::Grpc` / `server::Grpc`; the decoder double's way of
reading its `DecodeBuf`): the prediction and the verdict are those of the wrapped case
(`DriverC01.handle` strips the token; here only the token's syntax).
`xdec <F…> <O…> <dec|pdec case>`: a VALID stream through the body flavours and consumers of the C07
audit, judged by C01's clauses.  `rt …`: the real encoder's output re-cut into the real decoder.
-/
namespace DriverC01X
open Proto Framing DriverFraming

/-- `X[.w<k>][.b][.v|.u]` -/
def okEFlavour (s : String) : Bool :=
  match s.splitOn "." with
  | "X" :: parts => parts.all (fun p => p = "b" || p = "v" || p = "u" ||
      (p.startsWith "w" && ((p.drop 1).toString.toNat?.map (fun k => decide (k < 8))).getD false))
  | _ => false

/-- `R<k>` -/
def okRStyle (s : String) : Bool :=
  s.startsWith "R" && (((s.drop 1).toString.toNat?).map (fun k => decide (k < 8))).getD false

/-- the messages a valid stream carries, by the independent splitter and the case's tables; and is it valid -/
def validMsgs (c : DecCase) : List Bytes × Bool :=
  let (frs, left) := Spec.Framing.split (grpcData c)
  let msgs := (frs.filterMap (payloadMsg c.tab)).filterMap (recvOfCase c).de
  (msgs, left.isEmpty && msgs.length == frs.length)

/-- the token of a `trailers()` call that returned `Ok(..)` -/
def okTrailersTok (t : String) : Bool := tokKind t = 'T' && !DriverC07.isErrTok t

def handleXdec (flv ops : String) (rest obs : List String) : String × String :=
  match parseDecCase rest with
  | none => bad
  | some c =>
    if tokKind flv ≠ 'F' then bad else
    let (msgs, valid) := validMsgs c
    let calls := obs.filter (fun t => tokKind t ≠ 'a')
    if ops = "Ou" then
      -- the whole call through `client::Grpc::unary` / `server::Grpc::unary`: a one-message stream
      let u := Dec.unaryCall (tableCodec c.tab c.prost c.ptab) c.cfg (DriverC07.fuelOf c) Dec.init c.evs
      let got : Option Bytes := match calls with
        | [t] => (match t.splitOn ":" with
                  | [_, r] => if tokKind r = 'm' then unhexBare (r.drop 1).toString else none
                  | _ => none)
        | _ => none
      (String.intercalate " " [DriverC07.unTok c.prost u, "a0"],
       verdict [("no-panic", !obs.any isBad), ("no-lost-wakeup", noLostWakeup obs),
                ("case-is-valid-stream", valid && msgs.length == 1),
                ("call-returns-the-message", calls.length == 1 && got.isSome && got == msgs.head?)])
    else
    match DriverC07.parseOps ops with
    | none => bad
    | some ops =>
      let rest := (calls.filter (fun t => t ≠ "p" && tokKind t ≠ 'm'))
      (DriverC07.runX c ops,
       verdict [("no-panic", !obs.any isBad), ("no-lost-wakeup", noLostWakeup obs),
                ("case-is-valid-stream", valid),
                ("every-call-completes", calls.length == ops.length),
                ("messages-in-order", obsMsgs obs == msgs),
                ("then-clean-end", !rest.isEmpty && rest.all (fun t => t = "n" || okTrailersTok t) &&
                    ((calls.filter (fun t => t ≠ "p")).drop msgs.length).all (fun t => tokKind t ≠ 'm'))])

/-- the trailing run of `n` tokens written once -/
def collapseEnd (toks : List String) : List String :=
  let r := toks.reverse
  let k := (r.takeWhile (· == "n")).length
  if k ≥ 2 then (r.drop (k - 1)).reverse else toks

/-- `rt <c|s> <enc> <i|d> <yieldThr> <bufEnc> <bufDec> <cutSeed> Z … EV <source events>`.
Prediction: the model encoder's bytes (`W…`), then the model decoder run on those bytes as ONE chunk
— by `C01_decode_any_chunking` the non-`Pending` results are the same for every way of cutting
them, which is how the harness's own cut positions (drawn from `<cutSeed>`) stay out of the case.
Verdict: the property as stated — the bytes are the spec framing of the source's messages, and the
decoder yields exactly those messages, in order, then a clean end. -/
def handleRt (case obs : List String) : String × String :=
  match case with
  | "rt" :: role :: comp :: ovr :: y :: bufE :: bufD :: seed :: rest =>
    match parseEncCase ("enc" :: role :: comp :: ovr :: y :: bufE :: "none" :: toString (2 * rest.length + 8) :: rest),
          nat? bufD, nat? seed with
    | some c, some _, some _ =>
      let wire := dataConcat (Enc.run (encCodec c.tab) c.cfg c.npolls Enc.init c.evs)
      let items := itemsOf c.evs
      let dcfg : DecCfg := { enc := c.comp, maxSize := none, dir := if role = "s" then .response 200 else .request }
      let devs : List BodyEv := [.data wire] ++ (if role = "s" then [.trailers (some 0)] else [])
      let res := (Dec.run (tableCodec c.tab) dcfg (items.length + 5) Dec.init devs).filter (fun | .pending => false | _ => true)
      let model := ("W" ++ hexBare wire) :: collapseEnd (res.map (itemTok false))
      let flag : UInt8 := if c.cfg.comp.isSome then 1 else 0
      let expected : List (UInt8 × Bytes) := items.map (fun it =>
        (flag, if c.cfg.comp.isSome then (tableCodec c.tab).cz .gzip it else it))
      let w : Option Bytes := match obs with
        | t :: _ => if tokKind t = 'W' then unhexBare (t.drop 1).toString else none
        | [] => none
      let after := (obs.drop 1).drop items.length
      (String.intercalate " " model,
       verdict [("no-panic", !obs.any isBad), ("no-lost-wakeup", noLostWakeup obs),
                ("bytes-are-spec-framing-of-messages", match w with | some w => eqFrames [w] expected | none => false),
                ("messages-in-order", obsMsgs (obs.drop 1) == items && ((obs.drop 1).take items.length).all (fun t => tokKind t = 'm')),
                ("then-clean-end", after == ["n"])])
    | _, _, _ => bad
  | _ => bad

end DriverC01X
