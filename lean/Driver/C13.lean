import Driver.Proto
import TonicModel.Model.Shutdown
import TonicModel.Model.ShutdownBurst
import TonicModel.Spec.Shutdown
/-
C13 driver.  A case is a scenario script (see harness/src/c13.rs for the grammar); the model side
executes it on `Shutdown.step` — environment labels for the script's operations, then the internal
labels to quiescence (`settle`) wherever the harness lets the runtime go idle.  Time = number of
quiescent points passed.  Where the script leaves two operations without a quiescent point between
them (`~k`), the transition system is genuinely nondeterministic (was the connection taken / the
stream accepted before the next operation hit?): those choices — and only those — are resolved by
what was observed (`Oracle`), everything else is predicted.

Virtual time (whole seconds) passes at `W<secs>` / `T` steps only: every connection accepted at
least `max_connection_age` ago gets its `ageTick`, every call whose handler was invoked at least
`Server::timeout` (`t<secs>` in the case's configuration) ago its `deadlineTick`; `expire` is then
one of the server's own steps (tried after `produce`: `GrpcTimeout` polls the handler first).

A burst `K<n>[:<j>]` is `n` offers at one instant; with `:<j>` the harness's `incoming` stream fires
the shutdown signal at the very instant it hands the j-th connection of the burst to the accept
loop, so the model side executes the schedule `Shutdown.burstLabels`: the offers, the accept loop
handed the queued connections in order up to that one, then `sigFire` - and what happens to the rest
of the backlog is the model's prediction (no oracle is involved in a quiescent burst step).

The verdict is computed from the script and the observation alone, with `Spec.Shutdown`; whether a
call's true outcome is the server's "Timeout expired" (`CallView.timedOut`) is decided from the time
steps between the call's issue and the release of its first handler phase.
-/
namespace DriverC13
open Proto Shutdown

inductive Op where
  | conn | connStalled | connBad | hello (c : Nat)
  /-- `n` connections ready on `incoming` at the same instant; `j > 0`: the shutdown signal fires
  when the j-th of them is handed to the accept loop -/
  | burst (n j : Nat)
  | unary (c s : Nat) | stream (c n s : Nat)
  | cstream (c m s : Nat) | bidi (c m n s : Nat) | reqMsg (k : Nat)
  | adv (k : Nat) | sig | endInc | accErr
  | dropConn (c : Nat) | cancel (k : Nat) | wait (secs : Nat)
deriving Repr

/-- `max_connection_age` the harness configures in `a1` scripts, in seconds -/
def ageLimit : Nat := 3600

structure Step where
  op : Op
  settled : Bool

def natOf (cs : List Char) : Option Nat := (String.ofList cs).toNat?

def splitColon (cs : List Char) : List (List Char) :=
  ((String.ofList cs).splitOn ":").map (·.toList)

def parseOp (body : List Char) : Option Op :=
  match body with
  | ['C'] => some .conn
  | ['H'] => some .connStalled
  | ['H', 'b'] => some .connBad
  | 'h' :: rest => (natOf rest).map .hello
  | 'K' :: rest =>
    match splitColon rest with
    | [n] => do
      let n ← natOf n
      if n = 0 ∨ n > 8 then none else some (.burst n 0)
    | [n, j] => do
      let n ← natOf n
      let j ← natOf j
      if n = 0 ∨ n > 8 ∨ j = 0 ∨ j > n then none else some (.burst n j)
    | _ => none
  | ['G'] => some .sig
  | ['E'] => some .endInc
  | ['T'] => some (.wait ageLimit)
  | 'W' :: rest => (natOf rest).map .wait
  | ['I', 'r'] => some .accErr
  | ['I', 'o'] => some .accErr
  | 'U' :: rest =>
    match splitColon rest with
    | [c, s] => do some (.unary (← natOf c) (← natOf s))
    | _ => none
  | 'S' :: rest =>
    match splitColon rest with
    | [c, n, s] => do some (.stream (← natOf c) (← natOf n) (← natOf s))
    | _ => none
  | 'Q' :: rest =>
    match splitColon rest with
    | [c, m, s] => do some (.cstream (← natOf c) (← natOf m) (← natOf s))
    | _ => none
  | 'B' :: rest =>
    match splitColon rest with
    | [c, m, n, s] => do some (.bidi (← natOf c) (← natOf m) (← natOf n) (← natOf s))
    | _ => none
  | 'M' :: rest => (natOf rest).map .reqMsg
  | 'A' :: rest => (natOf rest).map .adv
  | 'D' :: rest => (natOf rest).map .dropConn
  | 'X' :: rest => (natOf rest).map .cancel
  | _ => none

def parseStep (tok : String) : Option Step :=
  match tok.splitOn "~" with
  | [b] => (parseOp b.toList).map fun op => { op := op, settled := true }
  | [b, y] => match y.toNat? with
    | some _ => (parseOp b.toList).map fun op => { op := op, settled := false }
    | none => none
  | _ => none

structure Script where
  graceful : Bool
  age : Bool
  /-- `Server::timeout`, seconds.  (The `k<secs>` keepalive and `l<n>` limit settings of a case
  are parsed and ignored: HTTP/2 and TCP keepalive against a live peer, and a concurrency / stream
  limit above the number of calls, are predicted to be invisible.) -/
  timeout : Option Nat := none
  steps : List Step
  /-- loopback TCP through `serve_with_shutdown(addr, signal)` / `serve(addr)`: connections are
  observed from their client ends, the open count at resolution is not observable -/
  tcp : Bool := false
  /-- the server has a TLS acceptor (`Server::tls_config`): connections go through
  `ServerIoStream`'s handshake set before the accept loop sees them -/
  tls : Bool := false
  /-- `z<1|2|3>`: a sibling server built from the same `Server` builder value runs next to the
  server under test (harness/src/c13_x.rs).  Servers built from one builder share nothing
  (`C13_sibling_servers_independent`): the script is executed on the model of a lone server, and the
  sibling - whose signal never fires - is predicted to keep its call, to keep accepting and not to
  resolve.  (`x<bits>`: `accept_http1`, `trace_fn`, `Server::layer(pass-through interceptor)` are
  parsed and ignored like `k` and `l`: predicted to be invisible.) -/
  sibling : Bool := false

/-- an optional configuration token `<letter><digits>` at the head of `rest` -/
def optTok (letter : Char) (rest : List String) : Option Nat × List String :=
  match rest with
  | tok :: more =>
    match tok.toList with
    | ch :: ds =>
      if ch == letter && !ds.isEmpty && ds.all Char.isDigit then
        (natOf ds, more)
      else (none, rest)
    | [] => (none, rest)
  | [] => (none, rest)

def parseScript (case : List String) : Option Script :=
  match case with
  | tag :: m :: _b :: _p :: a :: rest0 =>
    if !tag.startsWith "sc" then none else
    -- optional configuration tokens, in this order: t<secs> k<secs> l<n>
    let (tmo, rest1) := optTok 't' rest0
    let (_ka, rest2) := optTok 'k' rest1
    let (_lim, rest3) := optTok 'l' rest2
    let (_extra, rest4) := optTok 'x' rest3
    let (sib, rest) := optTok 'z' rest4
    if sib == some 0 then none else
    if tmo == some 0 then none else
    let g := match m with
      | "g" => some (true, false, false) | "n" => some (false, false, false)
      | "t" => some (true, true, false) | "u" => some (false, true, false)
      | "gs" => some (true, false, true)
      | _ => none
    let ag := match a with | "a0" => some false | "a1" => some true | _ => none
    match g, ag, rest.mapM parseStep with
    | some (g, tcp, tls), some ag, some steps =>
      -- a TcpIncoming cannot be ended or made to fail from outside, and the TCP variant has no
      -- non-quiescent steps
      if tcp && steps.any (fun st => !st.settled || (match st.op with
          | .endInc | .accErr => true | _ => false)) then none
      -- stalled / non-TLS clients only make sense against a TLS server
      else if !tls && steps.any (fun st => match st.op with
          | .connStalled | .connBad | .hello _ => true | _ => false) then none
      -- bursts: in-memory plain connections only; a burst wired to the signal needs a signal
      else if (tcp || tls) && steps.any (fun st => match st.op with
          | .burst _ _ => true | _ => false) then none
      else if !g && steps.any (fun st => match st.op with
          | .burst _ j => j != 0 | _ => false) then none
      else some { graceful := g, age := ag, timeout := tmo, steps := steps, tcp := tcp, tls := tls,
                  sibling := sib.isSome }
    | _, _, _ => none
  | _ => none

-- ------------------------------------------------------------------ observation

structure ConnObs where
  accepted : Bool
  closedAt : Option Nat
deriving Repr

structure CallObs where
  started : Bool
  hdr : Option Bool      -- none = not received, some false = wrong
  msgs : Option Nat      -- none = a wrong message was seen
  fin : Option (Nat × Bool)  -- status code, message text as sent
  expired : Bool := false    -- the status is the server's CANCELLED "Timeout expired"
  ns : Bool
  doneAt : Option Nat
deriving Repr

structure Obs where
  resolvedAt : Option Nat
  openAtResolve : Nat
  conns : List ConnObs
  calls : List CallObs
  /-- the sibling server's token (`z:…`), if the case has one -/
  sibling : Option String := none
  /-- the server polled its `incoming` stream again after the stream had ended -/
  repolled : Bool := false
  /-- after the serve future had resolved the server still held a connection it had taken from `incoming` but
  never accepted (a TLS handshake still in flight - seed C13g) -/
  held : Bool := false
deriving Repr

def idx? (s : String) : Option (Option Nat) := if s = "-" then some none else s.toNat?.map some

def parseObs (obs : List String) : Option Obs :=
  match obs with
  | r :: rest0 =>
    let sibTok := rest0.find? (·.startsWith "z:")
    let repolled := rest0.contains "repoll"
    let held := rest0.contains "held"
    let rest := rest0.filter fun t => !(t.startsWith "z:") && t != "repoll" && t != "held"
    match (r.drop 1).toString.splitOn ":" with
    | [ra, op, _] =>
      let resolvedAt := (idx? ra).getD none
      let openAt := op.toNat?.getD 0
      let go := rest.foldl (fun (acc : Option (List ConnObs × List CallObs)) tok =>
        match acc with
        | none => none
        | some (cs, ks) =>
          match tok.toList with
          | 'c' :: _ =>
            match tok.splitOn ":" with
            | [_, a, cl] => match idx? cl with
              | some cl => some (cs ++ [{ accepted := a == "1", closedAt := cl }], ks)
              | none => none
            | _ => none
          | 'k' :: _ =>
            match tok.splitOn ":" with
            | [_, st, h, m, f, d] =>
              let hdr := if h = "0" then none else some (h == "1")
              let fin : Option (Nat × Bool) :=
                if f = "-" ∨ f = "ns" ∨ f = "s1T" then none
                else
                  let body := (f.drop 1).toString
                  let good := !body.endsWith "!"
                  let digits := String.ofList (body.toList.filter Char.isDigit)
                  digits.toNat?.map fun c => (c, good)
              match idx? d with
              | some d => some (cs, ks ++ [{ started := st == "1", hdr := hdr, msgs := m.toNat?,
                                             fin := fin, expired := f == "s1T", ns := f == "ns",
                                             doneAt := d }])
              | none => none
            | _ => none
          | _ => none) (some ([], []))
      match go with
      | some (cs, ks) => some { resolvedAt := resolvedAt, openAtResolve := openAt, conns := cs, calls := ks,
                                sibling := sibTok, repolled := repolled, held := held }
      | none => none
    | _ => none
  | [] => none

-- ------------------------------------------------------------------ model execution

def unaryChunks (s : Nat) : List (List Item) :=
  if s = 0 then [[.hdr, .msg 0, .status 0]] else [[.status s]]

def streamChunks (n s : Nat) : List (List Item) :=
  [[Item.hdr]] ++ (List.range n).map (fun j => [Item.msg j]) ++ [[Item.status s]]

structure Sim where
  st : State
  t : Nat
  closedAt : List (Option Nat)
  doneAt : List (Option Nat)
  resolvedAt : Option Nat
  callMap : List (Nat × Nat)     -- call id → (connection, index within the connection)
  accW : List Bool               -- oracle: was connection c accepted
  startW : List Bool             -- oracle: was call k started
  tls : Bool := false            -- the server is configured with TLS
  now : Nat := 0                 -- virtual clock, whole seconds
  accAt : List (Option Nat) := []  -- virtual time at which connection c was accepted
  startAt : List (Option Nat) := []  -- virtual time at which the handler of call k was invoked
  timeout : Option Nat := none     -- `Server::timeout`, seconds

def Sim.apply (m : Sim) (l : Label) : Sim :=
  match step m.st l with
  | some s' => { m with st := s' }
  | none => m

def Sim.gid (m : Sim) (c j : Nat) : Nat := (m.callMap.findIdx? (· == (c, j))).getD 0

def Sim.wantAcc (m : Sim) (c : Nat) : Bool := m.accW.getD c true
def Sim.wantStart (m : Sim) (c j : Nat) : Bool := m.startW.getD (m.gid c j) true

def connIdx (s : State) : List Nat := List.range s.conns.length

def callIdx (s : State) : List (Nat × Nat) :=
  (connIdx s).flatMap fun c =>
    match s.conns[c]? with
    | some cn => (List.range cn.calls.length).map fun j => (c, j)
    | none => []

/-- steps whose outcome a later operation could still pre-empt -/
def Sim.eager (m : Sim) : List Label :=
  (connIdx m.st).map Label.tlsTake ++ (connIdx m.st).map Label.tlsDone
  ++ ((connIdx m.st).filter m.wantAcc).map Label.loopAccept
  ++ (connIdx m.st).map Label.hsDone
  ++ ((callIdx m.st).filter fun cj => m.wantStart cj.1 cj.2).map fun cj => Label.callStart cj.1 cj.2

def Sim.candidates (m : Sim) : List Label :=
  m.eager
  ++ (callIdx m.st).map (fun cj => Label.produce cj.1 cj.2)
  ++ (callIdx m.st).map (fun cj => Label.deliver cj.1 cj.2)
  -- `GrpcTimeout` polls the handler's future first: `expire` only when `produce` is not enabled
  ++ (callIdx m.st).map (fun cj => Label.expire cj.1 cj.2)
  ++ (connIdx m.st).map Label.tlsFail
  ++ [Label.loopSig, Label.loopErr, Label.loopEnd, Label.afterLoop]
  ++ (connIdx m.st).flatMap (fun c =>
        [Label.connSig c, Label.connAge c, Label.final c, Label.connBreak c, Label.connDropWatcher c])
  ++ [Label.resolve]
  ++ (connIdx m.st).map Label.loopAccept
  ++ (callIdx m.st).map (fun cj => Label.callStart cj.1 cj.2)

def firstEnabled (s : State) : List Label → Option State
  | [] => none
  | l :: ls => match step s l with
    | some s' => some s'
    | none => firstEnabled s ls

def Sim.runEager : Nat → Sim → Sim
  | 0, m => m
  | fuel + 1, m => match firstEnabled m.st m.eager with
    | some s' => Sim.runEager fuel { m with st := s' }
    | none => m

def Sim.runAll : Nat → Sim → Sim
  | 0, m => m
  | fuel + 1, m => match firstEnabled m.st m.candidates with
    | some s' => Sim.runAll fuel { m with st := s' }
    | none => m

def stamp (t : Nat) (old : List (Option Nat)) (now : List Bool) : List (Option Nat) :=
  (now.zipIdx).map fun (b, i) =>
    match old.getD i none with
    | some x => some x
    | none => if b then some t else none

def Sim.callDone (m : Sim) (cj : Nat × Nat) : Bool :=
  match m.st.conns[cj.1]? with
  | some cn => match cn.calls[cj.2]? with
    | some k => k.started && k.complete
    | none => false
  | none => false

def Sim.callStarted (m : Sim) (cj : Nat × Nat) : Bool :=
  match m.st.conns[cj.1]? with
  | some cn => match cn.calls[cj.2]? with
    | some k => k.started
    | none => false
  | none => false

def Sim.record (m : Sim) : Sim :=
  { m with
    startAt := stamp m.now m.startAt (m.callMap.map m.callStarted)
    closedAt := stamp m.t m.closedAt (m.st.conns.map fun cn => cn.closed)
    accAt := stamp m.now m.accAt (m.st.conns.map fun cn => cn.accepted)
    doneAt := stamp m.t m.doneAt (m.callMap.map m.callDone)
    resolvedAt := match m.resolvedAt with
      | some r => some r
      | none => if m.st.resolved then some m.t else none }

def fuelOf (m : Sim) : Nat := 200 + 40 * m.st.conns.length + 40 * m.callMap.length

def Sim.settle (m : Sim) : Sim :=
  let m := (m.runAll (4 * fuelOf m + 4000)).record
  { m with t := m.t + 1 }

def Sim.issue (m : Sim) (c : Nat) (chunks : List (List Item)) (req : Nat := 0) : Sim :=
  let j := match m.st.conns[c]? with | some cn => cn.calls.length | none => 0
  let m := m.apply (.issue c chunks req)
  { m with callMap := m.callMap ++ [(c, j)] }

def Sim.doOp (m : Sim) : Op → Sim
  | .conn => if m.tls then m.apply (.offerTls true false) else m.apply .offer
  | .burst n j =>
    let base := m.st.conns.length
    -- all n are queued before the server runs again
    let m := (burstOffers n).foldl Sim.apply m
    if j == 0 then m else
    -- `incoming` hands its queue to the accept loop in order: whatever is still queued ahead of
    -- the burst (only possible after a non-quiescent step), then the first j of the burst …
    let m := ((List.range base).filter m.wantAcc).foldl (fun m c => m.apply (.loopAccept c)) m
    let m := ((burstAccepts base j).filter fun l => match l with
      | .loopAccept c => m.wantAcc c | _ => true).foldl Sim.apply m
    -- … and the hand-over of the j-th is what fires the signal (no hand-over, no signal)
    match m.st.conns[base + j - 1]? with
    | some cn => if cn.accepted then m.apply .sigFire else m
    | none => m
  | .connStalled => m.apply (.offerTls false false)
  | .connBad => m.apply (.offerTls false true)
  | .hello c => m.apply (.clientHello c)
  | .unary c s => m.issue c (unaryChunks s)
  | .stream c n s => m.issue c (streamChunks n s)
  -- client-streaming: the answer is unary-shaped, produced once the request stream is complete
  | .cstream c r s => m.issue c (unaryChunks s) r
  -- bidi: the answer is stream-shaped; its status waits for the end of the request stream
  | .bidi c r n s => m.issue c (streamChunks n s) r
  | .reqMsg k => match m.callMap[k]? with
    | some (c, j) => m.apply (.reqSend c j)
    | none => m
  | .adv k => match m.callMap[k]? with
    | some (c, j) => m.apply (.permit c j)
    | none => m
  | .sig => m.apply .sigFire
  | .endInc => m.apply .endIncoming
  | .accErr => m.apply .acceptErr
  | .dropConn c => m.apply (.peerDrop c)
  | .cancel k => match m.callMap[k]? with
    | some (c, j) => m.apply (.cancel c j)
    | none => m
  | .wait d =>
    -- virtual time passes: the age timer of every connection accepted at least `ageLimit`
    -- seconds ago has elapsed (no-op unless `max_connection_age` is configured)
    let m := { m with now := m.now + d }
    let m := (connIdx m.st).foldl (fun m c =>
      match m.accAt.getD c none with
      | some t => if m.now - t ≥ ageLimit then m.apply (.ageTick c) else m
      | none => m) m
    -- … and the `GrpcTimeout` sleep of every call whose handler was invoked at least
    -- `Server::timeout` seconds ago (no-op unless a timeout is configured)
    match m.timeout with
    | none => m
    | some lim =>
      (m.callMap.zipIdx).foldl (fun m (cj, i) =>
        match m.startAt.getD i none with
        | some t => if m.now - t ≥ lim then m.apply (.deadlineTick cj.1 cj.2) else m
        | none => m) m

def Sim.doStep (m : Sim) (st : Step) : Sim :=
  let m := m.doOp st.op
  if st.settled then m.settle else (m.runEager (fuelOf m)).record

def simulate (sc : Script) (biased : Bool) (accW startW : List Bool) : Sim :=
  let m0 : Sim := { st := init sc.graceful biased sc.age sc.timeout.isSome, t := 0, closedAt := [],
                    doneAt := [], resolvedAt := none, callMap := [], accW := accW, startW := startW,
                    tls := sc.tls, timeout := sc.timeout }
  let m := sc.steps.foldl Sim.doStep m0
  -- drain: every client completes its request stream, every handler runs freely
  let m := m.callMap.foldl (fun m cj =>
    let left := match m.st.conns[cj.1]? with
      | some cn => match cn.calls[cj.2]? with | some k => k.reqLeft | none => 0
      | none => 0
    (List.range left).foldl (fun m _ => m.apply (.reqSend cj.1 cj.2)) m) m
  let m := (m.apply .freeRun).settle
  -- every client goes away
  let m := (connIdx m.st).foldl (fun m c => m.apply (.peerDrop c)) m
  m.settle

def showIdx : Option Nat → String
  | some n => toString n
  | none => "-"

/-- what the sibling server of a `z` case must show: not resolved; its first connection accepted,
its server-streaming call (one message, OK) complete; the connection offered after the script
accepted, the unary call on it complete -/
def siblingExpected : String := "z:0:1:1:1:s0:1:1:1:s0"

def render (m : Sim) (tcp : Bool := false) (sibling : Bool := false) : String :=
  let r := match m.resolvedAt with
    | some t => if m.st.cfgGraceful && !tcp then s!"R{t}:{m.st.openAtResolve}:ok" else s!"R{t}:*:ok"
    | none => "R-:-:-"
  let cs := (m.st.conns.zipIdx).map fun (cn, i) =>
    s!"c{i}:{if cn.accepted then 1 else 0}:{showIdx (m.closedAt.getD i none)}"
  let ks := (m.callMap.zipIdx).map fun (cj, i) =>
    match m.st.conns[cj.1]? with
    | some cn => match cn.calls[cj.2]? with
      | some k =>
        if !k.started then s!"k{i}:0:0:0:ns:-"
        else
          let got := k.sent.take k.recv
          let hdr := if got.contains .hdr then 1 else 0
          let n := got.countP fun it => match it with | .msg _ => true | _ => false
          let fin := match got.findSome? fun it => match it with
              | .status c => some s!"s{c}" | .expired => some "s1T" | _ => none with
            | some f => f
            | none => "-"
          let done := if fin == "-" then none else m.doneAt.getD i none
          s!"k{i}:1:{hdr}:{n}:{fin}:{showIdx done}"
      | none => "k?"
    | none => "k?"
  String.intercalate " " (r :: cs ++ ks ++ (if sibling then [siblingExpected] else []))

-- ------------------------------------------------------------------ spec verdict (script + observation only)

open Spec.Shutdown in
def gotOf (k : CallObs) : List Out :=
  (match k.hdr with | none => [] | some true => [Out.hdr] | some false => [Out.status 999999])
  ++ (match k.msgs with | some n => msgs 0 n | none => [Out.status 999998])
  ++ (match k.fin with | none => [] | some (c, true) => [Out.status c] | some (_, false) => [Out.status 999997])
  ++ (if k.expired then [Out.expired] else [])

/-- The property's clauses for the SIBLING server of a `z` case, from its token alone: its signal
never fired, so (no-spurious-resolve) it has not resolved; both connections were offered to a
running server and are accepted; both calls were issued on them, their handlers were released, and
the callers hold the full, true outcome (a server stream of one message ending OK; a unary OK). -/
def siblingVerdict (tok : String) : Bool :=
  let callOf (h m f : String) : CallObs :=
    { started := true, hdr := if h = "0" then none else some (h == "1"), msgs := m.toNat?,
      fin := if f = "s0" then some (0, true) else if f = "-" then none else some (999, false),
      ns := false, doneAt := none }
  match tok.splitOn ":" with
  | [_, r, a0, h0, m0, f0, a1, h1, m1, f1] =>
    let views : List Spec.Shutdown.CallView :=
      [{ plan := Spec.Shutdown.planStream 1 0, got := gotOf (callOf h0 m0 f0), started := true, abandoned := false },
       { plan := Spec.Shutdown.planUnary 0, got := gotOf (callOf h1 m1 f1), started := true, abandoned := false }]
    Spec.Shutdown.noSpuriousResolve false (r != "0")
      && a0 == "1" && a1 == "1"
      && Spec.Shutdown.truthful views && Spec.Shutdown.acceptedCallsComplete views
  | _ => false

/-- group number of every step: steps not separated by a quiescent point share a group -/
def groups (steps : List Step) : List Nat :=
  (steps.foldl (fun (acc : List Nat × Nat) st => (acc.1 ++ [acc.2], if st.settled then acc.2 + 1 else acc.2))
    ([], 0)).1

def isShutdownOp : Op → Bool
  | .sig | .endInc => true
  -- a burst wired to the signal fires it
  | .burst _ j => j != 0
  | _ => false

/-- the step fires the shutdown signal (by `G`, or by the hand-over of a burst's j-th connection) -/
def firesSignal : Op → Bool
  | .sig => true
  | .burst _ j => j != 0
  | _ => false

structure ConnInfo where
  /-- the signal had fired before `incoming` could hand this connection to the accept loop: it was
  offered after the signal, or it was queued behind the connection whose hand-over fired it -/
  afterSignal : Bool
  mustAccept : Bool
  group : Nat

structure CallInfo where
  conn : Nat
  plan : List Spec.Shutdown.Out
  abandoned : Bool
  mustStart : Bool
  /-- a request timeout is configured and at least that much time passes in the script between
  the step that issues the call and the step that lets its handler produce the response head -/
  deadlinePassed : Bool := false

def analyse (sc : Script) : List ConnInfo × List CallInfo :=
  let gs := groups sc.steps
  let sg := sc.steps.zip gs
  -- first group containing a shutdown request / a signal position in script order
  let firstShutdownGroup : Option Nat := (sg.find? fun x => isShutdownOp x.1.op).map (·.2)
  let quietUpTo (g : Nat) : Bool := match firstShutdownGroup with | some h => g < h | none => true
  let idxd := sg.zipIdx
  -- index of the first step that asks for shutdown
  let firstShutdownIdx : Option Nat := (idxd.find? fun x => isShutdownOp x.1.1.op).map (·.2)
  let conns : List ConnInfo := idxd.flatMap fun ((st, g), i) =>
    let afterSig := (sc.steps.take i).any fun s => firesSignal s.op
    match st.op with
    | .conn => [{ afterSignal := afterSig, mustAccept := quietUpTo g, group := g }]
    -- a client that does not (yet) complete a TLS handshake need not be accepted
    | .connStalled | .connBad => [{ afterSignal := afterSig, mustAccept := false, group := g }]
    | .burst n j =>
      -- the first j connections of a burst wired to the signal are handed over BEFORE the signal
      -- (they are served like any connection offered to a running server, provided nothing else
      -- asks for shutdown at the same instant); the others are queued behind the one whose
      -- hand-over fires the signal: by the time `incoming` could hand them over the signal is ready
      let alone := firstShutdownIdx == some i
        && !(idxd.any fun ((s', g'), i') => g' == g && i' != i && isShutdownOp s'.op)
      (List.range n).map fun b =>
        { afterSignal := afterSig || (j != 0 && b ≥ j),
          mustAccept := quietUpTo g || (alone && b < j), group := g }
    | _ => []
  -- virtual time (whole seconds) that has passed before step i
  let timeBefore (i : Nat) : Nat := ((sc.steps.take i).filterMap fun s =>
    match s.op with | .wait d => some d | _ => none).foldl (· + ·) 0
  -- index of the step that lets the handler of call k (issued at step i) produce its response
  -- head: its first release (`A k`); a client-streaming handler answers (its only phase) after
  -- the `r` request messages as well.  The drain after the script releases everything.
  let headStep (i k r : Nat) : Nat :=
    let go := (sc.steps.zipIdx).foldl (fun (acc : Nat × Nat × Option Nat) (st, i') =>
      match acc with
      | (_, _, some _) => acc
      | (a, m, none) =>
        if i' ≤ i then acc else
        let a' := match st.op with | .adv k' => if k' == k then a + 1 else a | _ => a
        let m' := match st.op with | .reqMsg k' => if k' == k then m + 1 else m | _ => m
        (a', m', if a' ≥ 1 && m' ≥ r then some i' else none)) (0, 0, none)
    go.2.2.getD sc.steps.length
  let callOps : List (Nat × Nat × Nat × List Spec.Shutdown.Out) := idxd.filterMap fun ((st, g), i) =>
    match st.op with
    | .unary c s => some (i, g, c, Spec.Shutdown.planUnary s)
    | .stream c n s => some (i, g, c, Spec.Shutdown.planStream n s)
    | .cstream c _ s => some (i, g, c, Spec.Shutdown.planClientStream s)
    | .bidi c _ n s => some (i, g, c, Spec.Shutdown.planBidi n s)
    | _ => none
  let calls : List CallInfo := (callOps.zipIdx).map fun ((i, g, c, plan), k) =>
    let droppedEver := sc.steps.any fun s => match s.op with
      | .dropConn c' => c' == c | .cancel k' => k' == k | _ => false
    -- anything before the call became quiescent that could have turned the connection away
    let waited := (sg.filterMap fun (s, g') =>
      match s.op with | .wait d => if g' ≤ g then some d else none | _ => none).foldl (· + ·) 0
    let disturbed := (sc.age && waited ≥ ageLimit) || (sg.zipIdx).any fun ((s, g'), i') =>
      g' ≤ g && (isShutdownOp s.op || (match s.op with
        | .dropConn c' => c' == c && i' < i
        | _ => false))
    let connOk := match conns[c]? with | some ci => ci.mustAccept | none => false
    -- request messages the response head waits for (client-streaming only)
    let r := match sc.steps[i]? with
      | some st => (match st.op with | .cstream _ r _ => r | _ => 0)
      | none => 0
    let passed := match sc.timeout with
      | some d => timeBefore (headStep i k r) - timeBefore i ≥ d
      | none => false
    { conn := c, plan := plan, abandoned := droppedEver, mustStart := connOk && !disturbed,
      deadlinePassed := passed }
  (conns, calls)

open Spec.Shutdown in
def verdictOf (sc : Script) (o : Obs) : String :=
  let (cis, kis) := analyse sc
  if cis.length ≠ o.conns.length ∨ kis.length ≠ o.calls.length then "fail:shape" else
  let shutdownRequested := sc.steps.any fun s => isShutdownOp s.op
  let nGroups := (groups sc.steps).foldl max 0 + (if sc.steps.any (·.settled) then 0 else 0)
  let _ := nGroups
  -- time of the drain point = number of quiescent points in the script
  let tDrain := (sc.steps.filter (·.settled)).length
  let connViews (closedBy : Option Nat) : List ConnView := (cis.zip o.conns).map fun (ci, co) =>
    { offeredAfterSignal := ci.afterSignal, accepted := co.accepted,
      closed := match co.closedAt, closedBy with
        | some x, some r => x ≤ r
        | some _, none => true
        | none, _ => false }
  let callViews (doneBy : Option Nat) : List CallView := (kis.zip o.calls).map fun (ki, ko) =>
    let inTime := match doneBy with
      | none => true
      | some r => match ko.doneAt with | some d => d ≤ r | none => false
    -- the true outcome is the server's "Timeout expired" iff the configured timeout ran out before
    -- the response head: decided by the script alone for a call that must have started when it
    -- was issued; where the call may have started later than that (racy steps, a stalled TLS
    -- client, a connection already told to shut down) either outcome is accepted
    { plan := ki.plan, got := if inTime then gotOf ko else [], started := ko.started,
      abandoned := ki.abandoned,
      timedOut := ki.deadlinePassed && (ki.mustStart || ko.expired) }
  let finalCalls := callViews none
  let served := (cis.zip o.conns).all (fun (ci, co) => !ci.mustAccept || co.accepted)
             && (kis.zip o.calls).all (fun (ki, ko) => !ki.mustStart || ko.started)
  let base : List (String × Bool) :=
    [("truthful-outcome", truthful finalCalls),
     ("accepted-call-completes", acceptedCallsComplete finalCalls),
     ("served-before-shutdown", served),
     -- a sibling server built from the same builder is not affected by anything the script does
     ("sibling-unaffected", !sc.sibling || (match o.sibling with
        | some tok => siblingVerdict tok | none => false)),
     -- a `Stream` that has yielded `None` is not polled again
     ("incoming-not-polled-after-end", !o.repolled),
     -- "resolves only after all connections have closed" covers connections still in their TLS handshake too
     ("no-connection-held-after-resolve", !o.held)]
  let shut : List (String × Bool) :=
    if sc.graceful then
      [("no-accept-after-signal", noAcceptAfterSignal (connViews none)),
       ("resolve-only-after-close",
          match o.resolvedAt with
          | some r => o.openAtResolve == 0
                      && resolvedOnlyAfterClose true (connViews (some r)) (callViews (some r))
          | none => true),
       ("resolves-once-closed",
          resolvesOnceClosed shutdownRequested
            (match o.resolvedAt with | some r => r ≤ tDrain | none => false)
            (connViews (some tDrain))),
       -- at the drain point every handler has been released and has had a quiescent point to finish
       ("shutdown-completes",
          shutdownCompletes shutdownRequested true
            (match o.resolvedAt with | some r => r ≤ tDrain | none => false)),
       ("no-spurious-resolve", noSpuriousResolve shutdownRequested o.resolvedAt.isSome)]
    else
      [("resolves-once-closed",
          !(sc.steps.any fun s => match s.op with | .endInc => true | _ => false)
          || (match o.resolvedAt with | some r => r ≤ tDrain | none => false))]
  verdict (base ++ shut)

/-- `qlim <n> <m>`: `m > n` unary calls on one connection of a server with `concurrency_limit_per_connection(n)`,
all received before the shutdown signal, `m - n` of them still waiting for a slot in the server's own limit layer
when it fires (harness: c13_q.rs; seed C13i).  A call the server has received is an accepted call wherever inside
the server it waits: every one of the `m` completes with its handler's answer and the serve future resolves.  (Tie
only: the limit layer's queue is not in `Model/Shutdown`; the expected line is the property's demand on these
numbers.) -/
def handleQlim (n m : Nat) (obs : List String) : String × String :=
  let model := [s!"started-before:{n}", s!"ok:{m}/{m}", s!"handlers:{m}", "resolved:1"]
  (String.intercalate " " model,
   verdict [("accepted-call-completes", obs.contains s!"ok:{m}/{m}" && obs.contains s!"handlers:{m}"),
            ("shutdown-completes", obs.contains "resolved:1")])

def handle (case obs : List String) : String × String :=
  match case with
  | ["qlim", n, m] =>
    (match n.toNat?, m.toNat? with
     | some n, some m => if 0 < n && n < m then handleQlim n m obs else bad
     | _, _ => bad)
  | _ =>
  match parseScript case with
  | none => bad
  | some sc =>
    match obs with
    | ["hang"] => ("-", "fail:hang")
    | ["panic"] => ("-", "fail:panic")
    | _ =>
    match parseObs obs with
    | none => ("-", "fail:unreadable-observation")
    | some o =>
      let racy := sc.steps.any fun s => !s.settled
      let accW := if racy then o.conns.map (·.accepted) else []
      let startW := if racy then o.calls.map (·.started) else []
      -- the repaired accept loop (`biased;`): fixes/fix-C13-biased-accept-select.patch
      let m := simulate sc true accW startW
      (render m sc.tcp sc.sibling, verdictOf sc o)

end DriverC13
