import Driver.Proto
import TonicModel.Model.Status
import TonicModel.Spec.Status
import TonicModel.Basic.HMap
import TonicModel.Model.Framing
import TonicModel.Model.StatusClient
namespace DriverC04
open Proto Status

/-! token forms
  status (case side):    `<code> <msg> <details> <#entries> (<name> <value>)*`
  status (observed):     `<code> <msg> <details> <#names> (<name> <#values> <value>*)*`
-/

def parseSt (toks : List String) : Option (St × List String) :=
  match toks with
  | c :: m :: d :: rest =>
    match nat? c, unhex m, unhex d, HMap.parse rest with
    | some c, some m, some d, some (md, r) =>
      if c ≤ 16 then some ({ code := Code.ofNum c, message := m, details := d, metadata := md }, r) else none
    | _, _, _, _ => none
  | _ => none

def renderSt (st : St) : List String :=
  toString st.code.num :: hex st.message :: hex st.details :: HMap.render st.metadata

/-- observed status: numeric code, message, details, metadata -/
structure ObsSt where
  code : Nat
  message : Bytes
  details : Bytes
  metadata : HMap

def parseObsSt (toks : List String) : Option (ObsSt × List String) :=
  match toks with
  | c :: m :: d :: rest =>
    match nat? c, unhex m, unhex d, HMap.parseRendered rest with
    | some c, some m, some d, some (md, r) => some ({ code := c, message := m, details := d, metadata := md }, r)
    | _, _, _, _ => none
  | _ => none

def join (ts : List String) : String := String.intercalate " " ts

def renderOutcome : Option Outcome → List String
  | none => ["none"]
  | some .panic => ["panic"]
  | some (.status st) => "st" :: renderSt st

def statusNames : List Bytes := [Spec.Status.statusName, Spec.Status.messageName, Spec.Status.detailsName]

def customOnly (m : HMap) : HMap := m.filter (fun e => !Spec.Status.protocolNames.contains e.1)

/-- spec verdict for "reading a status from header block `h` produced observed tokens `obs`" -/
def readVerdict (h : HMap) (obs : List String) : List (String × Bool) :=
  match obs with
  | ["panic"] => [("never-panics", false)]
  | ["none"] => [("absent-iff-no-grpc-status", (Spec.Status.read h).isNone)]
  | "st" :: rest =>
    match parseObsSt rest, Spec.Status.read h with
    | some (o, []), some r =>
      match r.message, r.details with
      | some m, some d =>
        [("code-as-sent-or-unknown", o.code == r.code), ("message-decoded", o.message == m),
         ("details-decoded", o.details == d),
         ("other-headers-are-metadata", HMap.render o.metadata == HMap.render (HMap.removeAll statusNames h))]
      | _, _ => [("undecodable-field-gives-error-status", o.code != Spec.Status.OK)]
    | some (_, []), none => [("absent-iff-no-grpc-status", false)]
    | _, _ => [("observed-parses", false)]
  | _ => [("observed-parses", false)]


def renderT : Option HMap → List String
  | none => ["none"]
  | some t => "some" :: HMap.render t

/-- spec verdict for how a response stream ended (`obs` = `end …` / `err …` / `panic`), given the
HTTP status and the first trailers frame `merged` (the one that ends the stream) -/
def endVerdict (http : Nat) (merged : Option HMap) (obs : List String) : List (String × Bool) :=
  let reading := merged.bind Spec.Status.read
  match obs with
  | ["panic"] => [("never-panics", false)]
  | "end" :: t =>
    [("clean-end-only-on-ok-or-http-200", match reading with
        | some r => r.code == Spec.Status.OK && r.message.isSome && r.details.isSome
        | none => http == 200),
     ("trailers-kept", join t == join (renderT merged))]
  | "err" :: o =>
    match parseObsSt o with
    | some (o, ["t:none"]) =>
      match merged, reading with
      | some t, some _ => readVerdict t ("st" :: renderSt
          { code := Code.ofNum o.code, message := o.message, details := o.details, metadata := o.metadata })
          ++ [("error-has-nonzero-code", o.code != Spec.Status.OK)]
      | _, _ => [("http-status-table", http != 200 && o.code == Spec.Status.httpToCode http)]
    | _ => [("observed-parses", false)]
  | _ => [("observed-parses", false)]

/-! ### `inferb`: a response body with DATA -/

inductive BEv
  | data (b : Bytes)
  | pending
  | trailers (t : HMap)

def parseBEvs : Nat → List String → Option (List BEv)
  | 0, [] => some []
  | 0, _ => none
  | n + 1, "P" :: rest => (parseBEvs n rest).map (BEv.pending :: ·)
  | n + 1, "D" :: d :: rest =>
    match unhex d, parseBEvs n rest with
    | some b, some r => some (BEv.data b :: r)
    | _, _ => none
  | n + 1, "T" :: rest =>
    match HMap.parse rest with
    | some (h, r) => (parseBEvs n r).map (BEv.trailers h :: ·)
    | none => none
  | _, _ => none

/-- the harness' `RawDecoder` accepts every payload; no encoding is negotiated -/
def rawCodec : Framing.Codec Bytes :=
  { ser := id, de := some, deErr := 13, cz := fun _ b => b, dz := fun _ _ => none }

/-- the `grpc-status` of a trailers block as the framing model sees it -/
def trOf (t : HMap) : Framing.Tr :=
  match fromHeaderMap .fixed t with
  | some (.status st) => some st.code.num
  | _ => none

def toFramingEv : BEv → Framing.BodyEv
  | .data b => .data b
  | .pending => .pending
  | .trailers t => .trailers (trOf t)

def firstTrailers : List BEv → Option HMap
  | [] => none
  | .trailers t :: _ => some t
  | _ :: r => firstTrailers r

/-- render the framing model's run the way the harness reports `message()` calls: messages, then
the first terminal item -/
def renderRun (http : Nat) (first : Option HMap) : List (Framing.Item Bytes) → List String
  | [] => ["no-end"]
  | .pending :: r => renderRun http first r
  | .msg m :: r => "m" :: hex m :: renderRun http first r
  | .none :: _ => "end" :: renderT first
  | .err e :: _ =>
    if http == 200 then ["errc", toString e.code, "t:none"]
    else
      let st : St := match e.cls with
        | .user => match first.bind (fromHeaderMap .fixed) with
          | some (.status st) => st
          | _ => { code := Code.ofNum e.code, message := [], details := [], metadata := [] }
        | _ => { code := Code.ofNum e.code, message := inferMessage http, details := [], metadata := [] }
      ("err" :: renderSt st) ++ ["t:none"]

def dataLen : List BEv → Nat
  | [] => 0
  | .data b :: r => b.length / 5 + 1 + dataLen r
  | _ :: r => dataLen r

def obsMsgsEnd : List String → Nat × List String
  | "m" :: _ :: r => let (n, e) := obsMsgsEnd r; (n + 1, e)
  | e => (0, e)


/-! ### `cli`, `wr`, `mk` (audit aC04): a real client reads a scripted response; the server-side
layers write a failing call; one status value made in different ways -/

/-- the status a `Streaming` yields for the stream model's error `e` (code + class) -/
def stOfErr (http : Nat) (first : Option HMap) (e : Framing.St) : St :=
  match e.cls with
  | .user => match first.bind (fromHeaderMap .fixed) with
    | some (.status st) => st
    | _ => { code := Code.ofNum e.code, message := [], details := [], metadata := [] }
  | _ => { code := Code.ofNum e.code, message := inferMessage http, details := [], metadata := [] }

def isPendingItem : Framing.Item Bytes → Bool
  | .pending => true
  | _ => false

/-- `trailers.take()` has happened when the stream is polled once more after a clean end: a
non-200 `Direction::Response` is then classified by its HTTP status (finding C04-F2) -/
def againAfterEnd (dir : Framing.Dir) : String :=
  match Status.repollAfterTrailersTaken dir with
  | none => "again:none"
  | some _ => "again:err"

def againOf : List (Framing.Item Bytes) → String
  | .msg _ :: _ => "again:msg"
  | .err _ :: _ => "again:err"
  | _ => "again:none"

/-- `message()` / `next()` until the stream ends, `trailers()`, one more `message()` -/
def consumeM (http : Nat) (dir : Framing.Dir) (first : Option HMap) : List (Framing.Item Bytes) → List String
  | [] => ["no-end", "again:none"]
  | .pending :: r => consumeM http dir first r
  | .msg m :: r => "m" :: hex m :: consumeM http dir first r
  | .none :: r => ("end" :: renderT first) ++ [if first.isSome then againAfterEnd dir else againOf r]
  | .err e :: r => ("err" :: renderSt (stOfErr http first e)) ++ ["t:none", againOf r]

/-- `trailers()` first (it drains the messages), then `trailers()` again -/
def consumeT (http : Nat) (dir : Framing.Dir) (first : Option HMap) (items : List (Framing.Item Bytes)) : List String :=
  match Status.drainEnd items with
  | some e => ("tr-err" :: renderSt (stOfErr http first e)) ++ ["again:none"]
  | none => ("tr-end" :: renderT first) ++ [if first.isSome then (if againAfterEnd dir == "again:err" then "again:err" else "again:none") else "again:none"]

/-- spec verdict for a client call: `obsSt` = the status the call / the stream failed with
(`none` = it did not fail), `nmsgs` = messages delivered -/
def cliVerdict (http : Nat) (hdr : HMap) (first : Option HMap) (failed : Option ObsSt) (atCall : Bool)
    (nmsgs : Nat) (unaryMissing : Bool) : List (String × Bool) :=
  match Spec.Status.read hdr with
  | some r =>
    match r.message, r.details with
    | some m, some d =>
      if r.code == Spec.Status.OK then [("ok-in-headers-is-not-a-failed-call", !atCall)]
      else match failed with
        | some o => [("header-status-fails-the-call", atCall), ("code-as-sent-or-unknown", o.code == r.code),
                     ("message-decoded", o.message == m), ("details-decoded", o.details == d)]
        | none => [("header-status-fails-the-call", false)]
    | _, _ => match failed with
        | some o => [("undecodable-field-gives-error-status", o.code != Spec.Status.OK)]
        | none => [("undecodable-field-gives-error-status", false)]
  | none =>
    let reading := first.bind Spec.Status.read
    let noMsg := ("non-200-response-yields-no-message", http == 200 || nmsgs == 0)
    match reading with
    | some r =>
      match r.message, r.details with
      | some m, some d =>
        if r.code == Spec.Status.OK then
          [noMsg, ("clean-end-on-ok-trailers", unaryMissing || failed.isNone)]
        else match failed with
          | some o => [noMsg, ("status-not-at-call", !atCall), ("code-as-sent-or-unknown", o.code == r.code),
                       ("message-decoded", o.message == m), ("details-decoded", o.details == d)]
          | none => [noMsg, ("trailers-status-ends-the-stream-with-it", false)]
      | _, _ => match failed with
        | some o => [noMsg, ("undecodable-field-gives-error-status", o.code != Spec.Status.OK)]
        | none => [noMsg, ("undecodable-field-gives-error-status", false)]
    | none =>
      if http == 200 then [("clean-end-only-on-ok-or-http-200", unaryMissing || failed.isNone)]
      else match failed with
        | some o => [noMsg, ("http-status-table", o.code == Spec.Status.httpToCode http)]
        | none => [noMsg, ("clean-end-only-on-ok-or-http-200", false)]

/-- pick the failure out of the observed tokens of a streaming `cli` case (after `resp <map>`):
`(messages, failure, parses)` -/
def obsStream : List String → Nat × Option ObsSt × Bool
  | "m" :: _ :: r => let (n, f, p) := obsStream r; (n + 1, f, p)
  | "err" :: r => match parseObsSt r with
    | some (o, _) => (0, some o, true)
    | none => (0, none, false)
  | "tr-err" :: r => match parseObsSt r with
    | some (o, _) => (0, some o, true)
    | none => (0, none, false)
  | "end" :: _ => (0, none, true)
  | "tr-end" :: _ => (0, none, true)
  | _ => (0, none, false)

def survivesVerdict (st : St) (h0 : HMap) (blocks : List HMap) (o : ObsSt) : List (String × Bool) :=
  [("values-legal", blocks.all (fun h => h.all (fun e => Spec.Status.legalHeaderValue e.2))),
   ("message-percent-encoded", blocks.all (fun h => (HMap.getAll Spec.Status.messageName h).all Spec.Status.percentEncodedWellFormed)),
   ("code-survives", o.code == st.code.num),
   ("message-survives", o.message == st.message),
   ("details-survive", o.details == st.details),
   ("custom-metadata-survives", HMap.render (customOnly o.metadata) == HMap.render (customOnly st.metadata)),
   ("no-protocol-names-in-metadata", o.metadata.all (fun e => !Spec.Status.protocolNames.contains e.1 || h0.contains e))]

def grpcCT : HMap := [(HMap.name "content-type", HMap.name "application/grpc")]

def handleX (case obs : List String) : Option (String × String) :=
  match case with
  | "cli" :: meth :: api :: _hint :: hs :: rest =>
    match nat? hs, HMap.parse rest with
    | some http, some (hdr, ne :: r) =>
      match (nat? ne).bind (fun n => parseBEvs n r) with
      | none => some bad
      | some evs =>
        let first := firstTrailers evs
        let streaming := meth == "s" || meth == "b"
        match createResponse .fixed http hdr with
        | .panic => some ("panic", verdict [("never-panics", false)])
        | .fail st =>
          let v := match obs with
            | ["panic"] => [("never-panics", false)]
            | "err" :: o => match parseObsSt o with
              | some (o, []) => cliVerdict http hdr first (some o) true 0 false
              | _ => [("observed-parses", false)]
            | _ => cliVerdict http hdr first none false 0 false
          some (join ("err" :: renderSt st), verdict v)
        | .stream dir =>
          let cfg : Framing.DecCfg := { enc := none, maxSize := none, dir := dir }
          let n := 2 * evs.length + dataLen evs + 8
          let items := (Framing.Dec.run rawCodec cfg n Framing.Dec.init (evs.map toFramingEv)).filter (fun i => !isPendingItem i)
          if streaming then
            let model := ("resp" :: HMap.render hdr) ++
              (if api == "t" then consumeT http dir first items else consumeM http dir first items)
            let v := match obs with
              | ["panic"] => [("never-panics", false)]
              | ["hang"] => [("never-hangs", false)]
              | "err" :: o => match parseObsSt o with
                | some (o, []) => cliVerdict http hdr first (some o) true 0 false
                | _ => [("observed-parses", false)]
              | "resp" :: o =>
                match HMap.parseRendered o with
                | some (_, body) =>
                  let (nm, f, p) := obsStream body
                  if p then
                    cliVerdict http hdr first f false nm false ++
                      -- polled again after it ENDED WITHOUT an error, a stream must not come up with one
                      [("ended-stream-stays-ended", f.isSome || !(body.contains "again:err" || body.contains "again:msg"))]
                  else [("observed-parses", false)]
                | none => [("observed-parses", false)]
              | _ => [("observed-parses", false)]
            some (join model, verdict v)
          else
            let out := Status.unaryOf (stOfErr http first) hdr first items
            let model := match out with
              | .ok m md => ["ok", hex m, "md"] ++ HMap.render md
              | .err st => "err" :: renderSt st
            let v := match obs with
              | ["panic"] => [("never-panics", false)]
              | ["hang"] => [("never-hangs", false)]
              | "err" :: o => match parseObsSt o with
                | some (o, []) =>
                  let missing := o.code == Spec.Status.INTERNAL && o.message == Status.missingMessage.message
                  if missing then cliVerdict http hdr first none false 0 true
                  else cliVerdict http hdr first (some o) false 0 false
                | _ => [("observed-parses", false)]
              | "ok" :: _ => cliVerdict http hdr first none false 1 false
              | _ => [("observed-parses", false)]
            some (join model, verdict v)
    | _, _ => some bad
  | "wr" :: path :: ks :: rest =>
    match parseSt rest with
    | some (st, []) =>
      let k : Option Nat := nat? ks
      let trailersOnly := path == "su" || path == "sc" || path == "re" || path == "ri" || ((path == "ss" || path == "sb") && k.isNone)
      let nbytes := ((List.range (k.getD 0)).map (fun i => 6 + i)).foldl (· + ·) 0
      let hdr0 : HMap := if path == "eb" then [] else grpcCT
      let parts : Option (HMap × Option HMap) :=
        if trailersOnly then
          match addHeader .fixed st grpcCT with
          | .ok h => some (h, none)
          | .error _ => none
        else
          match toHeaderMap .fixed st with
          | .ok t => some (hdr0, some t)
          | .error _ => none
      let model := match parts with
        | none => ["enc-err"]
        | some (h, t) =>
          ("hdr" :: HMap.render h) ++ ["nb", toString (if trailersOnly then 0 else nbytes), "tr"] ++ renderT t ++
            ("back" :: renderOutcome (fromHeaderMap .fixed (t.getD h)))
      let v := match obs with
        | ["panic"] => [("never-panics", false)]
        | ["hang"] => [("never-hangs", false)]
        | "hdr" :: o =>
          match HMap.parseRendered o with
          | some (h, "nb" :: nb :: "tr" :: "none" :: "back" :: "st" :: b) =>
            match parseObsSt b with
            | some (o, []) => ("no-message-lost-before-the-status", nb == toString (if trailersOnly then 0 else nbytes)) :: survivesVerdict st grpcCT [h] o
            | _ => [("observed-parses", false)]
          | some (h, "nb" :: nb :: "tr" :: "some" :: t) =>
            match HMap.parseRendered t with
            | some (t, "back" :: "st" :: b) =>
              match parseObsSt b with
              | some (o, []) => ("no-message-lost-before-the-status", nb == toString nbytes) :: survivesVerdict st [] [h, t] o
              | _ => [("observed-parses", false)]
            | some (_, ["back", "panic"]) => [("never-panics", false)]
            | _ => [("reads-back-a-status", false)]
          | some (_, "nb" :: _ :: "tr" :: "none" :: ["back", "panic"]) => [("never-panics", false)]
          | _ => [("reads-back-a-status", false)]
        | _ => [("status-is-encodable", false)]
      some (join model, verdict v)
    | _ => some bad
  | _ => none

def handle (case obs : List String) : String × String :=
  match handleX case obs with
  | some r => r
  | none =>
  match case with
  | ["code", hv] =>
    match unhex hv with
    | none => bad
    | some bs =>
      (toString (Code.fromBytes bs).num,
       verdict [("code-table", join obs == toString (Spec.Status.readCode bs))])
  | ["u8", cs] =>
    match nat? cs with
    | none => bad
    | some c =>
      let model := if Utf8.isScalar c then "u " ++ hex (Utf8.encodeScalar c) else "none"
      let v := match obs with
        | ["none"] => [("rust-rejects-only-non-scalars", !Utf8.isScalar c)]
        | ["u", o] => match unhex o with
          | some b => [("rust-char-encoding-is-valid-utf8", Utf8.valid b), ("rust-accepts-only-scalars", Utf8.isScalar c)]
          | none => [("observed-parses", false)]
        | _ => [("observed-parses", false)]
      (model, verdict v)
  | ["codei", sgn, mag] =>
    match nat? mag with
    | none => bad
    | some n =>
      let i : Int := if sgn == "-" then - (Int.ofNat n) else Int.ofNat n
      let c := Code.ofInt i
      let expected : Nat := if sgn != "-" ∧ n ≤ 16 then n else Spec.Status.UNKNOWN
      (toString c.num, verdict [("from-i32-table", join obs == toString expected)])
  | "enc" :: rest =>
    match parseSt rest with
    | some (st, r) =>
      match HMap.parse r with
      | some (h0, []) =>
        let model := match addHeader .fixed st h0 with
          | .ok h => "ok" :: HMap.render h
          | .error e => "err" :: renderSt e
        let v := match obs with
          | "ok" :: o =>
            match HMap.parseRendered o with
            | some (h, []) =>
              [("values-legal", h.all (fun e => Spec.Status.legalHeaderValue e.2)),
               ("message-percent-encoded", st.message.isEmpty ||
                  (HMap.getAll Spec.Status.messageName h).all Spec.Status.percentEncodedWellFormed),
               ("code-written", HMap.getAll Spec.Status.statusName h == [decimal st.code.num]),
               ("whole-message-written", st.message.isEmpty ||
                  (HMap.getAll Spec.Status.messageName h).map Pct.decode == [st.message]),
               ("whole-details-written", st.details.isEmpty ||
                  (HMap.getAll Spec.Status.detailsName h).map B64.decode == [some st.details])]
            | _ => [("observed-parses", false)]
          | _ => [("status-is-encodable", false)]
        (join model, verdict v)
      | _ => bad
    | none => bad
  | "dec" :: rest =>
    match HMap.parse rest with
    | some (h, []) => (join (renderOutcome (fromHeaderMap .fixed h)), verdict (readVerdict h obs))
    | _ => bad
  | "infer" :: hs :: nf :: rest =>
    match nat? hs, nat? nf with
    | some http, some nf =>
      let rec frames : Nat → List String → Option (List HMap)
        | 0, [] => some []
        | 0, _ => none
        | n + 1, toks =>
          match HMap.parse toks with
          | some (h, r) => (frames n r).map (h :: ·)
          | none => none
      match frames nf rest with
      | none => bad
      | some fs =>
        let model := match streamEnd .fixed fs http with
          | .finished t => "end" :: renderT t
          | .err st => ("err" :: renderSt st) ++ ["t:none"]
          | .panic => ["panic"]
        let v := endVerdict http fs.head? obs
        (join model, verdict v)
    | _, _ => bad
  | "inferb" :: hs :: ne :: rest =>
    match nat? hs, nat? ne with
    | some http, some ne =>
      match parseBEvs ne rest with
      | none => bad
      | some evs =>
        let cfg : Framing.DecCfg := { enc := none, maxSize := none, dir := .response http }
        let first := firstTrailers evs
        -- the framing model, as many polls as the harness makes `message()` calls at most
        -- (plus one per `Pending`)
        let n := 2 * evs.length + dataLen evs + 4
        let items := Framing.Dec.run rawCodec cfg n Framing.Dec.init (evs.map toFramingEv)
        let model := renderRun http first items
        let (nmsgs, ending) := obsMsgsEnd obs
        let v := if http == 200 then [("never-panics", obs != ["panic"])]
          else ("non-200-response-yields-no-message", nmsgs == 0) :: endVerdict http first ending
        (join model, verdict v)
    | _, _ => bad
  | ["rst", rs, whenTok] =>
    match nat? rs with
    | none => bad
    | some r =>
      let c := (codeFromH2 .fixed r).num
      -- hyper ends a body reset with NO_ERROR without an error (RFC 9113 §8.1: "early response")
      let model := if whenTok == "pre" then s!"call {c} 1" else if r == 0 then "body end" else s!"body {c} 1"
      let v := match obs, Spec.Status.h2ToCode r with
        | [w, a, _], some e =>
          [("reset-reported-where-it-happened", w == (if whenTok == "pre" then "call" else "body")),
           ("h2-error-table", a == toString e)]
        | [w, _, _], none => [("reset-reported-where-it-happened", w == (if whenTok == "pre" then "call" else "body"))]
        | _, some _ => [("reset-stream-ends-with-an-error", false)]
        | _, none => [("observed-parses", false)]
      (model, verdict v)
  | ["h2", rs] =>
    match nat? rs with
    | none => bad
    | some r =>
      let c := (codeFromH2 .fixed r).num
      let model := s!"{c} {c} 1"
      let v := match obs, Spec.Status.h2ToCode r with
        | [a, b, _], some e => [("h2-error-table", a == toString e && b == toString e)]
        | [_, _, _], none => []
        | _, _ => [("observed-parses", false)]
      (model, verdict v)
  | ["toh2", cs] =>
    match nat? cs with
    | none => bad
    | some c =>
      let r := toH2 (Code.ofNum c)
      let v := match obs with
        | [o] => match nat? o with
          | some o => [("cancelled-iff-reset-with-cancel",
              (Spec.Status.h2ToCode o == some Spec.Status.CANCELLED) == (c == Spec.Status.CANCELLED))]
          | none => [("observed-parses", false)]
        | _ => [("observed-parses", false)]
      (toString r, verdict v)
  | kind :: rest0 =>
    if kind != "rt" && kind != "rth" && kind != "mk" then bad else
    -- `mk <how> <status>`: the way the status value was made is not part of the prediction
    let rest := if kind == "mk" then rest0.drop 1 else rest0
    match parseSt rest with
    | some (st, []) =>
      let h0 : HMap := if kind == "rth" then [(HMap.name "content-type", HMap.name "application/grpc")] else []
      let model := match addHeader .fixed st h0 with
        | .error e => "enc-err" :: renderSt e
        | .ok h => ("wire" :: HMap.render h) ++ ("back" :: renderOutcome (fromHeaderMap .fixed h))
      let v := match obs with
        | "wire" :: o =>
          match HMap.parseRendered o with
          | some (h, "back" :: "st" :: b) =>
            match parseObsSt b with
            | some (o, []) =>
              [("values-legal", h.all (fun e => Spec.Status.legalHeaderValue e.2)),
               ("message-percent-encoded", (HMap.getAll Spec.Status.messageName h).all Spec.Status.percentEncodedWellFormed),
               ("code-survives", o.code == st.code.num),
               ("message-survives", o.message == st.message),
               ("details-survive", o.details == st.details),
               ("custom-metadata-survives", HMap.render (customOnly o.metadata) == HMap.render (customOnly st.metadata)),
               ("no-protocol-names-in-metadata", o.metadata.all (fun e => !Spec.Status.protocolNames.contains e.1 || h0.contains e))]
            | _ => [("observed-parses", false)]
          | some (_, ["back", "panic"]) => [("never-panics", false)]
          | _ => [("reads-back-a-status", false)]
        | _ => [("status-is-encodable", false)]
      (join model, verdict v)
    | _ => bad
  | _ => bad

end DriverC04
