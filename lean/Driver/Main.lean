import Driver.C09

def dispatch (prop : String) (case obs : List String) : String × String :=
  match prop with
  | "C09" => DriverC09.handle case obs
  | _ => ("unknown-property", "fail:unknown-property")

partial def loop (h : IO.FS.Stream) (out : IO.FS.Stream) : IO Unit := do
  let line ← h.getLine
  if line.isEmpty then return ()
  let line := (line.dropEndWhile (fun c => c == '\n' || c == '\r')).toString
  let (m, v) := match line.splitOn "\t" with
    | [p, c] => dispatch p (Proto.toks c) []
    | [p, c, o] => dispatch p (Proto.toks c) (Proto.toks o)
    | _ => ("bad-line", "fail:bad-line")
  out.putStrLn (m ++ "\t" ++ v)
  loop h out

def main : IO Unit := do
  let out ← IO.getStdout
  loop (← IO.getStdin) out
