import Driver.C01
import Driver.C02
import Driver.C03
import Driver.C04
import Driver.C05
import Driver.C06
import Driver.C07
import Driver.C08
import Driver.C09
import Driver.C10
import Driver.C11
import Driver.C12
import Driver.C13
import Driver.C14
import Driver.C15
import Driver.C16
import Driver.C17
import Driver.C18
import Driver.C19
import Driver.C20

def dispatch (prop : String) (case obs : List String) : String × String :=
  match prop with
  | "C01" => DriverC01.handle case obs
  | "C02" => DriverC02.handle case obs
  | "C03" => DriverC03.handle case obs
  | "C04" => DriverC04.handle case obs
  | "C05" => DriverC05.handle case obs
  | "C06" => DriverC06.handle case obs
  | "C07" => DriverC07.handle case obs
  | "C08" => DriverC08.handle case obs
  | "C09" => DriverC09.handle case obs
  | "C10" => DriverC10.handle case obs
  | "C11" => DriverC11.handle case obs
  | "C12" => DriverC12.handle case obs
  | "C13" => DriverC13.handle case obs
  | "C14" => DriverC14.handle case obs
  | "C15" => DriverC15.handle case obs
  | "C16" => DriverC16.handle case obs
  | "C17" => DriverC17.handle case obs
  | "C18" => DriverC18.handle case obs
  | "C19" => DriverC19.handle case obs
  | "C20" => DriverC20.handle case obs
  | _ => ("unknown-property", "fail:unknown-property")

partial def loop (h : IO.FS.Stream) (out : IO.FS.Stream) : IO Unit := do
  let line ← h.getLine
  if line.isEmpty then return ()
  let line := (line.dropEndWhile (fun c => c == '\n' || c == '\r')).toString
  let (m, v) := match line.splitOn "\t" with
    | [p, c] => dispatch p (Proto.toks c) []
    | [p, c, o] => dispatch p (Proto.toks c) (Proto.toks o)
    | _ => ("bad-line", "fail:bad-line")
  out.putStrLn (m ++ "\t" ++ v)
  loop h out

def main : IO Unit := do
  let out ← IO.getStdout
  loop (← IO.getStdin) out
