import Driver.Proto
import TonicModel.Basic.TlsVocab
import TonicModel.Basic.TlsTestPki
import TonicModel.Model.Tls
import TonicModel.Spec.Tls
namespace DriverC15
open Proto Tls Tls.TestPki

abbrev COp := ClientOp Cert (List Cert)
abbrev SOp := ServerOp Cert (List Cert)

/-! ### case vocabulary → model inputs -/

def hostOf : String → Option String
  | "good" => some "good.test"
  | "bad" => some "bad.test"
  | "other" => some "other.test"
  | "ip" => some "127.0.0.1"
  | "invalid" => some "not a name!"
  | _ => none

def certOf : String → Option Cert
  | "ca1" => some .ca1 | "ca2" => some .ca2 | "ica1" => some .ica1
  | "s1good" => some .s1good | "s1bad" => some .s1bad | "s2good" => some .s2good | "s1ip" => some .s1ip
  | "c1" => some .c1 | "c2" => some .c2
  | _ => none

/-- a certificate PEM blob of the harness -/
def pemOf : String → Option (Pem Cert)
  | "junk" => some (some [])        -- a PEM section that is not a certificate: parses, adds nothing
  | "broken" => some none           -- malformed base64 inside a CERTIFICATE section
  | "c1chain" => some (some [.c1leaf, .ica1])
  | n => (certOf n).map (fun c => some [c])

def identityOf : String → Option (IdentityPem (List Cert))
  | "c1chain" => some { cert := some [.c1leaf, .ica1], keyOk := true, accepted := true }
  | "brokencert" => some { cert := none, keyOk := true, accepted := true }
  | "nokey" => some { cert := some [.c1], keyOk := false, accepted := true }
  | n => (certOf n).map (fun c => { cert := some [c], keyOk := true, accepted := true })

def schemeOf : String → Option Scheme
  | "https" => some .https
  | "HTTPS" => some .https           -- http::Uri parses the scheme case-insensitively
  | "http" => some .http
  -- `+o<scheme>`: Endpoint::origin(..) set as well; it does not take part in the TLS decision
  | "https+ohttp" => some .https
  | "http+ohttps" => some .http
  -- `+oB…` / `+oC…`: an origin naming ANOTHER host, set before / after `tls_config`: the peer is authenticated
  -- against the endpoint URI's host (or `domain_name`), the origin plays no part (seed C15f)
  | "https+oBhttps" => some .https
  | "https+oChttps" => some .https
  | _ => none

def mapM? {α β : Type} (f : α → Option β) : List α → Option (List β)
  | [] => some []
  | a :: as => match f a, mapM? f as with
    | some b, some bs => some (b :: bs)
    | _, _ => none

def clientOp (t : String) : Option COp :=
  match t.splitOn ":" with
  | ["ca", n] => (pemOf n).map .caCertificate
  | ["cas", ns] => (mapM? pemOf (ns.splitOn "+")).map .caCertificates
  | ["ta", n] => (certOf n).map .trustAnchor
  | ["tas", ns] => (mapM? certOf (ns.splitOn "+")).map .trustAnchors
  | ["dom", d] => (hostOf d).map .domainName
  | ["id", n] => (identityOf n).map .identity
  | ["h2", "0"] => some (.assumeHttp2 false)
  | ["h2", "1"] => some (.assumeHttp2 true)
  | ["roots"] => some .withEnabledRoots
  | ["kl"] => some .useKeyLog
  -- the methods below exist only in the side builds (`tlsf` cases)
  | ["nroots"] => some .withNativeRoots
  | ["wroots"] => some .withWebpkiRoots
  | _ => none

def usesOnly (native webpki : Bool) : COp → Bool
  | .withNativeRoots => native
  | .withWebpkiRoots => webpki
  | _ => true

def serverOp (t : String) : Option SOp :=
  match t.splitOn ":" with
  | ["id", n] => (identityOf n).map .identity
  | ["ca", n] => (pemOf n).map .clientCaRoot
  | ["opt", "0"] => some (.clientAuthOptional false)
  | ["opt", "1"] => some (.clientAuthOptional true)
  | ["ico", "0"] => some (.ignoreClientOrder false)
  | ["ico", "1"] => some (.ignoreClientOrder true)
  | ["kl"] => some .useKeyLog
  | _ => none

/-- `Server`-level builder calls written among the `ServerTlsConfig` calls of a case: `pre` = an
earlier `Server::tls_config` call with a configuration WITHOUT client authentication, `lay0` /
`lay` = `Server::layer` before / after the case's `tls_config` call. -/
def isServerLevel (t : String) : Bool := t = "pre" || t = "lay0" || t = "lay"

def serverOps (t : String) : Option (List SOp) :=
  if t = "-" then some [] else mapM? serverOp ((t.splitOn "+").filter (fun x => !isServerLevel x))

/-- The `Server` builder chain of a case (`Tls.ServerStep`), around its own `tls_config(cfg)`. -/
def serverSteps (t : String) (idOp : SOp) (cfg : List SOp) : List (ServerStep Cert (List Cert)) :=
  let toks := t.splitOn "+"
  (if toks.contains "pre" then [ServerStep.tlsConfig [idOp, .clientAuthOptional true]] else []) ++
  (if toks.contains "lay0" then [ServerStep.layer] else []) ++
  [ServerStep.tlsConfig cfg] ++
  (if toks.contains "lay" then [ServerStep.layer] else [])

inductive ClientSetup
  | notls                       -- Endpoint::from_shared, no tls_config
  | auto                        -- Endpoint::new (hidden API used by generated code)
  | ops (l : List COp)          -- from_shared + tls_config(ClientTlsConfig::new().<ops>)

def clientSetup (ts : List String) : Option ClientSetup :=
  match ts with
  | ["notls"] => some .notls
  | ["auto"] => some .auto
  | _ => (mapM? clientOp ts).map .ops

def alpnList : String → Option (List String)
  | "none" => some []
  | "http11" => some ["http/1.1"]
  | "h2first" => some ["h2", "http/1.1"]
  | "h2last" => some ["http/1.1", "h2"]
  | "h2only" => some ["h2"]
  | _ => none

/-- One client of a case, as the ORACLE reads it: its URI and what it was configured with —
for a configuration derived from other clients' configurations (`^k`), the builder sequence is
`Spec.Tls.ownOps` of the case's program text. -/
structure ClientPart where
  scheme : Scheme
  uri : Uri
  client : ClientSetup
  /-- `cfg - …`: only defines a configuration for later clients to clone; makes no endpoint -/
  cfgOnly : Bool := false

/-- `tlsf <feat> <store>`: which build of tonic ran the case, and what the platform certificate
store held (`SSL_CERT_FILE`). -/
def storeOf : String → Option (List Cert)
  | "ca1" => some [.ca1]
  | "ca2" => some [.ca2]
  | "ca1+ca2" => some [.ca1, .ca2]
  | "empty" => some []       -- an empty file
  | "junk" => some []        -- a PEM section that is not a certificate
  | "missing" => some []     -- no such file
  | _ => none

def sysOfSide (feat store : String) : Option (Sys Cert) :=
  match feat, storeOf store with
  | "n", some st => some (sysWith false st)
  | "nw", some st => some (sysWith true st)
  | _, _ => none

/-- The server of a case, the transport, and the run mode. -/
structure ServerPart where
  serverCert : Cert
  alpn : String
  sops : List SOp
  /-- the `<srvops>` token as written (it also carries the `Server`-level calls) -/
  sopsTok : String := "-"
  inner : InnerInfo
  /-- handler runs per successful client: `-x2` (every client connects twice) and `-c2` (two
  calls per channel) each double it -/
  mult : Nat

structure Case where
  c : ClientPart
  s : ServerPart
  /-- build features and platform store the case ran with -/
  sys : Sys Cert
  /-- the MODEL's endpoint of this client: the value of its endpoint variable after the process
  model (`Tls.Proc`) ran the whole case as one program -/
  ep : Except CfgErr (Endpoint Cert (List Cert))

def splitAt? (ts : List String) : Option (List String × List String) :=
  match ts.span (· ≠ ";") with
  | (a, _ :: b) => some (a, b)
  | _ => none

/-- split a token list on `|` -/
def splitBar (ts : List String) : List (List String) :=
  ts.foldr (fun t acc => if t = "|" then [] :: acc else match acc with
    | [] => [[t]]
    | g :: gs => (t :: g) :: gs) [[]]

/-! A client part is `<scheme> <urihost> [@k] [^j] <ops…>` (or `… notls`, `… auto`), or
`cfg - [^j] <ops…>`.  `^j`: the configuration starts as a clone of client `j`'s configuration
VALUE (`cfg_j.clone().<ops>`) instead of `ClientTlsConfig::new()`.  `@k`: the endpoint is a
clone of client `k`'s endpoint VALUE (same scheme and host tokens) — connected as it is when
nothing follows, else given `tls_config(<the configuration>)`.  `j`, `k` < own index. -/

inductive Body
  | notls | auto
  | ops (src : Option Nat) (l : List COp)
  /-- bare `@k` -/
  | same
  /-- `@k new`: `Endpoint::new(ep_k.clone())` -/
  | renew

structure RawClient where
  schemeTok : String
  hostTok : String
  cfgOnly : Bool := false
  epRef : Option Nat := none
  body : Body

def refTok (pre : String) (t : String) : Option Nat :=
  if t.startsWith pre then (t.drop pre.length).toString.toNat? else none

def parseCfgBody (ts : List String) : Option Body :=
  match ts with
  | t :: rest =>
    match refTok "^" t with
    | some j => (mapM? clientOp rest).map (.ops (some j))
    | none => (mapM? clientOp ts).map (.ops none)
  | [] => some (.ops none [])

def parseRaw (ts : List String) : Option RawClient :=
  match ts with
  | "cfg" :: "-" :: rest =>
    (parseCfgBody rest).map fun b => { schemeTok := "cfg", hostTok := "-", cfgOnly := true, body := b }
  | sch :: uh :: rest =>
    match rest with
    | ["notls"] => some { schemeTok := sch, hostTok := uh, body := .notls }
    | ["auto"] => some { schemeTok := sch, hostTok := uh, body := .auto }
    | t :: rest' =>
      match refTok "@" t with
      | some k =>
        if rest'.isEmpty then some { schemeTok := sch, hostTok := uh, epRef := some k, body := .same }
        else if rest' = ["new"] then some { schemeTok := sch, hostTok := uh, epRef := some k, body := .renew }
        else (parseCfgBody rest').map fun b => { schemeTok := sch, hostTok := uh, epRef := some k, body := b }
      | none => (parseCfgBody rest).map fun b => { schemeTok := sch, hostTok := uh, body := b }
    | [] => some { schemeTok := sch, hostTok := uh, body := .ops none [] }
  | _ => none

/-- how the oracle will read a client's configuration once the program text is complete -/
inductive OSetup
  | notls | auto
  | cfg (cv : Nat)

/-- The case's clients as ONE program (`Tls.Stmt`): variables are numbered as they are defined;
per client the configuration variable it defined, the endpoint variable it ends up with. -/
structure Res where
  prog : List (Stmt Cert (List Cert)) := []
  ncfg : Nat := 0
  nep : Nat := 0
  toks : List (String × String) := []
  cfgVar : List (Option Nat) := []
  epVar : List (Option Nat) := []
  osetup : List (Option OSetup) := []
  parts : List (Scheme × Uri) := []

def cfgStmt (st : Res) (src : Option Nat) (l : List COp) : Option (Stmt Cert (List Cert)) :=
  match src with
  | none => some (.config none l)
  | some j =>
    match st.cfgVar[j]? with
    | some (some cv) => some (.config (some cv) l)
    | _ => none

def Res.push (st : Res) (r : RawClient) (su : Scheme × Uri) (stmts : List (Stmt Cert (List Cert)))
    (dcfg dep : Nat) (cv ev : Option Nat) (os : Option OSetup) : Res :=
  { prog := st.prog ++ stmts, ncfg := st.ncfg + dcfg, nep := st.nep + dep,
    toks := st.toks ++ [(r.schemeTok, r.hostTok)], cfgVar := st.cfgVar ++ [cv], epVar := st.epVar ++ [ev],
    osetup := st.osetup ++ [os], parts := st.parts ++ [su] }

def resolveStep (st : Res) (r : RawClient) : Option Res :=
  if r.cfgOnly then
    match r.body with
    | .ops src l =>
      (cfgStmt st src l).map fun s =>
        st.push r (.http, { scheme := none, host := none }) [s] 1 0 (some st.ncfg) none none
    | _ => none
  else
    match schemeOf r.schemeTok, hostOf r.hostTok with
    | some scheme, some host =>
      let uri : Uri := { scheme := some scheme, host := some host }
      let su := (scheme, uri)
      match r.epRef, r.body with
      | none, .notls => some (st.push r su [.endpoint uri, .connect st.nep] 0 1 none (some st.nep) (some .notls))
      | none, .auto => some (st.push r su [.endpointNew uri, .connect st.nep] 0 1 none (some st.nep) (some .auto))
      | none, .ops src l =>
        (cfgStmt st src l).map fun s =>
          st.push r su [s, .endpoint uri, .tlsConfig st.nep st.ncfg, .connect (st.nep + 1)] 1 2
            (some st.ncfg) (some (st.nep + 1)) (some (.cfg st.ncfg))
      | some k, body =>
        match st.epVar[k]?, st.toks[k]?, st.osetup[k]? with
        | some (some ek), some tk, some osk =>
          if tk ≠ (r.schemeTok, r.hostTok) then none else
          match body with
          | .same => some (st.push r su [.cloneEndpoint ek, .connect st.nep] 0 1 none (some st.nep) osk)
          | .renew =>
            -- the ORACLE's reading of `Endpoint::new(ep_k.clone())` (generated `connect(dst)` with
            -- `dst` an Endpoint): what the caller configured on that endpoint stands; only an https
            -- endpoint that was given no TLS configuration gets the generated-client default
            let os' : Option OSetup := match osk with
              | some .notls => if scheme = .https then some .auto else some .notls
              | o => o
            some (st.push r su [.endpointNewFrom ek, .connect st.nep] 0 1 none (some st.nep) os')
          | .ops src l =>
            (cfgStmt st src l).map fun s =>
              st.push r su [s, .tlsConfig ek st.ncfg, .connect st.nep] 1 1
                (some st.ncfg) (some st.nep) (some (.cfg st.ncfg))
          | _ => none
        | _, _, _ => none
      | none, .same => none
      | none, .renew => none
    | _, _ => none

def resolve (raws : List RawClient) : Option Res :=
  raws.foldl (fun st r => st.bind (resolveStep · r)) (some {})

/-- the oracle's reading of client `i` -/
def oracleSetup (st : Res) (i : Nat) : Option ClientSetup :=
  match st.osetup[i]? with
  | some (some .notls) => some .notls
  | some (some .auto) => some .auto
  | some (some (.cfg cv)) => (Spec.Tls.ownOps st.prog cv).map .ops
  | some none => some .notls     -- `cfg -`: no endpoint; not judged
  | none => none

/-- transport token: `tcp|duplex` then any of `-lazy` (connect_with_connector_lazy + one retry),
`-x2` (two connections per client), `-par` (clients run concurrently) — only `-x2` changes the
expected outcome (handler count) -/
def parseTransport (tr : String) : Option (InnerInfo × Nat) :=
  match tr.splitOn "-" with
  | base :: flags =>
    let inner? : Option InnerInfo := if base = "tcp" then some .tcp else if base = "duplex" then some .other else none
    -- `-native`: Endpoint::connect()/connect_lazy() with tonic's HttpConnector (through a
    -- recording proxy); `-cto`: connect_timeout set. Same decision logic.
    -- `-bal`: a balanced channel over the endpoint; `-kn`: all other Endpoint knobs set after
    -- `tls_config`; `-c2`: two calls on one channel. None takes part in the decision.
    if flags.all (fun f => f = "lazy" || f = "x2" || f = "par" || f = "native" || f = "cto" ||
        f = "c2" || f = "bal" || f = "kn") && (!flags.contains "bal" || flags.contains "native") then
      inner?.map (fun i => (i, (if flags.contains "x2" then 2 else 1) * (if flags.contains "c2" then 2 else 1)))
    else none
  | [] => none

/-- every builder method a client of the case calls exists in the build that runs it -/
def clientFits (y : Sys Cert) (c : ClientPart) : Bool :=
  match c.client with
  | .ops l => l.all (usesOnly y.featNative y.featWebpki)
  | _ => true

def parseCasesWith (y : Sys Cert) (rest : List String) : Option (List Case) :=
  match splitAt? rest with
  | some (cpart, [sc, alpn, sops, tr]) =>
    match (mapM? parseRaw (splitBar cpart)).bind resolve, certOf sc, serverOps sops, parseTransport tr with
    | some st, some serverCert, some sops', some (inner, mult) =>
      let s : ServerPart := { serverCert, alpn, sops := sops', sopsTok := sops, inner, mult }
      -- the model: the whole case as one process
      let p := Proc.run y st.prog
      let cases? := mapM? (fun i =>
        match st.parts[i]?, oracleSetup st i, st.epVar[i]? with
        | some (scheme, uri), some client, some ev =>
          let cfgOnly := ev.isNone
          let ep? : Option (Except CfgErr (Endpoint Cert (List Cert))) :=
            match ev with
            | some e => p.eps[e]?
            | none => some (.ok (Endpoint.fromShared uri))
          ep?.map fun ep => ({ c := { scheme, uri, client, cfgOnly }, s, sys := y, ep } : Case)
        | _, _, _ => none) (List.range st.parts.length)
      match cases? with
      | some cs => if cs.all (fun c => clientFits y c.c) then some cs else none
      | none => none
    | _, _, _, _ => none
  | _ => none

def parseCases (ts : List String) : Option (List Case) :=
  match ts with
  | "tls" :: rest => parseCasesWith sys rest
  | "tlsf" :: feat :: store :: rest => (sysOfSide feat store).bind (parseCasesWith · rest)
  | _ => none

/-! ### model side -/

def endpointOf (c : Case) : Except CfgErr (Endpoint Cert (List Cert)) := c.ep

/-- The server of the case. `h2` is tonic's own acceptor configured through `ServerTlsConfig`;
the other ALPN variants are a hand-rolled rustls acceptor given the same identity and the
client-auth mode the *oracle* reads off the ops (it is not tonic code). -/
def serverOf (c : Case) : Option (ServerKind Cert (List Cert)) :=
  let idOp : SOp := .identity { cert := some [c.s.serverCert], keyOk := true, accepted := true }
  if c.s.alpn = "h2" then
    -- the whole `Server` builder chain: an earlier `tls_config`, layers, the case's `tls_config`
    match ServerBuilder.run (serverSteps c.s.sopsTok idOp (idOp :: c.s.sops)) with
    | .ok (some s) => some (.tonicTls s)
    | _ => none
  else if c.s.alpn = "plain" then some .plain
  else
    match alpnList c.s.alpn with
    | none => none
    | some al =>
      let mode : Option (ClientAuth Cert) :=
        match Spec.Tls.clientCa c.s.sops with
        | none => some .off
        | some pem =>
          let rs := Spec.Tls.pemRoots pem
          if rs.isEmpty then none
          else if Spec.Tls.authOptional c.s.sops then some (.optional rs) else some (.required rs)
      mode.map fun m => .userTls { chain := [c.s.serverCert], clientAuth := m, alpn := al }

def cfgErrTok : CfgErr → String
  | .invalidUri => "invalid-uri"
  | .nativeCertsNotFound => "native-certs-not-found"
  | .certParse => "cert-parse"
  | .keyParse => "key-parse"
  | .identityRejected => "identity-rejected"
  | .invalidDnsName => "invalid-dns-name"
  | .noRootAnchors => "no-root-anchors"

def whyTok : Why → String
  | .conn .dial => "dial"
  | .conn .httpsWithoutTls => "https-without-tls"
  | .conn .alpnAlert => "alpn-alert"
  | .conn (.badCert .unknownIssuer) => "server-cert:unknown-issuer"
  | .conn (.badCert .nameMismatch) => "server-cert:name-mismatch"
  | .conn (.badCert .other) => "server-cert:other"
  | .conn .tlsError => "tls-error"
  | .conn .h2NotNegotiated => "h2-not-negotiated"
  | .rejected => "rejected"

/-- certs as the handler-side token: `none` or `<count>:eq` (the model exposes exactly the
presented chain, so it always says `eq`) -/
def certsTok : Option (List Cert) → String
  | none => "none"
  | some ch => s!"{ch.length}:eq"

def outcomeToks (mult : Nat) (o : Outcome (List Cert)) : String :=
  let res := if o.ok then "ok" else "fail:" ++ (match o.why with | some w => whyTok w | none => "?")
  let peer := match o.peer with | none => "-" | some p => certsTok p
  let ext := match o.ext with
    | none => "-"
    | some none => "absent"
    | some (some e) => certsTok e
  s!"res={res} cfg=ok h={mult * o.handlers} peer={peer} ext={ext} plain={if o.plaintext then 1 else 0} dial=1"

def modelOut (c : Case) : String :=
  -- the harness brings the server up first: a refused server configuration ends the case
  -- before any client is configured
  match serverOf c with
  | none => "server-config-unusable"
  | some srv =>
    if c.c.cfgOnly then "cfg-only" else
    match endpointOf c with
    | .error e => s!"res=fail:config cfg=err:{cfgErrTok e} h=0 peer=- ext=- plain=0 dial=0"
    | .ok ep => outcomeToks c.s.mult (scenario ep srv c.s.inner handshake)

/-! ### spec verdict on the OBSERVED output (written against `Spec/`, not the model) -/

structure Obs where
  cfgOk : Bool
  resOk : Bool
  handlers : Nat
  peer : String
  ext : String
  plain : Bool

def field (pre : String) (ts : List String) : Option String :=
  (ts.find? (·.startsWith pre)).map (fun t => (t.drop pre.length).toString)

def parseObs (ts : List String) : Option Obs :=
  match field "cfg=" ts, field "res=" ts, field "h=" ts, field "peer=" ts, field "ext=" ts, field "plain=" ts with
  | some cfg, some res, some h, some peer, some ext, some plain =>
    match h.toNat? with
    | some n => some { cfgOk := cfg = "ok", resOk := res = "ok", handlers := n, peer, ext, plain := plain ≠ "0" }
    | none => none
  | _, _, _, _, _, _ => none

/-- The chain the client is configured to present, per the oracle. -/
def clientChain (c : Case) : Option (List Cert) :=
  match c.c.client with
  | .ops l => (Spec.Tls.configuredIdentity l).bind (·.cert)
  | _ => none

/-- Server ALPN list and server ops of the case, for the oracle. -/
def serverAlpn (c : Case) : Option (List String) :=
  if c.s.alpn = "h2" then some ["h2"] else alpnList c.s.alpn

/-- `MayTransmit` decided in the test world. -/
def mayTransmit (c : Case) : Bool :=
  match c.c.client, serverAlpn c with
  | .ops l, some sal =>
    (match Spec.Tls.expectedName l c.c.uri with
     | some name => verifies (Spec.Tls.configuredRoots c.sys l) [c.s.serverCert] name
     | none => false) &&
    (negotiate [alpnH2] sal == some (some alpnH2) || Spec.Tls.assumes l)
  | .auto, some sal =>
    -- generated-code path: TLS with the enabled roots only, name from the URI, no opt-out
    (match c.c.uri.host with
     | some name => verifies (Spec.Tls.configuredRoots c.sys ([.withEnabledRoots] : List COp)) [c.s.serverCert] name
     | none => false) && negotiate [alpnH2] sal == some (some alpnH2)
  | _, _ => false

/-- `MayServe` decided in the test world from what the handler saw (`ext`). -/
def mayServe (c : Case) (o : Obs) : Bool :=
  match Spec.Tls.clientCa c.s.sops with
  | none => true
  | some pem =>
    (match clientChain c with
     | some ch => o.ext == s!"{ch.length}:eq" && verifiesClient (Spec.Tls.pemRoots pem) ch
     | none => false) ||
    (Spec.Tls.authOptional c.s.sops && o.ext == "none")

def specVerdict (c : Case) (o : Obs) : String :=
  let https := c.c.scheme = .https
  let served := o.resOk || o.handlers > 0
  let tlsServer := c.s.alpn ≠ "plain"
  verdict [
    ("no-handler-when-call-failed", o.resOk || o.handlers == 0),
    ("no-call-without-config", o.cfgOk || !served),
    ("https-never-plaintext", !https || !o.plain),
    ("transmit-only-if-server-authenticated-and-h2", !(https && served) || (tlsServer && mayTransmit c)),
    ("serve-only-authenticated-clients", !(tlsServer && o.handlers > 0) || mayServe c o),
    -- whatever is exposed is the presented chain, and it verified against the client CA
    ("exposed-certs-are-the-verified-chain",
      !(o.handlers > 0) || o.ext == "none" || o.ext == "absent" ||
        (match clientChain c, Spec.Tls.clientCa c.s.sops with
         | some ch, some pem => o.ext == s!"{ch.length}:eq" && verifiesClient (Spec.Tls.pemRoots pem) ch
         | _, _ => false)),
    -- a verified chain IS exposed (TlsConnectInfo; and Request::peer_certs over TCP)
    ("verified-certs-are-exposed",
      !(tlsServer && o.handlers > 0) ||
        (match clientChain c, Spec.Tls.clientCa c.s.sops with
         | some ch, some pem =>
           !(verifiesClient (Spec.Tls.pemRoots pem) ch) ||
             (o.ext == s!"{ch.length}:eq" && (c.s.inner != .tcp || o.peer == o.ext))
         | _, _ => true)),
    ("peer-certs-only-from-tls-info", !(o.handlers > 0) || o.peer == "none" || o.peer == o.ext)
  ]

/-- `srvcfg <ops>`: only `Server::builder().tls_config(..)`. -/
def handleSrvCfg (opsTok : String) (obs : List String) : String × String :=
  match serverOps opsTok with
  | none => bad
  | some ops =>
    let model := match (ServerTlsConfig.build ops).tlsAcceptor with
      | .ok _ => "ok"
      | .err e => "err:" ++ cfgErrTok e
      | .panic => "panic"
    -- the property does not speak about configuration errors; the one thing the oracle insists
    -- on is that a configuration WITH an identity never panics
    let hasId := ops.any (fun o => match o with | .identity _ => true | _ => false)
    (model, verdict [("no-panic-with-identity", !(hasId && obs == ["panic"]))])

/-- `resume <sops A> <sops B>`: two tonic servers in one process, same certificate (`s1good`), and an ANONYMOUS
client that does its own TLS with one rustls configuration - it offers B the session it got from A (harness:
c15_r.rs).  Each acceptor is its own: what B admits is what B's configuration admits of a client without a
certificate, whatever that client did elsewhere before (seed C15g: a session store shared by all acceptors of the
process).  Model and oracle: the client-auth mode of each configuration (`Tls.ServerTlsConfig.tlsAcceptor`); the
roots are irrelevant for a client that presents nothing. -/
def handleResume (a b : String) (obs : List String) : String × String :=
  let idOp : SOp := .identity { cert := some [Cert.s1good], keyOk := true, accepted := true }
  let admits (t : String) : Option Bool :=
    match serverOps t with
    | none => none
    | some ops =>
      match (ServerTlsConfig.build (idOp :: ops)).tlsAcceptor with
      | .ok s => some (match s.clientAuth with | .required _ => false | _ => true)
      | _ => none
  match admits a, admits b with
  | some ra, some rb =>
    let tok (x : Bool) := if x then "ok" else "refused"
    let model := ["a:" ++ tok ra, "b:" ++ tok rb, "fresh:" ++ tok rb]
    -- the oracle reads the requirement off the ops: a client CA without `opt:1` (the last one wins) = required
    let required (t : String) : Bool :=
      match serverOps t with
      | some ops => (Spec.Tls.clientCa ops).isSome && !Spec.Tls.authOptional ops
      | none => false
    (String.intercalate " " model,
     verdict [("serve-only-authenticated-clients",
                 !(required b) || (obs.contains "b:refused" && obs.contains "fresh:refused")),
              ("anonymous-client-served-where-allowed", required b || obs.contains "fresh:ok"),
              ("no-hang", !obs.any (·.endsWith ":hang"))])
  | _, _ => bad

def handle (case obs : List String) : String × String :=
  match case with
  | ["srvcfg", ops] => handleSrvCfg ops obs
  | ["resume", a, b] => handleResume a b obs
  | _ =>
  match parseCases case with
  | none => bad
  | some cs =>
    let model := String.intercalate " | " (cs.map modelOut)
    -- one observation group per client, separated by `|`
    let groups := splitBar obs
    let v :=
      if groups.length ≠ cs.length then "fail:unreadable-observation"
      else
        let vs := (cs.zip groups).map fun (c, g) =>
          -- a server whose TLS configuration was refused serves nobody: nothing to judge
          if g = ["server-config-unusable"] then "ok" else
          if c.c.cfgOnly then (if g = ["cfg-only"] then "ok" else "fail:unreadable-observation") else
          match parseObs g with
          | some o => specVerdict c o
          | none => "fail:unreadable-observation"
        match vs.find? (· ≠ "ok") with
        | some bad => bad
        | none => "ok"
    (model, v)

end DriverC15
