import Driver.Proto
import TonicModel.Basic.RichErrorTypes
import TonicModel.Basic.PbWire
import TonicModel.Model.RichError
import TonicModel.Model.RichErrorTrip
import TonicModel.Spec.RichError
/-
C20 driver.  Case and observation formats are documented at the top of harness/src/c20.rs.
`model` = what the model of tonic-types (over the concrete prost model) produces for the case;
`verdict` = the spec clauses evaluated on the *observed* tokens only:
  header-trip        outer code / message after the header encoding are the ones put in
  embedded-status    the observed details bytes, read as a google.rpc.Status by the independent
                     decoder of `Spec/`, carry that code and message
  wire-conformant    … and exactly the attached details (kinds, order, field values)
  vec-roundtrip / set-roundtrip   what check_error_details[_vec] returned equals what was attached
  getters-first      each get_details_* returned the first detail of its kind
  no-panic, err-implies-empty     decode side: an error or an empty result, never a panic
`x <trip> <pre> <obs> <hist> <inner>` cases (harness/src/c20_x.rs): the model takes the inner case's
status through `RichError.trip` (the header model of `Model/Status`, composed) and predicts the
same sections plus `GV` / `GS`; `pre`, `obs`, `hist` are invisible to the model.  Verdict: the inner
case's clauses, and
  get-roundtrip      get_error_details_vec (list form) / get_error_details (set form) return in full
                     what was attached
  get-is-check       decode side: get_* is the check_* result, or empty when that is an error
-/
namespace DriverC20
open Proto RichError

/-! ### token parser -/

abbrev P := StateT (List String) Option

def tok : P String := fun s => match s with
  | [] => none
  | t :: r => some (t, r)

def peek? : P (Option String) := fun s => some (s.head?, s)

def num : P Nat := do
  let t ← tok
  match t.toNat? with
  | some n => pure n
  | none => failure

def bytes : P Bytes := do
  let t ← tok
  match unhex t with
  | some b => pure b
  | none => failure

/-- a Rust `String`: must be valid UTF-8 -/
def str : P Bytes := do
  let b ← bytes
  if Utf8Rust.valid b then pure b else failure

def rep {α : Type} (p : P α) : Nat → P (List α)
  | 0 => pure []
  | n + 1 => do
    let x ← p
    let xs ← rep p n
    pure (x :: xs)

/-- a detail of a case; `clampAll` = the detail goes through `RetryInfo::new` in any case
(the set form can only be built through `set_retry_info`) -/
def detail (clampAll : Bool) : P ErrorDetail := do
  let k ← tok
  match k with
  | "RI" | "RN" =>
    let d ← (do
      match ← peek? with
      | some "-" => let _ ← tok; pure none
      | _ =>
        let s ← num
        let n ← num
        if n < 1000000000 then pure (some (Dur.mk s n)) else failure : P (Option Dur))
    if k == "RN" || clampAll then pure (.retryInfo (RetryInfo.new d)) else pure (.retryInfo ⟨d⟩)
  | "DI" =>
    let n ← num
    let st ← rep str n
    let d ← str
    pure (.debugInfo ⟨st, d⟩)
  | "QF" =>
    let n ← num
    let vs ← rep (do let a ← str; let b ← str; pure (QuotaViolation.mk a b)) n
    pure (.quotaFailure ⟨vs⟩)
  | "EI" =>
    let r ← str
    let d ← str
    let n ← num
    let m ← rep (do let a ← str; let b ← str; pure (a, b)) n
    if Spec.RichError.distinctKeys m then pure (.errorInfo ⟨r, d, m⟩) else failure
  | "PF" =>
    let n ← num
    let vs ← rep (do let a ← str; let b ← str; let c ← str; pure (PreconditionViolation.mk a b c)) n
    pure (.preconditionFailure ⟨vs⟩)
  | "BR" =>
    let n ← num
    let vs ← rep (do let a ← str; let b ← str; pure (FieldViolation.mk a b)) n
    pure (.badRequest ⟨vs⟩)
  | "RQ" => do let a ← str; let b ← str; pure (.requestInfo ⟨a, b⟩)
  | "RS" => do let a ← str; let b ← str; let c ← str; let d ← str; pure (.resourceInfo ⟨a, b, c, d⟩)
  | "HP" =>
    let n ← num
    let vs ← rep (do let a ← str; let b ← str; pure (HelpLink.mk a b)) n
    pure (.help ⟨vs⟩)
  | "LM" => do let a ← str; let b ← str; pure (.localizedMessage ⟨a, b⟩)
  | _ => failure

def allKinds : List Kind :=
  [.retryInfo, .debugInfo, .quotaFailure, .errorInfo, .preconditionFailure, .badRequest,
   .requestInfo, .resourceInfo, .help, .localizedMessage]

def slot (k : Kind) : P (Option ErrorDetail) := do
  match ← peek? with
  | some "-" => let _ ← tok; pure none
  | _ =>
    let d ← detail true
    if d.kind = k then pure (some d) else failure

def slots : List Kind → P (List (Option ErrorDetail))
  | [] => pure []
  | k :: ks => do
    let x ← slot k
    let xs ← slots ks
    pure (x :: xs)

def metaP : P (List (Bytes × Bytes)) := do
  let n ← num
  rep (do let a ← str; let b ← str; pure (a, b)) n

def eoi : P Unit := fun s => if s.isEmpty then some ((), s) else none

/-! ### rendering (mirrors `render_detail` of the harness) -/

def bytesLt : Bytes → Bytes → Bool
  | [], [] => false
  | [], _ :: _ => true
  | _ :: _, [] => false
  | a :: as, b :: bs => a.toNat < b.toNat || (a == b && bytesLt as bs)

def insertSorted (e : Bytes × Bytes) : List (Bytes × Bytes) → List (Bytes × Bytes)
  | [] => [e]
  | x :: xs => if bytesLt e.1 x.1 then e :: x :: xs else x :: insertSorted e xs

def sortByKey (l : List (Bytes × Bytes)) : List (Bytes × Bytes) := l.foldr insertSorted []

def renderDetail : ErrorDetail → List String
  | .retryInfo x =>
    match x.retryDelay with
    | none => ["RI", "-"]
    | some d => ["RI", toString d.secs, toString d.nanos]
  | .debugInfo x => ["DI", toString x.stackEntries.length] ++ x.stackEntries.map hex ++ [hex x.detail]
  | .quotaFailure x =>
    ["QF", toString x.violations.length] ++ x.violations.flatMap fun v => [hex v.subject, hex v.description]
  | .errorInfo x =>
    ["EI", hex x.reason, hex x.domain, toString x.metadata.length] ++
      (sortByKey x.metadata).flatMap fun e => [hex e.1, hex e.2]
  | .preconditionFailure x =>
    ["PF", toString x.violations.length] ++
      x.violations.flatMap fun v => [hex v.type, hex v.subject, hex v.description]
  | .badRequest x =>
    ["BR", toString x.fieldViolations.length] ++ x.fieldViolations.flatMap fun v => [hex v.field, hex v.description]
  | .requestInfo x => ["RQ", hex x.requestId, hex x.servingData]
  | .resourceInfo x => ["RS", hex x.resourceType, hex x.resourceName, hex x.owner, hex x.description]
  | .help x => ["HP", toString x.links.length] ++ x.links.flatMap fun v => [hex v.description, hex v.url]
  | .localizedMessage x => ["LM", hex x.locale, hex x.message]

def renderSlot : Option ErrorDetail → List String
  | none => ["-"]
  | some d => renderDetail d

def renderSet (s : ErrorDetails) : List String := allKinds.flatMap fun k => renderSlot (s.get k)

def countSet (s : ErrorDetails) : Nat := (allKinds.filter fun k => (s.get k).isSome).length

def setOfSlots (l : List (Option ErrorDetail)) : ErrorDetails :=
  l.foldl (fun acc o => match o with | none => acc | some d => acc.put d) {}

/-! ### the model's observation -/

/-- everything the harness prints after the header trip, from the model (the header encoding
itself is C04's subject: here code, message, details bytes and metadata come back unchanged) -/
def observe (code : Nat) (msg : Bytes) (md : List (Bytes × Bytes)) (details : Bytes) (full : Bool := false) :
    List String :=
  let e : List String := match prost.decStatus details with
    | some st => ["E", "ok", toString st.code, hex st.message, toString st.details.length]
    | none => ["E", "err"]
  let v : List String := match checkVec prost details with
    | some ds => ["V", "ok", toString ds.length] ++ ds.flatMap renderDetail
    | none => ["V", "err"]
  let s : List String := match checkSet prost details with
    | some x => ["S", "ok"] ++ renderSet x
    | none => ["S", "err"]
  let g : List String := ["G"] ++ allKinds.flatMap fun k => renderSlot (getFirst prost k details)
  let d : List String := ["D", toString (getVec prost details).length, toString (countSet (getSet prost details))]
  let gv : List String := ["GV", toString (getVec prost details).length] ++ (getVec prost details).flatMap renderDetail
  let gs : List String := ["GS"] ++ renderSet (getSet prost details)
  ["T", toString code, hex msg, hex details, "M", toString md.length] ++
    (sortByKey md).flatMap (fun e => [hex e.1, hex e.2]) ++ e ++ v ++ s ++ g ++ d ++
    (if full then gv ++ gs else [])

/-- the model's observation of an `x` case: the status is taken through the header model -/
def observeVia (t : Trip) (code : Nat) (msg : Bytes) (md : List (Bytes × Bytes)) (details : Bytes) :
    List String :=
  match trip t (toSt ⟨code, msg, details, md⟩) with
  | some st => observe st.code.num st.message st.metadata st.details true
  | none => ["trip-fails"]

/-! ### HashMap order

prost writes a `HashMap` in its (per-process random) iteration order.  The model takes the order
of the entries as part of its input, so the driver reads that order off the observed bytes: the
metadata of each `ErrorInfo` of the case is permuted into the order in which its keys occur in
the observed encoding — if and only if that is a permutation of the same entries. -/

def observedOrders (obsBytes : Bytes) : List (List (Bytes × Bytes)) :=
  match prost.decStatus obsBytes with
  | none => []
  | some st => st.details.filterMap fun a =>
      if a.typeUrl = typeUrl .errorInfo then
        match prost.decDetail .errorInfo a.value with
        | some (.errorInfo x) => some x.metadata
        | _ => none
      else none

def reorder : List ErrorDetail → List (List (Bytes × Bytes)) → List ErrorDetail
  | [], _ => []
  | .errorInfo x :: rest, o :: os =>
    (if Spec.RichError.isPerm x.metadata o then .errorInfo { x with metadata := o } else .errorInfo x) ::
      reorder rest os
  | d :: rest, os => d :: reorder rest os

/-! ### observed tokens -/

/-- split the observation at its section markers -/
def sect (m : String) (stop : String) (obs : List String) : List String :=
  ((obs.dropWhile (· ≠ m)).drop 1).takeWhile (· ≠ stop)

def obsBytes (obs : List String) : Option Bytes :=
  match obs with
  | "T" :: _ :: _ :: b :: _ => unhex b
  | _ => none

def handleBuilt (code : Nat) (msg : Bytes) (md : List (Bytes × Bytes)) (ds : List ErrorDetail)
    (isSet : Bool) (obs : List String) (x : Option Trip := none) : String × String :=
  let ob := (obsBytes obs).getD []
  let ds' := reorder ds (observedOrders ob)
  let st : Status Unit :=
    if isSet then withSet prost code msg (setOfSlots (ds'.map some)) () else withVec prost code msg ds' ()
  let model := match x with
    | none => observe code msg md st.details
    | some t => observeVia t code msg md st.details
  let expectVec := ["ok", toString ds.length] ++ ds.flatMap renderDetail
  let expectSet := ["ok"] ++ renderSet (setOfSlots (ds.map some))
  let expectFirst := allKinds.flatMap fun k => renderSlot (Spec.RichError.firstOfKind k ds)
  -- the round-trip clauses are demanded on the property's domain (well-formed details: UTF-8
  -- strings, distinct map keys, durations whose seconds fit an i64); outside it (a `RetryInfo`
  -- literal above i64::MAX seconds, which tonic documents as clamped) only the rest is
  let inDomain := ds.all Spec.RichError.wfDetail
  let clauses : List (String × Bool) :=
    [("no-panic", obs != ["panic"]),
     ("header-trip", obs.take 3 == ["T", toString code, hex msg]),
     ("embedded-status", Spec.RichError.embeds code msg ob)] ++
    (if inDomain then
      [("wire-conformant",
          if isSet then Spec.RichError.carriesSet code msg ds ob else Spec.RichError.carries code msg ds ob),
       ("getters-first", sect "G" "D" obs == expectFirst)] ++
      (if isSet then [("set-roundtrip", sect "S" "G" obs == expectSet)]
       else [("vec-roundtrip", sect "V" "S" obs == expectVec)]) ++
      (if x.isSome then
        [("get-roundtrip",
            if isSet then sect "GS" "" obs == expectSet.drop 1 else sect "GV" "GS" obs == expectVec.drop 1)]
       else [])
     else [])
  (String.intercalate " " model, verdict clauses)

def handleRaw (code : Nat) (msg : Bytes) (details : Bytes) (obs : List String) (x : Option Trip := none) :
    String × String :=
  let model := match x with
    | none => observe code msg [] details
    | some t => observeVia t code msg [] details
  let d := sect "D" "GV" obs
  let v := sect "V" "S" obs
  let s := sect "S" "G" obs
  let gv := sect "GV" "GS" obs
  let gs := sect "GS" "" obs
  let clauses : List (String × Bool) :=
    [("no-panic", obs != ["panic"]),
     ("header-trip", obs.take 4 == ["T", toString code, hex msg, hex details]),
     ("err-implies-empty",
        (sect "V" "S" obs != ["err"] || d.head? == some "0") &&
        (sect "S" "G" obs != ["err"] || d.drop 1 == ["0"]))] ++
    (if x.isSome then
      [("get-is-check",
          (if v == ["err"] then gv == ["0"] else gv == v.drop 1) &&
          (if s == ["err"] then gs == List.replicate 10 "-" else gs == s.drop 1))]
     else [])
  (String.intercalate " " model, verdict clauses)

def parseCase : P (String × Nat × Bytes × List (Bytes × Bytes) × List ErrorDetail × Bytes) := do
  let kind ← tok
  let code ← num
  let msg ← str
  if code > 16 then failure
  match kind with
  | "vec" =>
    let _ ← tok
    let md ← metaP
    let n ← num
    let ds ← rep (detail false) n
    eoi
    pure (kind, code, msg, md, ds, [])
  | "set" =>
    let _ ← tok
    let md ← metaP
    let sl ← slots allKinds
    eoi
    pure (kind, code, msg, md, sl.filterMap id, [])
  | "raw" =>
    let b ← bytes
    eoi
    pure (kind, code, msg, [], [], b)
  | _ => failure

/-- the block an `ahp` case writes into -/
def preBlock : HMap := [(HMap.name "a", Ascii.ofString "pre"), (HMap.name "x-pre", Ascii.ofString "1")]

def tripOfTok : String → Option Trip
  | "ah" | "reuse" => some (.add [])
  | "ahp" => some (.add preBlock)
  | "http" => some (.add contentTypeGrpc)
  | "pad" => some .padded
  | "twice" => some .twice
  | _ => none

/-- metadata an `x` case may carry: ASCII keys, and the one binary key that is dropped on the way -/
def metaOk (md : List (Bytes × Bytes)) : Bool :=
  md.all fun e => !(Ascii.ofString "-bin").isSuffixOf e.1 || e.1 == _root_.Status.GRPC_STATUS_DETAILS

def handle (case obs : List String) : String × String :=
  match case with
  | "x" :: t :: pre :: o :: hist :: inner =>
    match tripOfTok t, parseCase.run inner with
    | some tr, some ((kind, code, msg, md, ds, raw), _) =>
      if !(["id", "clone", "box", "try", "chain", "src"].contains pre && ["st", "rpc"].contains o &&
           ["h0", "h1", "h2"].contains hist && metaOk md) then bad
      else if kind == "raw" then handleRaw code msg raw obs (some tr)
      else handleBuilt code msg md ds (kind == "set") obs (some tr)
    | _, _ => bad
  | _ =>
  match (parseCase.run case) with
  | none => bad
  | some ((kind, code, msg, md, ds, raw), _) =>
    if kind == "raw" then handleRaw code msg raw obs
    else handleBuilt code msg md ds (kind == "set") obs

end DriverC20
