import Driver.Proto
import TonicModel.Basic.ReflDescriptor
import TonicModel.Model.Reflection
import TonicModel.Spec.Reflection
import TonicModel.Model.ReflectionWire
import TonicModel.Spec.ReflectionWire
/-
C19 driver.  Case grammar: see harness/src/c19.rs.  The model output is computed with
`Reflection.build` / `Reflection.runStream` (one model for v1 and v1alpha, instantiated with the
version's own descriptor); the verdict evaluates `Spec.Reflection` on the *observed* answers:

  build-succeeds                  all sets decodable and all names present ⇒ the service builds
  symbol-resolves-to-declaring-file   an answer to file_containing_symbol n is a registered file f with Declares f n
  declared-symbol-resolves        NOT_FOUND for n only if no (unconflicted) registered file declares n
  unknown-is-not-found            the error for an unresolvable symbol / file name is NOT_FOUND
  file-by-name                    an answer to file_by_filename nm is a registered file named nm
  registered-file-retrievable     NOT_FOUND for nm only if no registered file is named nm
  descriptor-decodes-to-registered  every descriptor answer decodes to one of the registered descriptors
  services-chosen / services-exactly-declared / services-only-declared / services-all-declared
  answers-every-request           a stream without error has one answer per request
  service-reachable               a call of ServerReflectionInfo is accepted (whatever carries it: the generated
                                  server itself, `Routes`, `transport::Server` behind a `Channel`)
  route-name-is-protocol-name     the generated servers register under the protocol's service names
  own-service-advertised-under-route-name   with the own descriptor included, the name a server is routed by is
                                  a service that descriptor declares (so what ListServices advertises can be called)
  own-descriptor-declares-protocol-service   the descriptor a version includes as its own declares that version's
                                  ServerReflection service
  versions-agree                  v1 and v1alpha answer identically: literally when the own descriptors
                                  are not included; otherwise on every stream up to the first request
                                  that names something of an own descriptor, service lists up to the
                                  services the own descriptors declare

A `drive <via> <seq|par> <ops>` section says HOW the case is driven.  `ops` is the builder program
(r = next registration, n = next `with_service_name`, i / o = `include_reflection_service(true /
false)`): the model runs it call by call (`Reflection.Builder.run`), the oracle reads `inc`, `chosen`,
`regs` of the case, which must be what the documented API says the program configures
(`Spec.Reflection.includeOf` …; otherwise the case is bad).  `via` and seq / par / step are not inputs of
the model at all: the transport, the concurrency of streams and the pacing of the requests (all sent
up front, or each only after the previous answer was read) must be invisible, so the same
prediction and the same clauses apply to every way of driving.

Comparison with the model (DESIGN §3.3): an error is its status code (`err <code>`; its class is
the request it answers, i.e. its position), a builder error is its variant; message texts are on
neither side.  The service list is compared sorted when no service name was chosen (the
property, and the clause above, fix it up to order only) and as answered otherwise.
-/
namespace DriverC19
open Proto Refl

/-! ### token parser -/

abbrev PM := StateT (List String) Option

def tok : PM String := fun s => match s with
  | [] => none
  | t :: r => some (t, r)

def expect (t : String) : PM Unit := do
  let x ← tok
  if x = t then pure () else failure

def pNat : PM Nat := do
  let x ← tok
  match x.toNat? with
  | some n => pure n
  | none => failure

def pBytes : PM Bytes := do
  let x ← tok
  match unhex x with
  | some b => pure b
  | none => failure

def pNm : PM (Option Name) := do
  let x ← tok
  if x = "-" then pure none else
  match unhex x with
  | some b => pure (some b)
  | none => failure

def pMany {α} (p : PM α) : Nat → PM (List α)
  | 0 => pure []
  | k + 1 => do
    let a ← p
    let r ← pMany p k
    pure (a :: r)

def pCounted {α} (p : PM α) : PM (List α) := do
  let k ← pNat
  pMany p k

def pEnum : PM EnumD := do
  let n ← pNm
  let vs ← pCounted pNm
  pure { name := n, values := vs }

def pMsg : Nat → PM Msg
  | 0 => failure
  | fuel + 1 => do
    let n ← pNm
    let nested ← pCounted (pMsg fuel)
    let enums ← pCounted pEnum
    let fields ← pCounted pNm
    let oneofs ← pCounted pNm
    pure (.mk n (MsgList.ofList nested) enums fields oneofs)

def pSvc : PM Service := do
  let n ← pNm
  let ms ← pCounted pNm
  pure { name := n, methods := ms }

def pFile : PM File := do
  expect "F"
  let name ← pNm
  let package ← pNm
  let extra ← pNat
  let msgs ← pCounted (pMsg 80)
  let enums ← pCounted pEnum
  let svcs ← pCounted pSvc
  pure { name, package, messages := MsgList.ofList msgs, enums, services := svcs, extra }

/-- a registration as the case gives it: kind, files (`none` = bytes prost rejects) -/
inductive CReg where
  | s (fs : List File)
  | e (fs : List File)
  | b

def pReg : PM CReg := do
  let k ← tok
  if k = "S" then do
    let fs ← pCounted pFile
    pure (.s fs)
  else if k = "E" then do
    let fs ← pCounted pFile
    pure (.e fs)
  else if k = "B" then do
    let _ ← pBytes
    pure .b
  else failure

def pReqK : PM Reflection.Req := do
  let k ← tok
  if k = "N" then pure .none
  else if k = "F" then do let s ← pBytes; pure (.fileByFilename s)
  else if k = "Y" then do let s ← pBytes; pure (.fileContainingSymbol s)
  else if k = "X" then do
    let s ← pBytes
    let n ← tok
    match n.toInt? with
    | some n => pure (.fileContainingExtension s n)
    | none => failure
  else if k = "A" then do let s ← pBytes; pure (.allExtensionNumbersOfType s)
  else if k = "L" then do let s ← pBytes; pure (.listServices s)
  else failure

def pReq : PM Reflection.Request := do
  let host ← pBytes
  let k ← pReqK
  pure { host := host, messageRequest := k }

structure Case where
  inc : Bool
  chosen : Option (List Name)
  regs : List CReg
  streams : List (List Reflection.Request)
  own : Option (File × File)
  via : String := "direct"
  par : Bool := false
  /-- the builder program; `none`: registrations, names, `include_reflection_service(inc)` -/
  ops : Option (List Char) := none

def pCase : PM Case := do
  expect "inc"
  let i ← tok
  let inc ← if i = "1" then pure true else if i = "0" then pure false else failure
  expect "chosen"
  let rest ← get
  let chosen ← match rest with
    | "none" :: r => do set r; pure none
    | _ => do
      let l ← pCounted pBytes
      -- `with_service_name` never called = all services; an empty chosen list cannot be built
      pure (if l.isEmpty then none else some l)
  expect "regs"
  let regs ← pCounted pReg
  expect "streams"
  let streams ← pCounted (pCounted pReq)
  let own ← if inc then do
      expect "own"
      let a ← pFile
      let b ← pFile
      pure (some (a, b))
    else pure none
  let rest ← get
  if rest.isEmpty then pure { inc, chosen, regs, streams, own } else do
    expect "drive"
    let via ← tok
    if !(via = "direct" || via = "routes" || via = "h2" || via = "h2z") then failure
    let p ← tok
    -- seq / par / step (lock-step: request i+1 only after answer i): none of them is an input of the model
    let par ← if p = "par" then pure true else if p = "seq" || p = "step" then pure false else failure
    let w ← tok
    let ops := if w = "-" then [] else w.toList
    let rest ← get
    if rest.isEmpty then pure { inc, chosen, regs, streams, own, via, par, ops := some ops } else failure

/-! ### model side -/

def toReg : CReg → Reflection.Reg
  | .s fs => .decoded fs
  | .e fs => .encoded (some fs)
  | .b => .encoded none

/-- all registered descriptors in registration (call) order, own descriptor last -/
def allFiles (c : Case) (own : Option File) : List File :=
  (c.regs.map (fun r => match r with | .s fs => fs | .e fs => fs | .b => [])).flatten
    ++ (match own with | some o => [o] | none => [])

/-- the variant of `tonic_reflection::server::Error` (`DecodeError` / `InvalidFileDescriptorSet`) -/
def errText : Reflection.Err → String
  | .decode => "build-err decode"
  | .missingFileName => "build-err invalid"
  | .missing _ => "build-err invalid"

def hexDigit (n : Nat) : Char := Hex.digit n

/-- 16 lower-case hex digits of a 64-bit value -/
def hex64 (v : UInt64) : String :=
  String.ofList ((List.range 16).map (fun i => hexDigit ((v.toNat >>> (4 * (15 - i))) % 16)))

/-- the bytes token of a descriptor answer: `-` (opaque descriptor), the bytes, or their digest -/
def bytesToken (f : File) : String :=
  if f.extra ≠ 0 then "-"
  else
    let b := ReflWire.encFile f
    if b.length ≤ 96 then hex b else "h" ++ hex64 (ReflWire.fnv1a b)

/-- `files` paired with their (precomputed) bytes tokens -/
def indexOf (files : List (File × String)) (f : File) : String :=
  match files.findIdx? (fun g => decide (g.1 = f)) with
  | some i => s!"fd {i} {(files[i]?.map (·.2)).getD "-"}"
  | none => "fd-unknown"

/-- bytewise lexicographic order (Rust's `[u8]` / `str` order) -/
def bytesLe : Bytes → Bytes → Bool
  | [], _ => true
  | _ :: _, [] => false
  | a :: as, b :: bs => if a < b then true else if b < a then false else bytesLe as bs

def answerText (sortSvcs : Bool) (files : List (File × String)) : Reflection.Answer → List String
  | .fileDescriptor f => [indexOf files f]
  | .extensionNumbers => ["ext-empty"]
  | .services l => [s!"svcs {l.length}"] ++ (if sortSvcs then l.mergeSort bytesLe else l).map hex

/-- `r1`: the i-th response carries the i-th request's host and the request itself -/
def responseTexts (sortSvcs : Bool) (files : List (File × String)) : List Reflection.Request → List Reflection.Response → List String
  | rq :: rqs, rs :: rss =>
    (if decide (rs.validHost = rq.host) && decide (rs.originalRequest = rq) then "r1" else "r0")
      :: answerText sortSvcs files rs.answer ++ responseTexts sortSvcs files rqs rss
  | [], rs :: rss => "r0" :: answerText sortSvcs files rs.answer ++ responseTexts sortSvcs files [] rss
  | _, [] => []

def streamText (sortSvcs : Bool) (files : List (File × String)) (st : Reflection.State) (reqs : List Reflection.Request) : List String :=
  let (as, fin) := Reflection.runStream st reqs
  ["["] ++ responseTexts sortSvcs files reqs as ++
    (match fin with
     | none => ["end"]
     | some c => [s!"err {c.toNat}"]) ++ ["]"]

/-- the builder program of the case as a word -/
def Case.word (c : Case) : List Char :=
  match c.ops with
  | some w => w
  | none => List.replicate c.regs.length 'r' ++ List.replicate (c.chosen.getD []).length 'n'
      ++ [if c.inc then 'i' else 'o']

/-- the word as the oracle reads it -/
def callsOf : List Char → Option (List Spec.Reflection.Call)
  | [] => some []
  | ch :: r => do
    let k ← if ch = 'r' then some Spec.Reflection.Call.register
      else if ch = 'n' then some .serviceName
      else if ch = 'i' then some (.includeReflection true)
      else if ch = 'o' then some (.includeReflection false) else none
    let rest ← callsOf r
    pure (k :: rest)

/-- `inc`, `chosen`, `regs` of the case are what the documented API says the program configures -/
def Case.consistent (c : Case) : Bool :=
  match callsOf c.word with
  | none => false
  | some cs =>
    Spec.Reflection.registrationsOf cs == c.regs.length
      && Spec.Reflection.namesOf cs == (c.chosen.getD []).length
      && Spec.Reflection.includeOf cs == c.inc

/-- the word as calls on the model's builder: the k-th `r` is the k-th registration, the k-th `n`
the k-th chosen name -/
def builderOps : List Char → List Reflection.Reg → List Name → List Reflection.BuilderOp
  | [], _, _ => []
  | ch :: w, regs, names =>
    if ch = 'r' then
      match regs with
      | r :: regs' => .register r :: builderOps w regs' names
      | [] => builderOps w regs names
    else if ch = 'n' then
      match names with
      | n :: names' => .withServiceName n :: builderOps w regs names'
      | [] => builderOps w regs names
    else .includeReflectionService (ch = 'i') :: builderOps w regs names

def modelVersion (c : Case) (own : Option File) : String :=
  let b := Reflection.Builder.run (builderOps c.word (c.regs.map toReg) (c.chosen.getD []))
  let cfg : Reflection.Config := b.config (match own with | some o => [o] | none => [])
  match Reflection.build cfg with
  | .error e => errText e
  | .ok st =>
    let files := (allFiles c own).map (fun f => (f, bytesToken f))
    String.intercalate " " ("ok" :: (c.streams.map (streamText c.chosen.isNone files st)).flatten)

/-! ### observed side -/

inductive OAns where
  | fd (i : Nat) (bytes : Option Bytes) (raw : String) | ext | svcs (l : List Name) | junk (what : String)

inductive OEnd where
  | fin | err (code : Nat) | callErr | stalled | junk

inductive OBuild where
  | err | ok (streams : List (List OAns × OEnd)) | junk

def takeHex : Nat → List String → Option (List Name × List String)
  | 0, ts => some ([], ts)
  | k + 1, t :: ts => do
    let b ← unhex t
    let (r, ts') ← takeHex k ts
    pure (b :: r, ts')
  | _ + 1, [] => none

/-- one stream `[ … ]`; fuel = number of tokens -/
def oStream : Nat → List String → List OAns → Option ((List OAns × OEnd) × List String)
  | 0, _, _ => none
  | fuel + 1, ts, acc =>
    match ts with
    | "end" :: "]" :: r => some ((acc.reverse, .fin), r)
    | "err" :: c :: "]" :: r => some ((acc.reverse, .err (c.toNat?.getD 0)), r)
    | "call-err" :: _ :: "]" :: r => some ((acc.reverse, .callErr), r)
    | "stalled" :: "]" :: r => some ((acc.reverse, .stalled), r)
    | "r1" :: "fd" :: i :: w :: r => match i.toNat? with
        | some i => oStream fuel r (.fd i (unhex w) w :: acc)
        | none => none
    | "r1" :: "ext-empty" :: r => oStream fuel r (.ext :: acc)
    | "r1" :: "svcs" :: k :: r => match k.toNat? with
        | some k => match takeHex k r with
          | some (l, r') => oStream fuel r' (.svcs l :: acc)
          | none => none
        | none => none
    | "r1" :: "fds" :: _ :: r => oStream fuel r (.junk "fds" :: acc)
    | "r1" :: w :: r => oStream fuel r (.junk w :: acc)
    | "r0" :: _ => some ((acc.reverse ++ [.junk "echo"], .junk), [])
    | _ => none

def oStreams : Nat → List String → List (List OAns × OEnd) → Option (List (List OAns × OEnd) × List String)
  | 0, _, _ => none
  | fuel + 1, ts, acc =>
    match ts with
    | "[" :: r => match oStream (r.length + 1) r [] with
        | some (s, r') => oStreams fuel r' (s :: acc)
        | none => none
    | _ => some (acc.reverse, ts)

/-- observed tokens of one version, up to the next version marker -/
def oBuild (ts : List String) : OBuild × List String :=
  match ts with
  | "build-err" :: "decode" :: r => (.err, r)
  | "build-err" :: "invalid" :: r => (.err, r)
  | "ok" :: r => match oStreams (r.length + 1) r [] with
      | some (ss, r') => (.ok ss, r')
      | none => (.junk, [])
  | _ => (.junk, [])

/-! ### spec verdict on the observed answers -/

/-- when the answer bytes themselves were observed: the oracle's own protobuf reader (not
prost) turns them into exactly the registered descriptor -/
def decodesTo (files : List File) (i : Nat) : Option Bytes → Bool
  | none => true
  | some bs => match files[i]?, Spec.ReflWire.decFile 100 bs with
    | some f, some g => decide (g = f)
    | _, _ => false

open Spec.Reflection in
def judgeAnswer (c : Case) (files : List File) (rq : Reflection.Req) (a : OAns) : List (String × Bool) :=
  match rq, a with
  | _, .junk w =>
    if w = "fd-unknown" || w = "fd-undecodable" || w = "fds" then
      [("descriptor-decodes-to-registered", false)]
    else [("answer-shape:" ++ w, false)]
  | .fileContainingSymbol n, .fd i bs _ =>
    [("symbol-resolves-to-declaring-file", match files[i]? with
      | some f => declares f n
      | none => false),
     ("descriptor-decodes-to-registered", decodesTo files i bs)]
  | .fileContainingSymbol _, _ => [("symbol-answer-kind", false)]
  | .fileByFilename nm, .fd i bs _ =>
    [("file-by-name", match files[i]? with
      | some f => decide (f.name = some nm)
      | none => false),
     ("descriptor-decodes-to-registered", decodesTo files i bs)]
  | .fileByFilename _, _ => [("file-answer-kind", false)]
  | .listServices _, .svcs l =>
    match c.chosen with
    | some ch => [("services-chosen", decide (l = ch))]
    | none =>
      [("services-exactly-declared",
          -- without contested file names the list is, up to order, the services of one copy of
          -- every registered file (registering a file twice must not list its services twice)
          !(files.all (fun f => decide (Unconflicted files f)))
            || l.isPerm ((served files).flatMap serviceNames)),
       ("services-only-declared", l.all (fun n => files.any (fun f => declaresService f n))),
       ("services-all-declared", files.all (fun f => !decide (Unconflicted files f) ||
          f.services.all (fun s => match s.name with
            | some sn => l.contains (qual (pkg f) sn)
            | none => true)))]
  | .listServices _, _ => [("services-answer-kind", false)]
  | _, _ => []

open Spec.Reflection in
def judgeEnd (files : List File) (rq : Reflection.Req) (code : Nat) : List (String × Bool) :=
  match rq with
  | .fileContainingSymbol n =>
    [("unknown-is-not-found", code == 5),
     ("declared-symbol-resolves", files.all (fun f => !(decide (Unconflicted files f) && declares f n)))]
  | .fileByFilename nm =>
    [("unknown-is-not-found", code == 5),
     ("registered-file-retrievable", files.all (fun f => !decide (f.name = some nm)))]
  | _ => []

def judgeStream (c : Case) (files : List File) : List Reflection.Request → List OAns → OEnd → List (String × Bool)
  | rq :: rqs, a :: as, e => judgeAnswer c files rq.messageRequest a ++ judgeStream c files rqs as e
  | [], _ :: _, _ => [("more-answers-than-requests", false)]
  | [], [], .fin => []
  | _ :: _, [], .fin => [("answers-every-request", false)]
  | [], [], .err _ => [("error-without-request", false)]
  | rq :: _, [], .err code => judgeEnd files rq.messageRequest code
  | _, [], .callErr => [("service-reachable", false)]
  -- a lock-step client sent a request (or closed its side) and got nothing back
  | _, [], .stalled => [("answers-every-request", false)]
  | _, [], .junk => [("stream-shape", false)]

def judgeStreams (c : Case) (files : List File) : List (List Reflection.Request) → List (List OAns × OEnd) → List (String × Bool)
  | rs :: rss, (as, e) :: oss => judgeStream c files rs as e ++ judgeStreams c files rss oss
  | [], [] => []
  | _, _ => [("stream-count", false)]

def judgeVersion (c : Case) (own : Option File) (o : OBuild) : List (String × Bool) :=
  let files := allFiles c own
  let decodable := c.regs.all (fun r => match r with | .b => false | _ => true)
  let wellNamed := files.all Spec.Reflection.File.wellNamed
  match o with
  | .junk => [("observed-shape", false)]
  | .err => [("build-succeeds", !(decodable && wellNamed))]
  | .ok ss => judgeStreams c files c.streams ss

/-! ### v1 against v1alpha

With the own descriptors included the two services legitimately differ in what concerns those
descriptors.  `C19_versions_agree_every_request` / `_streams` / `_services` (Props/C19) say where
they must not: on every request that names nothing of an own descriptor, and on the service
list up to the services the own descriptors declare.  A stream is compared up to (excluding)
the first request that is not of that kind: from there on one service may have answered where
the other ended the stream. -/

/-- multiset difference -/
def mdiff (a b : List Name) : List Name := b.foldl List.erase a

open Spec.Reflection in
def outsideOwn (o1 o1a : File) : Reflection.Req → Bool
  | .fileContainingSymbol n => !declares o1 n && !declares o1a n
  | .fileByFilename nm => !decide (o1.name = some nm) && !decide (o1a.name = some nm)
  | _ => true

open Spec.Reflection in
def sameAnswer (c : Case) (o1 o1a : File) (rq : Reflection.Req) : OAns → OAns → Bool
  | .fd i _ w, .fd j _ w' => i == j && w == w'
  | .ext, .ext => true
  | .svcs l, .svcs l' =>
    match rq, c.chosen with
    | .listServices _, none =>
      (mdiff l l').all (declaresService o1) && (mdiff l' l).all (declaresService o1a)
    | _, _ => l == l'
  | _, _ => false

def agreeStream (c : Case) (o1 o1a : File) :
    List Reflection.Request → List OAns × OEnd → List OAns × OEnd → Bool
  | [], (as, e), (bs, e') =>
    as.isEmpty && bs.isEmpty && (match e, e' with | .fin, .fin => true | _, _ => false)
  | rq :: rqs, (as, e), (bs, e') =>
    if !outsideOwn o1 o1a rq.messageRequest then true
    else match as, bs with
      | a :: as', b :: bs' =>
        sameAnswer c o1 o1a rq.messageRequest a b && agreeStream c o1 o1a rqs (as', e) (bs', e')
      | [], [] => (match e, e' with
        | .err x, .err y => x == y
        | _, _ => false)
      | _, _ => false

def agreeStreams (c : Case) (o1 o1a : File) :
    List (List Reflection.Request) → List (List OAns × OEnd) → List (List OAns × OEnd) → Bool
  | rs :: rss, x :: xs, y :: ys => agreeStream c o1 o1a rs x y && agreeStreams c o1 o1a rss xs ys
  | [], [], [] => true
  | _, _, _ => false

def versionsAgree (c : Case) (t1 t1a : List String) (b1 b1a : OBuild) : Bool :=
  match c.own with
  | none => decide (t1 = t1a)
  | some (o1, o1a) =>
    match b1, b1a with
    | .err, .err => decide (t1 = t1a)
    | .ok s1, .ok s1a => agreeStreams c o1 o1a c.streams s1 s1a
    | _, _ => false

open Spec.Reflection in
/-- the `names <v1> <v1alpha>` tokens of a case driven through `Routes` / `transport::Server` -/
def judgeNames (c : Case) : List String → List (String × Bool)
  | [] => []
  | ["names", a, b] =>
    match unhex a, unhex b with
    | some a, some b =>
      [("route-name-is-protocol-name", decide (a = protocolNameV1) && decide (b = protocolNameV1alpha)),
       ("own-service-advertised-under-route-name", match c.own with
          | some (o1, o1a) => declaresService o1 a && declaresService o1a b
          | none => true)]
    | _, _ => [("observed-shape", false)]
  | _ => [("observed-shape", false)]

def splitAt (ts : List String) (marker : String) : List String × List String :=
  (ts.takeWhile (· ≠ marker), (ts.dropWhile (· ≠ marker)).drop 1)

def handle (case obs : List String) : String × String :=
  -- leading label (`corpus`, `structured`, …) is for the evidence statistics only
  let case := match case with
    | t :: r => if t = "inc" then case else r
    | [] => case
  match (pCase.run case) with
  | some (c, _) =>
    if !c.consistent then bad else
    let own1 := c.own.map (·.1)
    let own1a := c.own.map (·.2)
    let m1 := modelVersion c own1
    let m1a := modelVersion c own1a
    let cls := if m1.startsWith "ok" then "built"
      else if m1.startsWith "build-err decode" then "rejected-undecodable" else "rejected-unnamed"
    -- through `Routes` / `transport::Server` the harness also reports the names the servers are routed by
    let names := if c.via ≠ "direct" && m1.startsWith "ok" && m1a.startsWith "ok" then
        " names " ++ hex Reflection.serverNameV1 ++ " " ++ hex Reflection.serverNameV1alpha
      else ""
    let model := cls ++ " v1 " ++ m1 ++ names ++ " v1a " ++ m1a
    let v := match obs with
      | _ :: "v1" :: rest =>
        let (o1, o1a) := splitAt rest "v1a"
        let (b1, rest1) := oBuild o1
        let b1a := (oBuild o1a).1
        -- the answers of v1 without the trailing `names` tokens
        let o1s := o1.take (o1.length - rest1.length)
        let clauses := judgeVersion c own1 b1 ++ judgeVersion c own1a b1a
          ++ judgeNames c rest1
          -- the descriptor a version includes as its own is that version's reflection.proto
          ++ (match c.own with
              | some (x1, x1a) => [("own-descriptor-declares-protocol-service",
                  Spec.Reflection.declaresService x1 Spec.Reflection.protocolNameV1
                    && Spec.Reflection.declaresService x1a Spec.Reflection.protocolNameV1alpha)]
              | none => [])
          ++ [("versions-agree", versionsAgree c o1s o1a b1 b1a)]
        verdict clauses
      | _ => "fail:observed-shape"
    (model, v)
  | none => bad

end DriverC19
