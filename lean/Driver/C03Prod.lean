import Driver.Proto
import Driver.C12
import TonicModel.Model.RecoverError
import TonicModel.Model.Timeout
import TonicModel.Spec.GrpcResponse
import TonicModel.Spec.Interceptor
/-
C03, case kinds `prod …` (see harness/src/c03_prod.rs for the grammar): responses SYNTHESISED by
tonic.  For every case the model (`Model/RecoverError.lean`, `Model/Interceptor.lean`,
`Model/Timeout.lean`) PREDICTS the whole response, and the verdict is the response oracle
`Spec/GrpcResponse.lean` (plus `Spec/Interceptor.rejectClauses` where the case says which status
must travel) evaluated on what the real code produced.
-/
namespace DriverC03Prod
open Proto HMapLite HttpLite Interceptor RecoverError
open DriverC12 (P next pnat pbytes pflag phdrs ohdrs pbody rep showHdrs)

/-! ### case parsing -/

def pstatus : P GStatus := do
  let _ctor ← pnat
  let code ← pnat
  let msg ← pbytes
  let details ← pbytes
  let _src ← pflag
  let md ← phdrs
  pure { code := codeFromI32 code, message := msg, details := details, metadata := md }

def presp : P (Response Body) := do
  let status ← pnat
  let version ← pnat
  let h ← phdrs
  let b ← pbody
  pure { status := status, version := version, headers := h, ext := [], body := b }

def poptNat : P (Option Nat) := do
  let t ← next
  match optNat? t with
  | some v => pure v
  | none => failure

def pidxs : P (List Nat) := do
  let k ← pnat
  rep pnat k

/-- what the inner service of a `rec` case answers, and how long it takes -/
structure RecCase where
  /-- `Ok(response)` or `Err(e)`; an error is given by its source chain and its display text -/
  inner : Except (List Link × Bytes) (Response Body)
  /-- `gto`: configured timeout, caller's grpc-timeout, latency of the inner service -/
  timed : Option (Option Nat × Option Nat × Nat)

def wrapperText : Bytes := str "wrapper"

def wrapped (depth : Nat) (l : Link) (display : Bytes) : List Link × Bytes :=
  (List.replicate depth Link.opaque ++ [l], if depth = 0 then display else wrapperText)

def prec : P RecCase := do
  let _via ← next
  let kind ← next
  match kind with
  | "st" => do
    let st ← pstatus
    pure { inner := .error ([.status st], []), timed := none }
  | "box" => do
    let d ← pnat
    let st ← pstatus
    pure { inner := .error (wrapped d (.status st) []), timed := none }
  | "to" => pure { inner := .error ([.timeout], []), timed := none }
  | "boxto" => do
    let d ← pnat
    pure { inner := .error (wrapped d .timeout []), timed := none }
  | "gto" => do
    let cfg ← poptNat
    let client ← poptNat
    let l ← pnat
    let r ← presp
    pure { inner := .ok r, timed := some (cfg, client, l) }
  | "conn" => do
    let d ← pnat
    let text ← pbytes
    -- ConnectError's source is the error it wraps (unknown type)
    let (chain, disp) := wrapped d (.connect text) text
    pure { inner := .error (chain ++ [.opaque], disp), timed := none }
  | "h2" => do
    let r ← pnat
    let disp ← pbytes
    pure { inner := .error ([.h2 r disp], disp), timed := none }
  | "boxh2" => do
    let d ← pnat
    let r ← pnat
    pure { inner := .error (wrapped d (.h2 r []) []), timed := none }
  | "ok" => do
    let r ← presp
    pure { inner := .ok r, timed := none }
  | "other" => do
    let d ← pnat
    let text ← pbytes
    pure { inner := .error (wrapped d .opaque text), timed := none }
  | _ => failure

inductive Case
  | recov (kind : String) (c : RecCase)
  | fbRoutes
  | fbMethod (direct : Bool)
  | icpt (st : GStatus)
  | srvTimeout (server client : Option Nat) (latency : Nat)
  | srvLayer (depth : Nat) (st : GStatus)
  | srvPath
  | srvIcpt (st : GStatus)

def pcase : P Case := do
  let t ← next
  if t != "prod" then failure
  let k ← next
  match k with
  | "rec" => do
    let ts ← get
    let kind := (ts.drop 1).headD ""
    let c ← prec
    pure (.recov kind c)
  | "fb" => do
    let k2 ← next
    match k2 with
    | "routes" => do
      let _w ← next
      let _ ← pidxs
      let _ ← pbytes
      pure .fbRoutes
    | "method" => do
      let via ← next
      let _w ← next
      let _ ← pnat
      let _ ← pbytes
      pure (.fbMethod (via == "direct"))
    | _ => failure
  | "icpt" => do
    let _via ← next
    let st ← pstatus
    pure (.icpt st)
  | "srv" => do
    let k2 ← next
    match k2 with
    | "timeout" => do
      let s ← poptNat
      let c ← poptNat
      let l ← pnat
      pure (.srvTimeout s c l)
    | "layer" => do
      let d ← pnat
      let st ← pstatus
      pure (.srvLayer d st)
    | "path" => do
      let _ ← pidxs
      let _ ← pbytes
      pure .srvPath
    | "icpt" => do
      let st ← pstatus
      pure (.srvIcpt st)
    | _ => failure
  | _ => failure

def parseCase (ts : List String) : Option Case :=
  match pcase ts with
  | some (c, []) => some c
  | _ => none

/-! ### the model's prediction -/

inductive Pred
  | resp (status version : Nat) (headers : Hdrs) (frames : List Fr)
  | err (display : Bytes)
  | panic

def showFr : Fr → String
  | .data b => s!"d {hex b}"
  | .trailers h => s!"t {showHdrs h}"
  | .eos => "n"

def showPred : Pred → String
  | .resp s v h fs => s!"resp {s} {v} {showHdrs h} F {String.intercalate " " (fs.map showFr)}"
  | .err d => s!"err {hex d}"
  | .panic => "panic"

/-- the harness polls a directly driven body to its end and twice more; a body read off the
connection to its end only -/
def extraDirect : Nat := 2
def extraWire : Nat := 0

def ofOutcome (extra : Nat) (display : Bytes) : RecoverError.Outcome Body (List Link × Bytes) → Pred
  | .response r => .resp r.status r.version r.headers (bodyPolled Body.polled r.body extra)
  | .error _ => .err display
  | .panic => .panic

/-- the server's own service for `srv timeout`: `server::Grpc::unary` answering one message `[7]`
(headers: content-type; body: one frame, then OK trailers) — the answer of a handler, not a
synthesised response; its shape is the subject of the `resp` cases and of the body theorems. -/
def handlerAnswer : Response Body :=
  { status := 200, version := 11, headers := [(nameContentType, (grpcContentType, false))], ext := [],
    body := { chunks := [[0, 0, 0, 0, 1, 7]], trailers := some [(nameGrpcStatus, (str "0", false))] } }

def unitResp (r : Response Unit) (extra : Nat) : Pred :=
  .resp r.status r.version r.headers (List.replicate (extra + 1) Fr.eos)

def predict : Case → Pred
  | .recov _ c =>
    let inner : Except (List Link × Bytes) (Response Body) := match c.timed with
      | none => c.inner
      | some (cfg, client, l) =>
        -- GrpcTimeout under RecoverError: fails with TimeoutExpired when the shorter deadline fires first
        (match Timeout.run l (Timeout.effective client cfg) with
         | .timeout => .error ([.timeout], [])
         | _ => c.inner)
    let display := match inner with
      | .error e => e.2
      | .ok _ => []
    ofOutcome extraDirect display (recoverError (fun (e : List Link × Bytes) => e.1) inner)
  | .fbRoutes => (match routesFallback with
      | some r => unitResp (axumEmpty r) extraDirect
      | none => .panic)
  | .fbMethod _ => unitResp generatedUnimplemented extraDirect
  | .icpt st => (match rejectOutcomeWith addHeader (ρ := Unit) (ε := Unit) st with
      | .response r => .resp r.status r.version r.headers (List.replicate (extraDirect + 1) Fr.eos)
      | .error _ => .panic
      | .panic => .panic)
  | .srvTimeout s c l =>
    let inner : Except (List Link × Bytes) (Response Body) :=
      match Timeout.run l (Timeout.effective c s) with
      | .timeout => .error ([.timeout], [])
      | _ => .ok handlerAnswer
    (match recoverError (fun (e : List Link × Bytes) => e.1) inner with
     | .response r => ofOutcome extraWire [] (.response (onWire r))
     | o => ofOutcome extraWire [] o)
  | .srvLayer d st =>
    (match recoverError (ρ := Body) (fun (e : List Link × Bytes) => e.1) (.error (wrapped d (.status st) [])) with
     | .response r => ofOutcome extraWire [] (.response (onWire r))
     | o => ofOutcome extraWire [] o)
  | .srvPath => (match routesFallback with
      | some r => unitResp (onWire (axumEmpty r)) extraWire
      | none => .panic)
  | .srvIcpt st => (match rejectOutcomeWith addHeader (ρ := Unit) (ε := Unit) st with
      | .response r => .resp r.status 2 r.headers (List.replicate (extraWire + 1) Fr.eos)
      | .error _ => .panic
      | .panic => .panic)

/-! ### the observation -/

inductive Obs
  | resp (status version : Nat) (headers : Hdrs) (frames : List Fr)
  | err (display : Bytes)
  | other

def pframes : Nat → P (List Fr)
  | 0 => failure
  | fuel + 1 => do
    let ts ← get
    match ts with
    | [] => pure []
    | _ => do
      let t ← next
      let f ← (match t with
        | "d" => do let b ← pbytes; pure (Fr.data b)
        | "t" => do let h ← ohdrs; pure (Fr.trailers h)
        | "n" => pure Fr.eos
        | _ => failure : P Fr)
      let rest ← pframes fuel
      pure (f :: rest)

def pobs : P Obs := do
  let t ← next
  match t with
  | "resp" => do
    let s ← pnat
    let v ← pnat
    let h ← ohdrs
    let f ← next
    if f != "F" then failure
    let ts ← get
    let frames ← pframes (ts.length + 1)
    pure (.resp s v h frames)
  | "err" => do
    let d ← pbytes
    pure (.err d)
  | _ => failure

def parseObs (ts : List String) : Obs :=
  match pobs ts with
  | some (o, []) => o
  | _ => .other

/-! ### the verdict: the oracle on the observation -/

/-- what the protocol says a status code outside 0..16 is -/
def specCode (c : Nat) : Nat := if c ≤ 16 then c else 2

def specStatus (st : GStatus) : GStatus := { st with code := specCode st.code }

def isResp : Obs → Bool
  | .resp .. => true
  | _ => false

def oracle (o : Obs) : List (String × Bool) :=
  match o with
  | .resp s _ h fs => Spec.GrpcResponse.clauses { status := s, headers := h, frames := fs }
  | _ => [("a-response-is-produced", false)]

def codeIs (o : Obs) (c : Nat) : List (String × Bool) :=
  match o with
  | .resp s _ h fs =>
    [("grpc-status-is-the-expected-code",
      Spec.GrpcResponse.codeOf { status := s, headers := h, frames := fs } == some c)]
  | _ => []

/-- the response carries precisely this status, trailers-only -/
def carries (o : Obs) (st : GStatus) : List (String × Bool) :=
  match o with
  | .resp s _ h fs =>
    (Spec.Interceptor.rejectClauses (specStatus st) false
      { status := s, headers := h, endStream := fs.all Spec.GrpcResponse.isEos,
        frames := (fs.filter (fun f => !Spec.GrpcResponse.isEos f)).length }).drop 1
  | _ => []

def timeoutText : Bytes := Ascii.ofString "Timeout expired"

def expiredStatus : GStatus := { code := 1, message := timeoutText, details := [], metadata := [] }

/-- stated without the model: the call is cut iff a present deadline is shorter than the latency -/
def cut (a b : Option Nat) (l : Nat) : Bool :=
  (match a with | some x => x < l | none => false) || (match b with | some x => x < l | none => false)

def sameResp (r : Response Body) (o : Obs) (extra : Nat) : Bool :=
  match o with
  | .resp s v h fs =>
    s == r.status && v == r.version && Spec.Interceptor.hdrsEq h r.headers &&
    fs.length == (r.body.polled extra).length &&
    (fs.zip (r.body.polled extra)).all (fun p => match p with
      | (.data a, .data b) => a == b
      | (.trailers a, .trailers b) => Spec.Interceptor.hdrsEq a b
      | (.eos, .eos) => true
      | _ => false)
  | _ => false

def clausesFor (c : Case) (o : Obs) : List (String × Bool) :=
  match c with
  | .recov kind rc =>
    (match kind, rc.inner, rc.timed with
     | "ok", .ok r, _ => [("ok-response-passes-through-unchanged", sameResp r o extraDirect)]
     | "gto", .ok r, some (cfg, client, l) =>
       if cut cfg client l then oracle o ++ carries o expiredStatus
       else oracle o ++ [("ok-response-passes-through-unchanged", sameResp r o extraDirect)]
     | "other", .error e, _ => [("unconvertible-error-stays-an-error", match o with
         | .err d => d == e.2
         | _ => false)]
     | "boxh2", .error e, _ => [("unconvertible-error-stays-an-error", match o with
         | .err d => d == e.2
         | _ => false)]
     | "st", .error ([.status st], _), _ => oracle o ++ carries o st
     | "box", .error (chain, _), _ =>
       (match chain.getLast? with
        | some (.status st) => oracle o ++ carries o st
        | _ => [("bad-case", false)])
     | "to", _, _ => oracle o ++ carries o expiredStatus
     | "boxto", _, _ => oracle o ++ carries o expiredStatus
     | "conn", .error (chain, _), _ =>
       (match chain.find? (fun l => match l with | .connect _ => true | _ => false) with
        | some (.connect text) => oracle o ++ carries o { code := 14, message := text, details := [], metadata := [] }
        | _ => [("bad-case", false)])
     | "h2", _, _ => oracle o
     | _, _, _ => [("bad-case", false)])
  | .fbRoutes => oracle o ++ codeIs o 12
  | .fbMethod _ => oracle o ++ codeIs o 12
  | .icpt st => oracle o ++ carries o st
  | .srvTimeout s cl l =>
    if cut s cl l then oracle o ++ carries o expiredStatus else oracle o ++ codeIs o 0
  | .srvLayer _ st => oracle o ++ carries o st
  | .srvPath => oracle o ++ codeIs o 12
  | .srvIcpt st => oracle o ++ carries o st

def handle (case obs : List String) : String × String :=
  match parseCase case with
  | none => bad
  | some c =>
    let o := parseObs obs
    let abnormal := obs.any (fun t => t = "panic" || t = "busy-loop" || t = "hang" || t = "e" ||
      t = "unknown-frame" || t = "handler-ran" || t = "uri-path-differs" || t = "bad-case")
    (showPred (predict c),
     verdict ([("no-panic-no-hang", !abnormal)] ++ clausesFor c o))

end DriverC03Prod
