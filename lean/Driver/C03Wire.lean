import Driver.Framing
/-!
C03, dimension audit (builder aC03): verdicts for the case kinds `wresp`, `wreq`, `wsrv`, `wcli`
(`harness/src/c03_wire.rs`).  Oracle-only kinds: the spec predicate of the property text is evaluated on
what the real `server::Grpc` / `client::Grpc` / `transport::Server` / `Channel` produced; the body is
split by `Spec.Framing.split` (shares nothing with the model); the "model" column echoes the observation.
-/
namespace DriverC03Wire
open Proto Framing DriverFraming

def afterTok (t : String) : List String → List String
  | [] => []
  | x :: r => if x = t then r else afterTok t r

def beforeTok (t : String) : List String → List String
  | [] => []
  | x :: r => if x = t then [] else x :: beforeTok t r

def afterFirstT : List String → Option (List String)
  | [] => none
  | t :: r => if tokKind t = 't' then some r else afterFirstT r

def fieldOf (pfx : String) (obs : List String) : Option String :=
  ((beforeTok "B" obs).find? (fun t => t.startsWith pfx)).map (fun t => (t.drop pfx.length).toString)

def encOfName (b : Bytes) : Option Enc :=
  if b = Ascii.ofString "gzip" then some .gzip
  else if b = Ascii.ofString "deflate" then some .deflate
  else if b = Ascii.ofString "zstd" then some .zstd else none

/-- the tokens between `B` and `Z` (poll tokens, then `E…` and `H…`), and the reference-decompressor table -/
def bodyOf (obs : List String) : List String × ZTab :=
  let tail := afterTok "B" obs
  let toks := beforeTok "Z" tail
  let z := afterTok "Z" tail
  let tab : ZTab := match z with
    | k :: rest =>
      (match nat? k with
       | some k => (match parseZ k rest with | some (t, _) => t | none => [])
       | none => [])
    | [] => []
  (toks, tab)

def isPrefix : List Bytes → List Bytes → Bool
  | [], _ => true
  | _ :: _, [] => false
  | a :: as, b :: bs => a == b && isPrefix as bs

/-- the frames of the body, judged by the independent splitter: whole frames, flag 0 or 1, flag 1 only
with an announced encoding whose reference decompressor accepts the payload; `msgs` = what the frames carry -/
def frameClauses (ge : Option String) (polls : List String) (tab : ZTab) : List (String × Bool) × List Bytes × Nat :=
  let bytes := (obsData polls).flatten
  let (frs, left) := Spec.Framing.split bytes
  let announced : Option Enc := match ge with
    | some g => if g = "-" then none else (unhexBare g).bind encOfName
    | none => none
  let flagsOk := frs.all (fun fp =>
    if fp.1 = 0 then true
    else if fp.1 = 1 then
      (match announced with
       | some e => magicOk e fp.2 && (payloadMsg tab fp).isSome
       | none => false)
    else false)
  ([("body-is-whole-frames", left.isEmpty),
    ("flag-1-only-with-announced-encoding-and-really-compressed", flagsOk)],
   frs.filterMap (payloadMsg tab), frs.length)

def hintClauses (server : Bool) (toks : List String) : List (String × Bool) :=
  [("is-end-stream-only-after-the-trailers-or-last-data", endStreamOk server toks),
   ("size-hint-is-sound", sizeHintOk toks)]

def grpcCt : String := hexBare (Ascii.ofString "application/grpc")

/-- the status code a trailers token `t<k>:<code>` carries, and the number of grpc-status values in the block -/
def trailerCode (t : String) : Option (String × String) :=
  match ((t.drop 1).toString).splitOn ":" with
  | [k, c] => some (k, c)
  | _ => none

/-- Response clauses of the property text: HTTP 200, exactly one content-type = application/grpc, exactly one
grpc-status (in the headers of a body-less response, or in one trailers block with nothing after it), the
body a concatenation of well-formed messages — and the payloads are the handler's messages in order when
the request reached the handler. -/
def respVerdict (entry rq : String) (maxenc : Option Nat) (early endc : String) (msgs : List Bytes)
    (hints : Bool) (obs : List String) : String :=
  let (toks, tab) := bodyOf obs
  let polls := pollToks toks
  let nT := (polls.filter (fun t => tokKind t = 't')).length
  let gs := fieldOf "gs" obs
  let hasData := !(obsData polls).isEmpty
  let trailersOnly := gs.isSome && gs != some "-"
  let tTok := polls.find? (fun t => tokKind t = 't')
  let finalCode : Option String :=
    if trailersOnly then (gs.bind unhexBare).map (fun b => String.ofList (b.map (fun c => Char.ofNat c.toNat)))
    else (tTok.bind trailerCode).map (·.2)
  let single := entry = "u" || entry = "c"
  let reached := rq = "ok" || rq = "encid" || ((entry = "c" || entry = "b") && (rq = "ok2" || rq = "empty"))
  let expectedCode := if early ≠ "-" then early else if single then "0" else endc
  let expectMsgs : List Bytes :=
    if early ≠ "-" then [] else if single then [msgs.headD []] else msgs
  let (fcl, got, nfr) := frameClauses (fieldOf "ge" obs) polls tab
  let payloadsOk :=
    got.length == nfr &&
    (if !reached then true
     else match maxenc with
       | none => got == expectMsgs
       | some _ => isPrefix got expectMsgs)
  let statusOk :=
    if !reached then true
    else match maxenc with
      | none => finalCode == some expectedCode
      | some _ => if got == expectMsgs then finalCode == some expectedCode
                  else finalCode.isSome && finalCode != some "0"
  verdict ([("no-panic", !obs.any isBad && !obs.contains "bad-case"), ("no-lost-wakeup", noLostWakeup obs),
            ("http-200", fieldOf "S" obs == some "200"),
            ("content-type-application-grpc", fieldOf "ct" obs == some grpcCt),
            ("exactly-one-grpc-status",
               if trailersOnly then nT == 0 && !hasData && !((gs.getD "").contains ',')
               else nT == 1 && (tTok.bind trailerCode).map (·.1) == some "1" &&
                    (match afterFirstT polls with | some r => r.all (fun t => t = "n") | none => false)),
            ("status-is-the-handlers", statusOk)]
           ++ fcl ++ [("payloads-are-the-messages-in-order", payloadsOk)]
           ++ (if hints then hintClauses (!trailersOnly) toks else []))

def optNatTok (s : String) : Option Nat := if s = "none" then none else s.toNat?

def handleWresp (case obs : List String) : String :=
  match case with
  | "wresp" :: entry :: _send :: _acc :: rq :: maxenc :: _dis :: _sm :: early :: endc :: "HM" :: n :: rest =>
    (match (rest.drop (2 * (n.toNat?.getD 0))) with
     | "MSGS" :: ms => respVerdict entry rq (optNatTok maxenc) early endc (ms.filterMap unhexBare) true obs
     | _ => "fail:bad-case")
  | _ => "fail:bad-case"

def handleWsrv (case obs : List String) : String :=
  match case with
  | "wsrv" :: _stack :: entry :: _send :: _acc :: early :: endc :: "MSGS" :: ms =>
    -- read through hyper: the hints are those of hyper's Incoming, not tonic's
    respVerdict entry "ok" none early endc (ms.filterMap unhexBare) false obs
  | _ => "fail:bad-case"

/-- Request clauses of the property text: POST, HTTP/2, the method's path (behind the origin's path prefix, if
any), exactly one content-type = application/grpc and te = trailers, the body a concatenation of well-formed
messages carrying the caller's messages in order, no trailers. -/
def reqVerdict (entry : String) (expectPath : Bytes) (maxenc : Option Nat) (msgs : List Bytes)
    (hints : Bool) (obs : List String) : String :=
  let (toks, tab) := bodyOf obs
  let polls := pollToks toks
  let single := entry = "u" || entry = "s"
  let expectMsgs : List Bytes := if single then [msgs.headD []] else msgs
  let (fcl, got, nfr) := frameClauses (fieldOf "ge" obs) polls tab
  let errored := polls.any (fun t => tokKind t = 'e')
  let payloadsOk :=
    got.length == nfr &&
    (match maxenc with
     | none => got == expectMsgs && !errored
     | some _ => isPrefix got expectMsgs && (got == expectMsgs || errored))
  verdict ([("no-panic", !obs.any isBad && !obs.contains "bad-case"), ("no-lost-wakeup", noLostWakeup obs),
            ("method-POST", fieldOf "M" obs == some "POST"),
            ("http2", fieldOf "V" obs == some "HTTP/2.0"),
            ("path", (fieldOf "P" obs).bind unhexBare == some expectPath),
            ("content-type-application-grpc", fieldOf "ct" obs == some grpcCt),
            ("te-trailers", fieldOf "te" obs == some (hexBare (Ascii.ofString "trailers"))),
            ("no-trailers-in-request-body", (polls.filter (fun t => tokKind t = 't')).isEmpty)]
           ++ fcl ++ [("payloads-are-the-messages-in-order", payloadsOk)]
           ++ (if hints then hintClauses false toks else []))

/-- only the PATH of the origin (up to a `?`) goes in front of the method path; "" and "/" add nothing -/
def joinPath (o p : Bytes) : Bytes :=
  let op := o.takeWhile (· != 63)
  if op = [] ∨ op = Ascii.ofString "/" then p else op ++ p

def handleWreq (case obs : List String) : String :=
  match case with
  | "wreq" :: entry :: ctor :: _clone :: _nth :: _send :: _acc :: maxenc :: origin :: path :: rest =>
    let ms := (afterTok "MSGS" rest).filterMap unhexBare
    let o := (unhexBare origin).getD []
    let p := (unhexBare path).getD []
    reqVerdict entry (if ctor = "n" then p else joinPath o p) (optNatTok maxenc) ms true obs
  | _ => "fail:bad-case"

def handleWcli (case obs : List String) : String :=
  match case with
  | "wcli" :: _stack :: entry :: _send :: _origin :: path :: "MSGS" :: ms =>
    -- `Channel` takes scheme and authority from the endpoint, never a path: the method path goes out as it is
    reqVerdict (if entry = "u" then "u" else "c") ((unhexBare path).getD []) none (ms.filterMap unhexBare) false obs
  | _ => "fail:bad-case"

def handle (case obs : List String) : String × String :=
  let v := match case with
    | "wresp" :: _ => handleWresp case obs
    | "wreq" :: _ => handleWreq case obs
    | "wsrv" :: _ => handleWsrv case obs
    | "wcli" :: _ => handleWcli case obs
    | _ => "fail:bad-case"
  (String.intercalate " " obs, v)

end DriverC03Wire
