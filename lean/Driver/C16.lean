import Driver.Proto
import TonicModel.Model.WebServer
import TonicModel.Model.WebServerX
import TonicModel.Spec.GrpcWeb
import TonicModel.Spec.BodyHints
namespace DriverC16
open Proto WebServer
open TMap (Pair str)

/-! token helpers (shared with C17's driver) -/

def parsePairs : Nat → List String → Option (List Pair × List String)
  | 0, r => some ([], r)
  | n + 1, k :: v :: r => do
    let kb ← unhex k
    let vb ← unhex v
    let (ps, r') ← parsePairs n r
    some ((kb, vb) :: ps, r')
  | _ + 1, _ => none

def parseEvsAux : Nat → List String → Option (List BodyEv)
  | _, [] => some []
  | 0, _ => none
  | f + 1, "d" :: h :: r => do
    let b ← unhex h
    let es ← parseEvsAux f r
    some (.data b :: es)
  | f + 1, "e" :: r => (parseEvsAux f r).map (.err :: ·)
  | f + 1, "p" :: r => (parseEvsAux f r).map (.pending :: ·)
  | f + 1, "t" :: n :: r => do
    let n ← nat? n
    let (ps, r') ← parsePairs n r
    let es ← parseEvsAux f r'
    some (.trailers ps :: es)
  | _ + 1, _ => none

def parseEvs (ts : List String) : Option (List BodyEv) := parseEvsAux (ts.length + 1) ts

def renderPairs (ps : List Pair) : List String :=
  ps.flatMap (fun p => [hex p.1, hex p.2])

def renderOuts : List Out → List String
  | [] => []
  | .data b :: r => "d" :: hex b :: renderOuts r
  | .trailers h :: r => "t" :: toString h.length :: (renderPairs h ++ renderOuts r)
  | .err :: r => "err" :: renderOuts r
  | .eos :: r => "eos" :: renderOuts r

/-- observed frame tokens back into `Out`s -/
def parseOutsAux : Nat → List String → Option (List Out)
  | _, [] => some []
  | 0, _ => none
  | f + 1, "d" :: h :: r => do
    let b ← unhex h
    let os ← parseOutsAux f r
    some (.data b :: os)
  | f + 1, "err" :: r => (parseOutsAux f r).map (.err :: ·)
  | f + 1, "eos" :: r => (parseOutsAux f r).map (.eos :: ·)
  | f + 1, "t" :: n :: r => do
    let n ← nat? n
    let (ps, r') ← parsePairs n r
    let os ← parseOutsAux f r'
    some (.trailers ps :: os)
  | _ + 1, _ => none

def parseOuts (ts : List String) : Option (List Out) := parseOutsAux (ts.length + 1) ts

def optHex (s : String) : Option (Option Bytes) :=
  if s = "none" then some none else (unhex s).map some

def tokOpt : Option Bytes → String
  | none => "none"
  | some b => hex b

def join (ts : List String) : String := String.intercalate " " ts

def onlyData : List Out → Bool
  | [] => true
  | .data _ :: r => onlyData r
  | _ => false

/-- all `Out`s are data except a final `eos` -/
def dataThenEos (o : List Out) : Bool :=
  o.getLast? == some .eos && onlyData o.dropLast

def isData : BodyEv → Bool
  | .data _ => true
  | _ => false

def isTrailers : BodyEv → Bool
  | .trailers _ => true
  | _ => false

def dataChunks : List BodyEv → List Bytes
  | [] => []
  | .data b :: r => b :: dataChunks r
  | _ :: r => dataChunks r

def splitLast {α : Type} (l : List α) : Option (List α × α) :=
  match l.getLast? with
  | some x => some (l.dropLast, x)
  | none => none

/-! ### spec verdicts (written against `Spec.GrpcWeb`, evaluated on the OBSERVED output) -/

/-- response side: `evs` is what the inner service's body produced. -/
def respVerdict (text : Bool) (evs : List BodyEv) (obs : List Out) : String :=
  let es := evs.filter notPending
  match es.find? (fun e => !isData e) with
  | none =>
    -- no trailers, no error: the body is the inner bytes and nothing else
    let raw := if text then Spec.GrpcWeb.b64StreamDecode (dataOf obs) else some (dataOf obs)
    verdict [("only-data-then-eos", dataThenEos obs), ("body-identical", raw == some (flat es))]
  | some .err =>
    -- the first non-data event is an error
    verdict [("error-not-clean", obs.getLast? == some .err)]
  | some (.trailers t) =>
    match splitLast es with
    | some (ds, .trailers _) =>
      if ds.all isData then
        let body := dataOf obs
        let inner := flat ds
        let raw := if text then Spec.GrpcWeb.b64StreamDecode body else some body
        match raw with
        | none => "fail:text-body-not-base64"
        | some raw =>
          let tail := raw.drop inner.length
          let tr := match Spec.GrpcWeb.parseItems tail with
            | some [.trailers t'] => some t'
            | _ => none
          let whole : Bool := match Spec.GrpcWeb.parseItems inner, tr with
            | some msgs, some t' => Spec.GrpcWeb.read text body == some (msgs ++ [.trailers t'])
            | none, _ => true
            | _, none => false
          verdict [("only-data-then-eos", dataThenEos obs),
                   ("message-bytes-identical", raw.take inner.length == inner),
                   ("exactly-one-trailers-frame", tr.isSome),
                   ("every-trailer-listed", match tr with
                      | some t' => Spec.GrpcWeb.sameTrailers t' t && t'.length == t.length
                      | none => false),
                   ("whole-body-reads", whole)]
      else "ok"   -- frames after the trailers: not an HTTP body, outside the property
    | _ => "ok"
  | some _ => "ok"

/-- padding only in the final quantum (a single base64 stream) -/
def canonicalText (s : Bytes) : Bool := (s.take (s.length - 2)).all (· != 61)

/-- request side: `evs` is the grpc-web request body, `obs` the frames the inner service got. -/
def reqVerdict (text : Bool) (evs : List BodyEv) (obs : List Out) : String :=
  let es := evs.filter notPending
  match es.find? (fun e => !isData e) with
  | none =>
    if text then
      match Spec.GrpcWeb.b64StreamDecode (flat es) with
      | none => verdict [("malformed-text-is-error", obs.getLast? == some .err)]
      | some payload =>
        let good := dataThenEos obs && dataOf obs == payload
        if canonicalText (flat es) then verdict [("payload-identical", good)]
        else verdict [("payload-identical-or-error", good || obs.getLast? == some .err)]
    else
      verdict [("chunks-identical", obs == (dataChunks es).map Out.data ++ [.eos])]
  | some .err => verdict [("error-not-clean", obs.getLast? == some .err)]
  | some _ => "ok"

def kindResp : List BodyEv :=
  [.data [0, 0, 0, 0, 1, 7], .trailers [(str "grpc-status", str "0")]]

def firstFail (vs : List String) : String :=
  match vs.find? (· != "ok") with
  | some v => v
  | none => "ok"

/-! ### header maps in the line protocol: all entries, stably sorted by name -/

def bytesLe : Bytes → Bytes → Bool
  | [], _ => true
  | _ :: _, [] => false
  | a :: as, b :: bs => if a.toNat < b.toNat then true else if b.toNat < a.toNat then false else bytesLe as bs

def insertByName (p : Pair) : List Pair → List Pair
  | [] => [p]
  | q :: r => if bytesLe p.1 q.1 then p :: q :: r else q :: insertByName p r

/-- stable w.r.t. equal names (folding from the right, an earlier entry goes in front) -/
def sortByName (l : List Pair) : List Pair := l.foldr insertByName []

def renderHeaders (h : List Pair) : List String :=
  toString h.length :: renderPairs (sortByName h)

/-- `<n> (name value){n} rest…` -/
def parseHeaders : List String → Option (List Pair × List String)
  | n :: r => (nat? n).bind (fun n => parsePairs n r)
  | [] => none

def verTok : Ver → String
  | .h09 => "h09" | .h10 => "h10" | .h11 => "h11" | .h2 => "h2" | .h3 => "h3"

def parseVer : String → Option Ver
  | "h09" => some .h09 | "h10" => some .h10 | "h11" => some .h11 | "h2" => some .h2 | "h3" => some .h3
  | _ => none

def pairsOf (l : List (String × String)) : List Pair := l.map (fun p => (str p.1, str p.2))

/-- what the harness's inner service answers with (c16.rs `INNER_RESP_HEADERS`) -/
def innerRespHeaders : List Pair :=
  pairsOf [("content-type", "application/grpc"), ("x-inner", "a"), ("content-type", "dup"), ("x-inner", "b")]

/-- headers the `req` cases send next to the content type (c16.rs `REQ_EXTRA`) -/
def reqExtra : List Pair :=
  pairsOf [("content-length", "123"), ("te", "gzip"), ("accept-encoding", "br"), ("x-user", "a"), ("x-user", "b")]

/-! ### comparison of model and observation where the property does not fix frame boundaries

The response side and the text-mode request side promise bytes, not the places where the
output is cut into frames (`C16_response_lossless`, `C16_request_text_lossless` conclude about
the concatenation).  There the model and the observation are compared in a canonical form —
concatenated data (text mode: after the independent base64 reader), the non-data frames in
order, the terminal frame — and when they agree in that form the driver answers with the
observed tokens themselves.  Binary-mode requests (`C16_request_binary_lossless`: chunk for
chunk) are compared exactly.  The spec verdict always sees the exact observation. -/

def isDataOut : Out → Bool
  | .data _ => true
  | _ => false

inductive Cmp where
  | exact
  /-- concatenated data (decoded when `text`), other frames in order -/
  | bytes (text : Bool)
  /-- as `bytes false`, and a run that ends in an error is only compared as "ends in an error"
  (how much was handed on before a malformed text body was found out is not fixed either) -/
  | bytesCleanOnly
  deriving DecidableEq

def canonEq (c : Cmp) (m o : List Out) : Bool :=
  match c with
  | .exact => m == o
  | .bytes text =>
    let dm := if text then Spec.GrpcWeb.b64StreamDecode (dataOf m) else some (dataOf m)
    let d := if text then Spec.GrpcWeb.b64StreamDecode (dataOf o) else some (dataOf o)
    dm.isSome && dm == d && m.filter (!isDataOut ·) == o.filter (!isDataOut ·)
  | .bytesCleanOnly =>
    if m.getLast? == some .err then o.getLast? == some .err
    else dataOf m == dataOf o && m.filter (!isDataOut ·) == o.filter (!isDataOut ·)

/-- identity on a body: what `untouched` means for the frames of a passed-through body -/
def idOuts : List BodyEv → List Out
  | [] => [.eos]
  | .data b :: r => .data b :: idOuts r
  | .trailers h :: r => .trailers (TMap.group h) :: idOuts r
  | .err :: _ => [.err]
  | .pending :: r => idOuts r

def CT : Bytes := str "content-type"

/-- every name outside `touched` has the same values, in the same order, in both maps -/
def othersKept (touched : List Bytes) (before after : List Pair) : Bool :=
  (before ++ after).all (fun p => touched.contains p.1 || TMap.getAll p.1 before == TMap.getAll p.1 after)

def reqTouched : List Bytes := [CT, str "te", str "content-length", str "accept-encoding"]

/-- the translated request's headers as the property (and gRPC) want them -/
def reqHeaderClauses (before after : List Pair) : List (String × Bool) :=
  [("grpc-content-type", TMap.getAll CT after == [Spec.GrpcWeb.grpcContentType]),
   ("te-trailers", TMap.getAll (str "te") after == [str "trailers"]),
   ("content-length-removed", TMap.getAll (str "content-length") after == []),
   ("user-headers-kept", othersKept reqTouched before after)]

def respHeaderClauses (text : Bool) (before after : List Pair) : List (String × Bool) :=
  [("response-content-type", TMap.getAll CT after == [Spec.GrpcWeb.responseContentType text]),
   ("response-headers-kept", othersKept [CT] before after)]

def encOfText (t : Bool) : Cmp := if t then .bytesCleanOnly else .exact

def handle0 (case obs : List String) : String × String :=
  match case with
  | "resp" :: acc :: evToks =>
    match optHex acc, parseEvs evToks with
    | some accept, some evs =>
      let hs : List Pair := (CT, GRPC_WEB) :: (match accept with | some a => [(ACCEPT, a)] | none => [])
      let p : Parts := { method := str "POST", version := .h11, uri := str "/", headers := hs, ext := false }
      let r := respond p [] 200 innerRespHeaders evs
      let head := toString r.status :: "h" :: renderHeaders r.headers
      let text := match Spec.GrpcWeb.expectFor p.method false hs with
        | .web _ t => t
        | _ => false
      -- observed: `<status> h <n> (name value)* <frames>`
      let parsed : Option (String × List Pair × List Out) := match obs with
        | st :: "h" :: r => do
          let (h, fr) ← parseHeaders r
          let o ← parseOuts fr
          some (st, h, o)
        | _ => none
      let model := match parsed with
        | some (st, h, o) =>
          if st :: "h" :: renderHeaders h == head && canonEq (.bytes text) r.body o then join obs
          else join (head ++ renderOuts r.body)
        | none => join (head ++ renderOuts r.body)
      let v := match parsed with
        | some (st, h, o) =>
          firstFail [verdict ([("status-200", st == "200")] ++ respHeaderClauses text innerRespHeaders h),
                     respVerdict text evs o]
        | none => "fail:unreadable-observation"
      (model, v)
    | _, _ => bad
  | "req" :: ct :: evToks =>
    match optHex ct, parseEvs evToks with
    | some ct, some evs =>
      let hs : List Pair := reqExtra ++ (match ct with | some c => [(CT, c)] | none => [])
      let p : Parts := { method := str "POST", version := .h11, uri := str "/", headers := hs, ext := false }
      -- observed: `<status> h <n> (name value)* | <frames>` or `<status> skipped`
      let parsed : Option (String × List Pair × List Out) := match obs with
        | st :: "h" :: r => do
          let (h, fr) ← parseHeaders r
          match fr with
          | "|" :: fr => (parseOuts fr).map (fun o => (st, h, o))
          | _ => none
        | _ => none
      let model := match serve p evs with
        | .inner p' body _ =>
          let head := "200" :: "h" :: renderHeaders p'.headers
          let textReq := match actionOf p with
            | .web .base64 _ => true
            | _ => false
          match parsed with
          | some (st, h, o) =>
            if st :: "h" :: renderHeaders h == head && canonEq (encOfText textReq) body o then join obs
            else join (head ++ ["|"] ++ renderOuts body)
          | none => join (head ++ ["|"] ++ renderOuts body)
        | .immediate c => s!"{c} skipped"
      let v := match Spec.GrpcWeb.expectFor p.method false hs with
        | .status c => verdict [("not-grpc-web-400", obs == [toString c, "skipped"])]
        | .pass => "fail:unexpected-pass"
        | .web text _ =>
          match parsed with
          | some (st, h, o) =>
            firstFail [verdict ([("status-200", st == "200")] ++ reqHeaderClauses hs h), reqVerdict text evs o]
          | none => "fail:unreadable-observation"
      (model, v)
    | _, _ => bad
  | "call" :: m :: ver :: uri :: ext :: n :: rest =>
    match unhex m, parseVer ver, unhex uri, nat? n with
    | some method, some version, some uri, some n =>
      match parsePairs n rest with
      | some (hs, evToks) =>
        match parseEvs evToks, ext == "0" || ext == "1" with
        | some evs, true =>
          let p : Parts := { method := method, version := version, uri := uri, headers := hs, ext := ext == "1" }
          let r := respond p evs 200 innerRespHeaders kindResp
          let respHead := "rh" :: renderHeaders r.headers
          let partsToks (q : Parts) : List String :=
            [hex q.method, verTok q.version, hex q.uri, if q.ext then "1" else "0", "h"] ++ renderHeaders q.headers
          -- observed: `<st> skipped rh <hdrs> <frames>` |
          --           `<st> called <m> <ver> <uri> <ext> h <hdrs> b <frames> | rh <hdrs> <frames>`
          let parsedCalled : Option (String × Parts × List Out × List Pair × List Out) := match obs with
            | st :: "called" :: m' :: v' :: u' :: e' :: "h" :: r => do
              let m' ← unhex m'
              let v' ← parseVer v'
              let u' ← unhex u'
              let (h, r) ← parseHeaders r
              match r with
              | "b" :: r =>
                let reqFrames := r.takeWhile (· != "|")
                match (r.dropWhile (· != "|")).drop 1 with
                | "rh" :: r2 => do
                  let ro ← parseOuts reqFrames
                  let (rh, fr) ← parseHeaders r2
                  let po ← parseOuts fr
                  some (st, ({ method := m', version := v', uri := u', headers := h, ext := e' == "1" } : Parts), ro, rh, po)
                | _ => none
              | _ => none
            | _ => none
          let model := match serve p evs with
            | .immediate c => join ([toString c, "skipped"] ++ respHead ++ renderOuts r.body)
            | .inner p' body acc =>
              let exactLine := join (["200", "called"] ++ partsToks p' ++ ["b"] ++ renderOuts body ++ ["|"] ++ respHead ++ renderOuts r.body)
              match acc, parsedCalled with
              | some a, some (st, q, ro, rh, po) =>
                let textReq := match actionOf p with
                  | .web .base64 _ => true
                  | _ => false
                if st == "200" && partsToks q == partsToks p' && canonEq (encOfText textReq) body ro
                   && renderHeaders rh == renderHeaders r.headers && canonEq (.bytes (a == Enc.base64)) r.body po
                then join obs else exactLine
              | _, _ => exactLine
          let isH2 := version == Ver.h2
          let v := match Spec.GrpcWeb.expectFor method isH2 hs with
            | .status c =>
              verdict [("immediate-status-inner-not-called", obs == [toString c, "skipped", "rh", "0", "eos"])]
            | .pass =>
              -- untouched: the very same method, version, uri, extensions, header entries and body
              -- frames reach the inner service, and its response comes back as it is
              let want := join (["200", "called", hex method, verTok version, hex uri, ext, "h"] ++ renderHeaders hs
                ++ ["b"] ++ renderOuts (idOuts evs) ++ ["|", "rh"] ++ renderHeaders innerRespHeaders
                ++ renderOuts (idOuts kindResp))
              verdict [("passed-through-untouched", join obs == want)]
            | .web rt pt =>
              match parsedCalled with
              | some (st, q, ro, rh, po) =>
                firstFail [verdict ([("status-200", st == "200"),
                                     ("method-version-uri-extensions-kept",
                                        q.method == method && q.version == version && q.uri == uri && q.ext == (ext == "1"))]
                                    ++ reqHeaderClauses hs q.headers ++ respHeaderClauses pt innerRespHeaders rh),
                           reqVerdict rt evs ro, respVerdict pt kindResp po]
              | none => "fail:translated-request-expected"
          (model, v)
        | _, _ => bad
      | none => bad
    | _, _, _, _ => bad
  | _ => bad

/-! ### the kinds of the dimension audit (aC16; harness/src/c16_x.rs) -/

/-- What the harness's scripted body says about itself in state `s` (c16.rs `ScriptBody`: bit 0 = exact size of the
data still to come, bit 1 = at end of stream once no event is left).  Environment, not tonic. -/
def scriptHint (hints : Nat) (s : List BodyEv) : Hint :=
  let n := (flat s).length
  { lo := if hints % 2 == 1 then n else 0,
    hi := if hints % 2 == 1 then some n else none,
    eos := hints / 2 % 2 == 1 && s.isEmpty }

def hintTok (h : Hint) : String :=
  toString h.lo ++ ":" ++ (match h.hi with | some u => toString u | none => "-")

def renderHints (hs : List Hint) : List String :=
  ["E", String.ofList (hs.map (fun h => if h.eos then '1' else '0')), "H"] ++ hs.map hintTok

def parseHintTok (e : Char) (t : String) : Option Hint :=
  match t.splitOn ":" with
  | [l, u] => do
    let lo ← nat? l
    let hi ← if u == "-" then some none else (nat? u).map some
    some { lo := lo, hi := hi, eos := e == '1' }
  | _ => none

def zipHints : List Char → List String → Option (List Hint)
  | [], [] => some []
  | e :: es, t :: ts => do
    let h ← parseHintTok e t
    let r ← zipHints es ts
    some (h :: r)
  | _, _ => none

/-- `… E <bits> H <lo:hi>*` at the end of an observation: (what precedes it, the readings) -/
def splitHints (obs : List String) : Option (List String × List Hint) :=
  let front := obs.takeWhile (· != "E")
  match obs.dropWhile (· != "E") with
  | "E" :: bits :: "H" :: toks => (zipHints bits.toList toks).map (fun hs => (front, hs))
  | _ => none

def outDataLens : List Out → List Nat
  | [] => []
  | .data b :: r => b.length :: outDataLens r
  | _ :: r => outDataLens r

def outOthers : List Out → Nat
  | [] => 0
  | .trailers _ :: r => outOthers r + 1
  | _ :: r => outOthers r

/-- every reading is truthful about the frames that followed it (`Spec.BodyHints`); one reading per frame asked for -/
def hintsTruthfulAux : List Hint → List Out → Bool
  | [], [] => true
  | h :: hs, o :: os =>
    Spec.BodyHints.truthful
      { lo := h.lo, hi := h.hi, eos := h.eos,
        restData := outDataLens (o :: os), restOther := outOthers (o :: os),
        clean := (o :: os).getLast? == some .eos }
    && hintsTruthfulAux hs os
  | _, _ => false

def hintsVerdict (hs : List Hint) (frames : List String) : String :=
  match parseOuts frames with
  | some o => verdict [("hints-truthful", hintsTruthfulAux hs o)]
  | none => "fail:unreadable-observation"

def framesAfterBar (front : List String) : List String := (front.dropWhile (· != "|")).drop 1

def splitOnTok (sep : String) (l : List String) : List (List String) :=
  let r := l.foldr (fun t (acc : List String × List (List String)) =>
    if t == sep then ([], acc.1 :: acc.2) else (t :: acc.1, acc.2)) ([], [])
  r.1 :: r.2

def headToks (h : RespHead) : List String :=
  [toString h.status, verTok h.version, if h.ext then "1" else "0", "h"] ++ renderHeaders h.headers

/-- `resph <hints> …`: the inner response body additionally gives size / end-of-stream hints; hints must
not change what the layer emits, so the case is judged exactly like `resp`. -/
def handle (case obs : List String) : String × String :=
  match case with
  | "resph" :: _hints :: rest => handle0 ("resp" :: rest) obs
  -- hresp <hints> <acc> <evs>: `resp`, and the hints of the returned body before every frame
  | "hresp" :: hints :: acc :: evToks =>
    match nat? hints, optHex acc, parseEvs evToks with
    | some hn, some accept, some evs =>
      let a := encFromHeader accept
      let mh := renderHints (respHints (scriptHint hn) a evs)
      match splitHints obs with
      | some (front, hs) =>
        let (m, v) := handle0 ("resp" :: acc :: evToks) front
        (join (toks m ++ mh), firstFail [v, hintsVerdict hs (match front with
          | _ :: "h" :: r => (match parseHeaders r with | some (_, fr) => fr | none => [])
          | _ => [])])
      | none =>
        let (m, _) := handle0 ("resp" :: acc :: evToks) obs
        (join (toks m ++ mh), "fail:unreadable-observation")
    | _, _, _ => bad
  -- hreq <hints> <ct> <evs>: `req`, and the hints of the body the inner service is handed
  | "hreq" :: hints :: ct :: evToks =>
    match nat? hints, optHex ct, parseEvs evToks with
    | some hn, some ctv, some evs =>
      match obs with
      | [_, "skipped"] => handle0 ("req" :: ct :: evToks) obs
      | _ =>
        let e := encFromHeader ctv
        let mh := if isGrpcWeb ctv then renderHints (reqHints (scriptHint hn) e evs) else []
        match splitHints obs with
        | some (front, hs) =>
          let (m, v) := handle0 ("req" :: ct :: evToks) front
          (join (toks m ++ mh), firstFail [v, hintsVerdict hs (framesAfterBar front)])
        | none =>
          let (m, _) := handle0 ("req" :: ct :: evToks) obs
          (join (toks m ++ mh), "fail:unreadable-observation")
    | _, _, _ => bad
  -- rhead <acc> <status> <ver> <ext> <n> (k v)* <evs>: the inner response's head is a dimension
  | "rhead" :: acc :: st :: ver :: ext :: n :: rest =>
    match optHex acc, nat? st, parseVer ver, nat? n with
    | some accept, some status, some version, some n =>
      match parsePairs n rest with
      | some (hs, evToks) =>
        match parseEvs evToks, ext == "0" || ext == "1" with
        | some evs, true =>
          let a := encFromHeader accept
          let inner : RespHead := { status := status, version := version, ext := ext == "1", headers := hs }
          let mhead := coerceResponseHead a inner
          let mbody := respRun a evs
          let reqHs : List Pair := (CT, GRPC_WEB) :: (match accept with | some x => [(ACCEPT, x)] | none => [])
          let text := match Spec.GrpcWeb.expectFor (str "POST") false reqHs with
            | .web _ t => t
            | _ => false
          -- observed: `<status> <ver> <ext> h <n> (name value)* <frames>`
          let parsed : Option (RespHead × List Out) := match obs with
            | st' :: v' :: e' :: "h" :: r => do
              let st' ← nat? st'
              let v' ← parseVer v'
              let (h, fr) ← parseHeaders r
              let o ← parseOuts fr
              some ({ status := st', version := v', ext := e' == "1", headers := h }, o)
            | _ => none
          let exactLine := join (headToks mhead ++ renderOuts mbody)
          let model := match parsed with
            | some (h, o) => if headToks h == headToks mhead && canonEq (.bytes text) mbody o then join obs else exactLine
            | none => exactLine
          let v := match parsed with
            | some (h, o) =>
              firstFail [verdict ([("inner-status-kept", h.status == status),
                                   ("inner-version-kept", h.version == version),
                                   ("inner-extensions-kept", h.ext == (ext == "1"))]
                                  ++ respHeaderClauses text hs h.headers),
                         respVerdict text evs o]
            | none => "fail:unreadable-observation"
          (model, v)
        | _, _ => bad
      | none => bad
    | _, _, _, _ => bad
  -- seq <mode> ;; <call> ;; <call> …: a history on one configured value; every call is judged as if it were alone
  | "seq" :: _mode :: ";;" :: rest =>
    let cases := splitOnTok ";;" rest
    let obss := splitOnTok ";;" obs
    if cases.length != obss.length then
      (join (List.intercalate [";;"] (cases.map (fun c => toks (handle0 c []).1))), "fail:one-answer-per-call")
    else
      let rs := (cases.zip obss).map (fun co => handle0 co.1 co.2)
      (join (List.intercalate [";;"] (rs.map (fun r => toks r.1))), firstFail (rs.map (·.2)))
  -- wresp <stack> <proto> <hints> <acc> <evs>: `resp` through the real transport::Server, read by a raw hyper client
  | "wresp" :: _stack :: _proto :: _hints :: rest => handle0 ("resp" :: rest) obs
  | _ => handle0 case obs

end DriverC16
