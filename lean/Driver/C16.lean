import Driver.Proto
import TonicModel.Model.WebServer
import TonicModel.Spec.GrpcWeb
namespace DriverC16
open Proto WebServer
open TMap (Pair str)

/-! token helpers (shared with C17's driver) -/

def parsePairs : Nat → List String → Option (List Pair × List String)
  | 0, r => some ([], r)
  | n + 1, k :: v :: r => do
    let kb ← unhex k
    let vb ← unhex v
    let (ps, r') ← parsePairs n r
    some ((kb, vb) :: ps, r')
  | _ + 1, _ => none

def parseEvsAux : Nat → List String → Option (List BodyEv)
  | _, [] => some []
  | 0, _ => none
  | f + 1, "d" :: h :: r => do
    let b ← unhex h
    let es ← parseEvsAux f r
    some (.data b :: es)
  | f + 1, "e" :: r => (parseEvsAux f r).map (.err :: ·)
  | f + 1, "p" :: r => (parseEvsAux f r).map (.pending :: ·)
  | f + 1, "t" :: n :: r => do
    let n ← nat? n
    let (ps, r') ← parsePairs n r
    let es ← parseEvsAux f r'
    some (.trailers ps :: es)
  | _ + 1, _ => none

def parseEvs (ts : List String) : Option (List BodyEv) := parseEvsAux (ts.length + 1) ts

def renderPairs (ps : List Pair) : List String :=
  ps.flatMap (fun p => [hex p.1, hex p.2])

def renderOuts : List Out → List String
  | [] => []
  | .data b :: r => "d" :: hex b :: renderOuts r
  | .trailers h :: r => "t" :: toString h.length :: (renderPairs h ++ renderOuts r)
  | .err :: r => "err" :: renderOuts r
  | .eos :: r => "eos" :: renderOuts r

/-- observed frame tokens back into `Out`s -/
def parseOutsAux : Nat → List String → Option (List Out)
  | _, [] => some []
  | 0, _ => none
  | f + 1, "d" :: h :: r => do
    let b ← unhex h
    let os ← parseOutsAux f r
    some (.data b :: os)
  | f + 1, "err" :: r => (parseOutsAux f r).map (.err :: ·)
  | f + 1, "eos" :: r => (parseOutsAux f r).map (.eos :: ·)
  | f + 1, "t" :: n :: r => do
    let n ← nat? n
    let (ps, r') ← parsePairs n r
    let os ← parseOutsAux f r'
    some (.trailers ps :: os)
  | _ + 1, _ => none

def parseOuts (ts : List String) : Option (List Out) := parseOutsAux (ts.length + 1) ts

def optHex (s : String) : Option (Option Bytes) :=
  if s = "none" then some none else (unhex s).map some

def tokOpt : Option Bytes → String
  | none => "none"
  | some b => hex b

def join (ts : List String) : String := String.intercalate " " ts

def onlyData : List Out → Bool
  | [] => true
  | .data _ :: r => onlyData r
  | _ => false

/-- all `Out`s are data except a final `eos` -/
def dataThenEos (o : List Out) : Bool :=
  o.getLast? == some .eos && onlyData o.dropLast

def isData : BodyEv → Bool
  | .data _ => true
  | _ => false

def isTrailers : BodyEv → Bool
  | .trailers _ => true
  | _ => false

def dataChunks : List BodyEv → List Bytes
  | [] => []
  | .data b :: r => b :: dataChunks r
  | _ :: r => dataChunks r

def splitLast {α : Type} (l : List α) : Option (List α × α) :=
  match l.getLast? with
  | some x => some (l.dropLast, x)
  | none => none

/-! ### spec verdicts (written against `Spec.GrpcWeb`, evaluated on the OBSERVED output) -/

/-- response side: `evs` is what the inner service's body produced. -/
def respVerdict (text : Bool) (evs : List BodyEv) (obs : List Out) : String :=
  let es := evs.filter notPending
  match es.find? (fun e => !isData e) with
  | none =>
    -- no trailers, no error: the body is the inner bytes and nothing else
    let raw := if text then Spec.GrpcWeb.b64StreamDecode (dataOf obs) else some (dataOf obs)
    verdict [("only-data-then-eos", dataThenEos obs), ("body-identical", raw == some (flat es))]
  | some .err =>
    -- the first non-data event is an error
    verdict [("error-not-clean", obs.getLast? == some .err)]
  | some (.trailers t) =>
    match splitLast es with
    | some (ds, .trailers _) =>
      if ds.all isData then
        let body := dataOf obs
        let inner := flat ds
        let raw := if text then Spec.GrpcWeb.b64StreamDecode body else some body
        match raw with
        | none => "fail:text-body-not-base64"
        | some raw =>
          let tail := raw.drop inner.length
          let tr := match Spec.GrpcWeb.parseItems tail with
            | some [.trailers t'] => some t'
            | _ => none
          let whole : Bool := match Spec.GrpcWeb.parseItems inner, tr with
            | some msgs, some t' => Spec.GrpcWeb.read text body == some (msgs ++ [.trailers t'])
            | none, _ => true
            | _, none => false
          verdict [("only-data-then-eos", dataThenEos obs),
                   ("message-bytes-identical", raw.take inner.length == inner),
                   ("exactly-one-trailers-frame", tr.isSome),
                   ("every-trailer-listed", match tr with
                      | some t' => Spec.GrpcWeb.sameTrailers t' t && t'.length == t.length
                      | none => false),
                   ("whole-body-reads", whole)]
      else "ok"   -- frames after the trailers: not an HTTP body, outside the property
    | _ => "ok"
  | some _ => "ok"

/-- padding only in the final quantum (a single base64 stream) -/
def canonicalText (s : Bytes) : Bool := (s.take (s.length - 2)).all (· != 61)

/-- request side: `evs` is the grpc-web request body, `obs` the frames the inner service got. -/
def reqVerdict (text : Bool) (evs : List BodyEv) (obs : List Out) : String :=
  let es := evs.filter notPending
  match es.find? (fun e => !isData e) with
  | none =>
    if text then
      match Spec.GrpcWeb.b64StreamDecode (flat es) with
      | none => verdict [("malformed-text-is-error", obs.getLast? == some .err)]
      | some payload =>
        let good := dataThenEos obs && dataOf obs == payload
        if canonicalText (flat es) then verdict [("payload-identical", good)]
        else verdict [("payload-identical-or-error", good || obs.getLast? == some .err)]
    else
      verdict [("chunks-identical", obs == (dataChunks es).map Out.data ++ [.eos])]
  | some .err => verdict [("error-not-clean", obs.getLast? == some .err)]
  | some _ => "ok"

def kindReq : List BodyEv := [.data (str "AAAA")]
def kindResp : List BodyEv :=
  [.data [0, 0, 0, 0, 1, 7], .trailers [(str "grpc-status", str "0")]]

def firstFail (vs : List String) : String :=
  match vs.find? (· != "ok") with
  | some v => v
  | none => "ok"

def handle (case obs : List String) : String × String :=
  match case with
  | "resp" :: acc :: evToks =>
    match optHex acc, parseEvs evToks with
    | some accept, some evs =>
      let model := match classify (str "POST") false (some GRPC_WEB) accept with
        | .web _ a => join ("200" :: hex (toContentType a) :: renderOuts (respRun a evs))
        | .status c => s!"{c} skipped"
        | .pass => "pass"
      let text := (accept.bind Spec.GrpcWeb.webContentType) == some true
      let v := match obs with
        | st :: ct :: frames =>
          match parseOuts frames with
          | some o =>
            firstFail [verdict [("status-200", st == "200"),
                                ("content-type", ct == hex (Spec.GrpcWeb.responseContentType text))],
                       respVerdict text evs o]
          | none => "fail:unreadable-observation"
        | _ => "fail:unreadable-observation"
      (model, v)
    | _, _ => bad
  | "req" :: ct :: evToks =>
    match optHex ct, parseEvs evToks with
    | some ct, some evs =>
      let model := match classify (str "POST") false ct none with
        | .web e _ =>
          join (["200", "ct", hex GRPC_CONTENT_TYPE, "te", hex (str "trailers"), "ae",
                 hex (str "identity,deflate,gzip"), "cl", "0", "xu", "2", hex (str "a"), hex (str "b"), "|"]
                ++ renderOuts (reqRun e evs))
        | .status c => s!"{c} skipped"
        | .pass => "pass"
      let v := match ct.bind Spec.GrpcWeb.webContentType with
        | none => verdict [("not-grpc-web-400", obs == ["400", "skipped"])]
        | some text =>
          match obs with
          | st :: "ct" :: c :: "te" :: te :: "ae" :: _ :: "cl" :: cl :: "xu" :: "2" :: u1 :: u2 :: "|" :: frames =>
            match parseOuts frames with
            | some o =>
              firstFail [verdict [("status-200", st == "200"),
                                  ("grpc-content-type", c == hex Spec.GrpcWeb.grpcContentType),
                                  ("te-trailers", te == hex (str "trailers")),
                                  ("content-length-removed", cl == "0"),
                                  ("user-headers-kept", u1 == hex (str "a") && u2 == hex (str "b"))],
                         reqVerdict text evs o]
            | none => "fail:unreadable-observation"
          | _ => "fail:unreadable-observation"
      (model, v)
    | _, _ => bad
  | ["kind", m, ver, ct, acc] =>
    match unhex m, optHex ct, optHex acc with
    | some method, some ct, some accept =>
      let isH2 := ver == "h2"
      let passLine := join (["200", "called", "same", tokOpt ct] ++ renderOuts [.data (str "AAAA"), .eos]
            ++ ["|", hex (str "application/grpc")]
            ++ renderOuts [.data [0, 0, 0, 0, 1, 7], .trailers [(str "grpc-status", str "0")], .eos])
      let model := match classify method isH2 ct accept with
        | .web e a =>
          join (["200", "called", "same", hex GRPC_CONTENT_TYPE] ++ renderOuts (reqRun e kindReq)
                ++ ["|", hex (toContentType a)] ++ renderOuts (respRun a kindResp))
        | .status c => s!"{c} skipped eos"
        | .pass => passLine
      let v := match Spec.GrpcWeb.expect method isH2 ct accept with
        | .status c => verdict [("immediate-status", obs == [toString c, "skipped", "eos"])]
        | .pass => verdict [("passed-through-untouched", join obs == passLine)]
        | .web rt pt =>
          match obs with
          | st :: called :: _ :: c :: rest =>
            let reqFrames := rest.takeWhile (· != "|")
            let after := (rest.dropWhile (· != "|")).drop 1
            match parseOuts reqFrames, after with
            | some ro, rct :: respFrames =>
              match parseOuts respFrames with
              | some po =>
                firstFail [verdict [("status-200", st == "200"), ("inner-called", called == "called"),
                                    ("grpc-content-type", c == hex Spec.GrpcWeb.grpcContentType),
                                    ("response-content-type", rct == hex (Spec.GrpcWeb.responseContentType pt))],
                           reqVerdict rt kindReq ro, respVerdict pt kindResp po]
              | none => "fail:unreadable-observation"
            | _, _ => "fail:unreadable-observation"
          | _ => "fail:translated-request-expected"
      (model, v)
    | _, _, _ => bad
  | _ => bad

end DriverC16
