import Driver.Proto
import TonicModel.Model.Timeout
import TonicModel.Spec.Timeout
namespace DriverC09
open Proto Timeout

/-- The caller's deadline as a case token: `none`, a duration in ns, or raw grpc-timeout header
values `x<hex>[,x<hex>]*` (written into the request as they are). -/
inductive Caller
  | absent
  | dur (d : Nat)
  | raw (vals : List Bytes)

def caller? (s : String) : Option Caller :=
  if s = "none" then some .absent
  else if s.startsWith "x" then ((s.splitOn ",").mapM unhex).map .raw
  else s.toNat?.map .dur

/-- Model: what the receiving `GrpcTimeout` reads (`none` = `set_timeout` panicked).  `exact`:
the header was written by hand and denotes `d` exactly (no tonic encoder involved). -/
def Caller.modelHeader (exact : Bool) : Caller → Option (Option Nat)
  | .absent => some none
  | .dur d =>
    if exact then some (some d)
    else match setTimeouts [d] with
      | some vals => some (headerTimeout vals)
      | none => none
  | .raw vals => some (headerTimeout vals)

/-- Spec: the admissible readings of the caller's deadline.  A duration set with `set_timeout`
counts as what it amounts to on the wire (rounded down to the most precise unit that holds it);
a raw value counts iff it is spec-conformant, else it is ignored; of several values any one may
be the one in force (the property does not say which). -/
def Caller.specDeadlines (exact : Bool) : Caller → List (Option Nat)
  | .absent => [none]
  | .dur d => if exact then [some d] else [Spec.Timeout.onWire d]
  | .raw [] => [none]
  | .raw vals => vals.map Spec.Timeout.denote

/-- A `set_timeout` beyond the quantified range (the encoder may panic there). -/
def Caller.outOfRange : Caller → Bool
  | .dur d => decide (Spec.Timeout.maxDuration < d)
  | _ => false

def lat? (s : String) : Option (Option Nat) :=
  if s = "never" then some none else s.toNat?.map some

def statusToks (code : Nat) (text : Bytes) : String := s!"timeout {code} {hex text}"

/-- Model result → observed tokens (with or without the completion time). -/
def renderDone (timed : Bool) : Done → String
  | .inner t => if timed then s!"inner {t}" else "inner"
  | .timeout t =>
    let st := statusToks expiredStatus.1 expiredStatus.2
    if timed then s!"{st} {t}" else st
  | .pending => "pending"

def renderOutcome : Outcome → String
  | .inner => "inner"
  | .timeout => statusToks expiredStatus.1 expiredStatus.2
  | .pending => "pending"

/-- Spec expectation → observed tokens. -/
def renderExpect (timed : Bool) : Spec.Timeout.Expect → String
  | .finishes t => if timed then s!"inner {t}" else "inner"
  | .cancelled t =>
    let st := statusToks Spec.Timeout.cancelledCode Spec.Timeout.expiredText
    if timed then s!"{st} {t}" else st
  | .pending => "pending"

/-- Builder ops token: `-` or a comma list of `t<ns>` (`.timeout`), `k<ns>` (`connect_timeout`),
`l` (`.layer`), any other single letter (another builder method). -/
def op? (s : String) : Option BOp :=
  match s.toList with
  | 't' :: r => (String.ofList r).toNat?.map .timeout
  | 'k' :: r => (String.ofList r).toNat?.map .connectTimeout
  | ['l'] => some .layer
  | [_] => some .other
  | _ => none

def ops? (s : String) : Option (List BOp) :=
  if s = "-" then some [] else (s.splitOn ",").mapM op?

/-- The same token read for the spec: only `.timeout(t)` calls say anything about the timeout. -/
def specOps (s : String) : List (Option Nat) :=
  if s = "-" then [] else (s.splitOn ",").map fun o =>
    match o.toList with
    | 't' :: r => (String.ofList r).toNat?
    | _ => none

def nats? (s : String) : Option (List Nat) :=
  if s = "-" then some [] else (s.splitOn ",").mapM nat?

def obsStr (obs : List String) : String := String.intercalate " " obs

/-- Shared shape: model prediction (or `panic`), and the verdict "observed = what the spec expects
under one admissible reading of the caller's deadline". -/
def decide1 (clause : String) (c : Caller) (exact timed : Bool) (obs : List String)
    (model : Option Nat → String) (spec : Option Nat → Spec.Timeout.Expect) : String × String :=
  let m := match c.modelHeader exact with
    | some h => model h
    | none => "panic"
  let ok := c.outOfRange ||
    (c.specDeadlines exact).any (fun h => renderExpect timed (spec h) == obsStr obs)
  (m, verdict [(clause, ok)])

/-- Late-poll kinds: the spec accepts a SET of observations (in the window "finished after the
deadline, before the caller looked" either outcome is acceptable); the verdict holds iff the
observed tokens render one of them under one admissible reading of the caller's deadline. -/
def decideL (clause : String) (c : Caller) (exact : Bool) (obs : List String)
    (model : Option Nat → String) (spec : Option Nat → List Spec.Timeout.Expect) : String × String :=
  let m := match c.modelHeader exact with
    | some h => model h
    | none => "panic"
  let ok := c.outOfRange ||
    (c.specDeadlines exact).any (fun h => (spec h).any (fun e => renderExpect true e == obsStr obs))
  (m, verdict [(clause, ok)])

/-- `(<caller> <latency|never>)+` -/
def calls? : List String → Option (List (Caller × Option Nat))
  | [] => some []
  | [_] => none
  | c :: l :: rest =>
    match caller? c, lat? l, calls? rest with
    | some c, some l, some r => some ((c, l) :: r)
    | _, _, _ => none

/-- The observed tokens of a call sequence: one segment per call, separated by `|`. -/
def segs (obs : List String) : List (List String) :=
  obs.foldr (fun t acc =>
    if t = "|" then [] :: acc
    else match acc with
      | [] => [[t]]
      | s :: r => (t :: s) :: r) [[]]

/-- Several calls through one middleware / one `Channel` / one server connection.  Model: the
state-threading model of the code (or `panic` if some `set_timeout` panics).  Verdict: there is
one segment per call and EVERY call is observed as `Spec.Timeout.expectedEach` demands — what the
call would give alone, with its own deadline (under one admissible reading of it) and the
configured timeout, whatever the other calls of the sequence carried. -/
def decideSeq (clause : String) (exact : Bool) (conf : Option Nat) (calls : List (Caller × Option Nat))
    (obs : List String) (model : List (Option Nat × Option Nat) → List Done) : String × String :=
  let hs := calls.mapM (fun c => (c.1.modelHeader exact).map (fun h => (h, c.2)))
  let m := match hs with
    | some hl => String.intercalate " | " ((model hl).map (renderDone true))
    | none => "panic"
  let ss := segs obs
  let ok := !calls.isEmpty && ss.length == calls.length &&
    (calls.zip ss).all (fun co =>
      co.1.1.outOfRange ||
      (co.1.1.specDeadlines exact).any (fun h =>
        (Spec.Timeout.expectedEach conf [(h, co.1.2)]).map (renderExpect true) == [obsStr co.2]))
  (m, verdict [(clause, ok)])

def plainReplies (hl : List (Option Nat × Option Nat)) : List (Option Nat × Reply) :=
  hl.map fun c => (c.1, plainPeer c.2)

/-! ### audit aC09 kinds -/

/-- The call's own status token: `ok` (code 0, empty message) or `e<code>` (that code, "own"). -/
def own? (s : String) : Option (Nat × Bytes) :=
  if s = "ok" then some (0, [])
  else match s.toList with
    | 'e' :: r => (String.ofList r).toNat?.map fun c => (c, "own".toUTF8.toList)
    | _ => none

def renderSeen : Option (Nat × Bytes × Nat) → String
  | some (code, text, t) => s!"status {code} {hex text} {t}"
  | none => "pending"

/-- connections separated by `/`, each `(<header> <latency|never>)+` -/
def conns? (toks : List String) : Option (List (List (Caller × Option Nat))) :=
  let groups := toks.foldr (fun t acc =>
    if t = "/" then [] :: acc
    else match acc with
      | [] => [[t]]
      | g :: r => (t :: g) :: r) [[]]
  groups.mapM calls?

def cxModes : List String := ["cwc", "lazy", "new", "conn"]
def cxShapes : List String := ["u", "cs", "ss", "bi"]

def handleAudit (case obs : List String) : Option (String × String) :=
  match case with
  | ["cx", mode, shape, _knobs, peer, own, c, e, l] =>
    -- a real Channel built by another public constructor / used through another RPC shape / with
    -- other client knobs, the peer ending the call with a status of its own: all of it invisible
    match own? own, caller? c, optNat? e, lat? l with
    | some own, some c, some e, some l =>
      if cxModes.contains mode && cxShapes.contains shape && (peer = "silent" || peer = "routes") then
        let m := match c.modelHeader false with
          | some h => renderSeen (seen own (clientCall h e (plainPeer l)))
          | none => "panic"
        let ok := c.outOfRange || (c.specDeadlines false).any (fun h =>
          renderSeen (Spec.Timeout.report own (Spec.Timeout.expected [h, e] l)) == obsStr obs)
        some (m, verdict [("client-variant-cuts-off-at-shorter-deadline-else-own-result", ok)])
      else some bad
    | _, _, _, _ => some bad
  | "sx" :: _entry :: _knobs :: own :: s :: rest =>
    -- ONE transport::Server, several connections (accept order = case order), requests on each
    match own? own, optNat? s, conns? rest with
    | some own, some s, some conns =>
      let hs := conns.mapM (fun reqs => reqs.mapM (fun q => (q.1.modelHeader true).map (fun h => (h, q.2))))
      let m := match hs with
        | some hl => String.intercalate " | "
            (((serverConns ⟨s⟩ hl).flatten).map (fun d => renderSeen (seen own d)))
        | none => "panic"
      let flat := conns.flatten
      let ss := segs obs
      let ok := !flat.isEmpty && ss.length == flat.length &&
        (flat.zip ss).all (fun co =>
          co.1.1.outOfRange ||
          (co.1.1.specDeadlines true).any (fun h =>
            (Spec.Timeout.expectedConns s [[(h, co.1.2)]]).flatten.map
              (fun e => renderSeen (Spec.Timeout.report own e)) == [obsStr co.2]))
      some (m, verdict [("requests-on-every-connection-meet-the-server-timeout", ok)])
    | _, _, _ => some bad
  | ["runw", c, s, l, p] =>
    -- the middleware's future polled once by a task that then gives it away; the new owner polls from `p`
    match caller? c, optNat? s, lat? l, nat? p with
    | some c, some s, some l, some p =>
      some (decideL "deadline-fires-after-task-handover" c false obs
        (fun h => renderDone true (handoverBy true (effective h s) l p))
        (fun h => Spec.Timeout.lateExpected [h, s] l p))
    | _, _, _, _ => some bad
  | ["cliw", peer, c, e, l, p] =>
    match caller? c, optNat? e, lat? l, nat? p with
    | some c, some e, some l, some p =>
      if peer = "silent" || peer = "routes" then
        some (decideL "client-deadline-fires-after-task-handover" c false obs
          (fun h => renderDone true (clientCallLate h e (plainPeer l) p))
          (fun h => Spec.Timeout.lateExpected [h, e] l p))
      else some bad
    | _, _, _, _ => some bad
  | _ => none

/-- `featc <endpoint timeout ms | -> <caller timeout ms | ->`: a channel of a CLIENT-ONLY build of tonic (side crate
harness_c09cl: `channel` without `server`; seed C09i) facing a peer that never answers.  The call is cut off at the
shorter of the two deadlines with CANCELLED "Timeout expired", in every build (tie only; the deadline is
`Spec.Timeout`'s shorter-of-two on these numbers). -/
def handleFeatc (e c : String) (obs : List String) : String × String :=
  let o (s : String) : Option (Option Nat) := if s = "-" then some none else s.toNat?.map some
  match o e, o c with
  | some e, some c =>
    let d : Option Nat := match e, c with
      | some a, some b => some (min a b)
      | some a, none => some a
      | none, some b => some b
      | none, none => none
    (match d with
     | none => bad
     | some d =>
       let expected := ["code:1", "msg:timeout", s!"at:{d}"]
       (String.intercalate " " expected,
        if obs = ["side-binary-missing"] then "fail:side-binary-missing" else
        verdict [("cut-off-with-cancelled-timeout-expired", obs.take 2 == expected.take 2),
                 ("at-the-shorter-deadline", obs.drop 2 == expected.drop 2)]))
  | _, _ => bad

def handle (case obs : List String) : String × String :=
  match case with
  | ["featc", e, c] => handleFeatc e c obs
  | _ =>
  match handleAudit case obs with
  | some r => r
  | none =>
  match case with
  | "mw" :: s :: rest =>
    -- ONE `GrpcTimeout` value (hook, under RecoverError) called once per pair, one after the other
    match optNat? s, calls? rest with
    | some s, some calls =>
      decideSeq "middleware-calls-are-independent" false s calls obs
        (fun hl => mwCalls ⟨s⟩ (hl.map fun c => (c.1, answer c.2)))
    | _, _ => bad
  | "chan" :: peer :: e :: rest =>
    -- calls one after the other on ONE real Channel against a peer that enforces nothing
    match optNat? e, calls? rest with
    | some e, some calls =>
      if peer = "silent" || peer = "routes" then
        decideSeq "calls-on-one-channel-are-independent" false e calls obs
          (fun hl => channelCalls ⟨e⟩ (plainReplies hl))
      else bad
    | _, _ => bad
  | "chano" :: peer :: e :: g :: rest =>
    -- the same, call i dispatched `i * g` after the first (overlapping), times per call
    match optNat? e, nat? g, calls? rest with
    | some e, some _, some calls =>
      if peer = "silent" || peer = "routes" then
        decideSeq "overlapping-calls-on-one-channel-are-independent" false e calls obs
          (fun hl => channelCalls ⟨e⟩ (plainReplies hl))
      else bad
    | _, _, _ => bad
  | "conn" :: s :: rest =>
    -- requests one after the other on ONE HTTP/2 connection to a real transport::Server
    match optNat? s, calls? rest with
    | some s, some calls =>
      decideSeq "requests-on-one-connection-are-independent" true s calls obs (connCalls ⟨s⟩)
    | _, _ => bad
  | "conno" :: s :: g :: rest =>
    match optNat? s, nat? g, calls? rest with
    | some s, some _, some calls =>
      decideSeq "overlapping-requests-on-one-connection-are-independent" true s calls obs (connCalls ⟨s⟩)
    | _, _, _ => bad
  | ["runl", c, s, l, b] =>
    -- the middleware alone, its future obtained at time 0 and first polled at `b`
    match caller? c, optNat? s, lat? l, nat? b with
    | some c, some s, some l, some b =>
      decideL "late-poll-deadline-counts-from-dispatch" c false obs
        (fun h => renderDone true (lateStage h s (answer l) b))
        (fun h => Spec.Timeout.lateExpected [h, s] l b)
    | _, _, _, _ => bad
  | ["clil", peer, c, e, l, b] =>
    -- a real Channel through poll_ready + call, the response future first polled at `b`
    match caller? c, optNat? e, lat? l, nat? b with
    | some c, some e, some l, some b =>
      if peer = "silent" || peer = "routes" then
        decideL "late-poll-client-deadline-counts-from-dispatch" c false obs
          (fun h => renderDone true (clientCallLate h e (plainPeer l) b))
          (fun h => Spec.Timeout.lateExpected [h, e] l b)
      else bad
    | _, _, _, _ => bad
  | ["e2el", c, s, e, l, b] =>
    match caller? c, optNat? s, optNat? e, nat? l, nat? b with
    | some c, some s, some e, some l, some b =>
      decideL "late-poll-end-to-end-deadline-counts-from-dispatch" c false obs
        (fun h => renderDone true (endToEndLate h s e (some l) b))
        (fun h => Spec.Timeout.lateExpected [h, s, e] (some l) b)
    | _, _, _, _, _ => bad
  | ["enc", ds] =>
    match nat? ds with
    | none => bad
    | some d =>
      let model := match encode d with
        | some v => hex v
        | none => "panic"
      let v := match obs with
        | [o] => match unhex o with
          | some bytes =>
            match Spec.Timeout.denote bytes, bytes.getLast? with
            | some dn, some ub =>
              let unit := (Spec.Timeout.unitNanos ub).getD 0
              verdict [("never-longer", dn ≤ d), ("loss-lt-unit", d < dn + unit)]
            | _, _ => "fail:not-spec-conformant"
          | none => if d ≤ Spec.Timeout.maxDuration then "fail:no-value" else "ok"
        | _ => "fail:no-value"
      (model, v)
  | "encs" :: dtoks =>
    -- `set_timeout` called once per duration, in order; observed = every grpc-timeout value
    match dtoks.mapM nat?, dtoks.getLast? with
    | some ds, some _ =>
      let model := match setTimeouts ds with
        | some vals => String.intercalate " " (vals.map hex)
        | none => "panic"
      let last := ds.getLast?.getD 0
      let ok := if ds.any (fun d => decide (Spec.Timeout.maxDuration < d)) then true else
        match obs with
        | [o] => match unhex o with
          | some bytes => (Spec.Timeout.denote bytes).isSome &&
              Spec.Timeout.denote bytes == Spec.Timeout.onWire last
          | none => false
        | _ => false
      (model, verdict [("last-set-timeout-wins-single-value", ok)])
    | _, _ => bad
  | ["parse", hv] =>
    match unhex hv with
    | none => bad
    | some bytes =>
      let render : Option Nat → String := fun
        | some n => s!"some {n}"
        | none => "ignored"
      let model := render (tryParse bytes)
      let expected := render (Spec.Timeout.denote bytes)
      (model, verdict [("parse-is-denotation", String.intercalate " " obs == expected)])
  | ["e2e", c, s, e, l] =>
    match caller? c, optNat? s, optNat? e, nat? l with
    | some c, some s, some e, some l =>
      -- client stack: min(caller header, Endpoint::timeout); server stack: min(caller header,
      -- Server::timeout); the call is cut when either fires before the handler answers
      decide1 "cutoff-at-shortest-deadline-end-to-end" c false false obs
        (fun h => renderDone false (endToEnd h s e (some l)))
        (fun h => Spec.Timeout.expected [h, s, e] (some l))
    | _, _, _, _ => bad
  | ["run", c, s, l] =>
    match caller? c, optNat? s, nat? l with
    | some c, some s, some l =>
      let clause := match c with
        | .raw _ => "malformed-header-ignored-conformant-enforced"
        | _ => "cutoff-at-shorter-deadline"
      decide1 clause c false false obs
        (fun h => renderOutcome (run l (effective h s)))
        (fun h => Spec.Timeout.expected [h, s] (some l))
    | _, _, _ => bad
  | ["cli", peer, c, e, l] =>
    match caller? c, optNat? e, lat? l with
    | some c, some e, some l =>
      let reply? : Option Reply :=
        if peer = "silent" || peer = "routes" then some (plainPeer l)
        else if peer = "stall" then some (stallPeer l)
        else none
      match reply? with
      | none => bad
      | some r =>
        decide1 "client-cuts-off-without-enforcing-peer" c false true obs
          (fun h => renderDone true (clientCall h e r))
          (fun h => Spec.Timeout.expected [h, e] l)
    | _, _, _ => bad
  | ["srv", c, s, l] =>
    match caller? c, optNat? s, lat? l with
    | some c, some s, some l =>
      decide1 "server-cuts-off-without-enforcing-client" c true true obs
        (fun h => renderDone true (serverStack h s l))
        (fun h => Spec.Timeout.expected [h, s] l)
    | _, _, _ => bad
  | ["seq", cs, sops, eops, l] =>
    -- set_timeout once per duration in `cs`; Server / Endpoint built by the op sequences
    match nats? cs, ops? sops, ops? eops, nat? l with
    | some ds, some so, some eo, some l =>
      let model := match setTimeouts ds with
        | some vals =>
          renderDone true (endToEnd (headerTimeout vals) (configured so) (configured eo) (some l))
        | none => "panic"
      let callerSpec := match ds.getLast? with
        | some d => Spec.Timeout.onWire d
        | none => none
      let expected := renderExpect true (Spec.Timeout.expected
        [callerSpec, Spec.Timeout.lastSet (specOps sops), Spec.Timeout.lastSet (specOps eops)] (some l))
      let ok := ds.any (fun d => decide (Spec.Timeout.maxDuration < d)) || obsStr obs == expected
      (model, verdict [("latest-timeout-setting-in-force", ok)])
    | _, _, _, _ => bad
  | _ => bad

end DriverC09
