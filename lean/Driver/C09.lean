import Driver.Proto
import TonicModel.Model.Timeout
import TonicModel.Spec.Timeout
namespace DriverC09
open Proto Timeout

def handle (case obs : List String) : String × String :=
  match case with
  | ["enc", ds] =>
    match nat? ds with
    | none => bad
    | some d =>
      let model := match encode d with
        | some v => hex v
        | none => "panic"
      let v := match obs with
        | [o] => match unhex o with
          | some bytes =>
            match Spec.Timeout.denote bytes, bytes.getLast? with
            | some dn, some ub =>
              let unit := (Spec.Timeout.unitNanos ub).getD 0
              verdict [("never-longer", dn ≤ d), ("loss-lt-unit", d < dn + unit)]
            | _, _ => "fail:not-spec-conformant"
          | none => if d ≤ Spec.Timeout.maxDuration then "fail:no-value" else "ok"
        | _ => "fail:no-value"
      (model, v)
  | ["parse", hv] =>
    match unhex hv with
    | none => bad
    | some bytes =>
      let render : Option Nat → String := fun
        | some n => s!"some {n}"
        | none => "ignored"
      let model := render (tryParse bytes)
      let expected := render (Spec.Timeout.denote bytes)
      (model, verdict [("parse-is-denotation", String.intercalate " " obs == expected)])
  | ["e2e", c, s, e, l] =>
    match optNat? c, optNat? s, optNat? e, nat? l with
    | some c, some s, some e, some l =>
      -- client stack: min(caller header, Endpoint::timeout); server stack: min(caller header,
      -- Server::timeout); the call is cut when either fires before the handler answers
      let cut := fun (x : Option Nat) => match x with | some t => decide (t < l) | none => false
      let clientCut := run l (effective c e) == .timeout
      let serverCut := run l (effective c s) == .timeout
      let tmo := "timeout 1 " ++ hex (Ascii.ofString "Timeout expired")
      let model := if clientCut || serverCut then tmo else "inner"
      let expected := if cut c || cut s || cut e then tmo else "inner"
      (model, verdict [("cutoff-at-shortest-deadline-end-to-end", String.intercalate " " obs == expected)])
    | _, _, _, _ => bad
  | ["run", c, s, l] =>
    match optNat? c, optNat? s, nat? l with
    | some c, some s, some l =>
      let model := match run l (effective c s) with
        | .inner => "inner"
        | .timeout => "timeout 1 " ++ hex (Ascii.ofString "Timeout expired")
        | .pending => "pending"
      -- spec, stated without the model: shorter of the two present deadlines decides
      let cut : Bool := (match c with | some x => x < l | none => false)
                     || (match s with | some x => x < l | none => false)
      let expected := if cut then "timeout 1 " ++ hex (Ascii.ofString "Timeout expired") else "inner"
      (model, verdict [("cutoff-at-shorter-deadline", String.intercalate " " obs == expected)])
    | _, _, _ => bad
  | _ => bad

end DriverC09
