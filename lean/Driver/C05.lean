import Driver.Proto
import TonicModel.Model.Compression
import TonicModel.Model.CompressionHttp
import TonicModel.Spec.Compression
/-
C05 driver: parses a case line and the implementation's observed tokens (see harness/src/c05.rs
for the two formats), prints the model's observation in the same token form, and evaluates the
Spec clauses on the *observed* record.
-/
namespace DriverC05
open Proto CompObs

abbrev P (α : Type) := List String → Option (α × List String)

def tok : P String
  | [] => none
  | t :: r => some (t, r)

def lit (s : String) : P Unit
  | t :: r => if t = s then some ((), r) else none
  | [] => none

def num : P Nat
  | t :: r => (t.toNat?).map (·, r)
  | [] => none

def many {α} (p : P α) : Nat → P (List α)
  | 0, ts => some ([], ts)
  | n + 1, ts =>
    match p ts with
    | none => none
    | some (a, r) =>
      match many p n r with
      | none => none
      | some (as, r') => some (a :: as, r')

def hexTok : P Bytes
  | t :: r => (unhex t).map (·, r)
  | [] => none

/-- `<n> item*` -/
def counted {α} (p : P α) : P (List α) := fun ts =>
  match num ts with
  | none => none
  | some (n, r) => many p n r

def hexList (marker : String) : P (List Bytes) := fun ts =>
  match lit marker ts with
  | none => none
  | some (_, r) => counted hexTok r

def encOfChar : Char → Option Enc
  | 'g' => some .gzip
  | 'd' => some .deflate
  | 'z' => some .zstd
  | _ => none

def callsOf (s : String) : Option (List Call) :=
  if s = "-" then some []
  else s.toList.mapM (fun c => if c = 'p' then some Call.pop else (encOfChar c).map Call.en)

def formOf (s : String) : Option Form :=
  match s with
  | "r" => some .raw
  | "g" => some (.z .gzip)
  | "d" => some (.z .deflate)
  | "z" => some (.z .zstd)
  | "x" => some .other
  | _ => none

def showForm : Form → String
  | .raw => "r"
  | .z .gzip => "g"
  | .z .deflate => "d"
  | .z .zstd => "z"
  | .other => "x"

/-- upper-case shape tokens mark a call made on a clone of the client: no effect in the model -/
def shapeOf (s : String) : Option Shape :=
  -- a leading `w` marks a client that was already used before its configuration was completed;
  -- that must make no difference to what it sends and advertises
  let s := if s.toLower.startsWith "w" then (s.drop 1).toString else s
  match s.toLower with
  | "u" => some .unary
  | "ss" => some .serverStreaming
  | "cs" => some .clientStreaming
  | "bi" => some .bidi
  | _ => none

def clsOf (s : String) : Option ErrCls :=
  match s with
  | "flag-no-enc" => some .flagNoEnc
  | "bad-flag" => some .badFlag
  | "missing" => some .missing
  | "decompress" => some .decompress
  | "unsupported" => some .unsupported
  | "handler" => some .handler
  | "peer" => some .peerStatus
  | "-" => some .none
  | "other" => some .other
  | _ => none

def showCls : ErrCls → String
  | .flagNoEnc => "flag-no-enc"
  | .badFlag => "bad-flag"
  | .missing => "missing"
  | .decompress => "decompress"
  | .unsupported => "unsupported"
  | .handler => "handler"
  | .peerStatus => "peer"
  | .none => "-"
  | .other => "other"

/-- case-side frame: `<flag> <pc> <msghex>` (the message bytes do not matter to the model) -/
def caseFrame : P Frame := fun ts =>
  match ts with
  | f :: pc :: m :: r =>
    match f.toNat?, formOf pc, unhex m with
    | some n, some form, some _ => if n < 256 then some (⟨UInt8.ofNat n, form⟩, r) else none
    | _, _, _ => none
  | _ => none

def caseFrames : P (List Frame) := fun ts =>
  match lit "F" ts with
  | none => none
  | some (_, r) => counted caseFrame r

/-- observed frame `<flag>:<form>` -/
def obsFrame : P Frame := fun ts =>
  match ts with
  | t :: r =>
    match t.splitOn ":" with
    | [f, form] =>
      match f.toNat?, formOf form with
      | some n, some fm => if n < 256 then some (⟨UInt8.ofNat n, fm⟩, r) else none
      | _, _ => none
    | _ => none
  | [] => none

def showFrame (f : Frame) : String := toString f.flag.toNat ++ ":" ++ showForm f.form

def obsItem : P Item := fun ts =>
  match ts with
  | t :: r =>
    match t.splitOn ":" with
    | [a, b] =>
      if a = "ok" then (formOf b).map (fun f => (Item.ok f, r))
      else
        match (a.drop 1).toString.toNat?, clsOf b with
        | some c, some k => if a.startsWith "e" then some (Item.err c k, r) else none
        | _, _ => none
    | _ => none
  | [] => none

def showItem : Item → String
  | .ok f => "ok:" ++ showForm f
  | .err c k => "e" ++ toString c ++ ":" ++ showCls k

def showList {α} (f : α → String) (l : List α) : String :=
  if l.isEmpty then "0" else toString l.length ++ " " ++ String.intercalate " " (l.map f)

def optCode (marker : String) : P (Option Nat) := fun ts =>
  match ts with
  | m :: t :: r =>
    if m ≠ marker then none
    else if t = "none" then some (none, r) else (t.toNat?).map (fun n => (some n, r))
  | _ => none

def whereOf (s : String) : Option Where :=
  match s with
  | "hdr" => some .hdr
  | "trl" => some .trl
  | "absent" => some .absent
  | _ => none

def showWhere : Where → String
  | .hdr => "hdr"
  | .trl => "trl"
  | .absent => "absent"

/-! ### server -/

structure SrvCase where
  route : String
  acc : List Call
  snd : List Call
  req : SrvReq
  h : Handler

def parseSrv (shape : String) (ts : List String) : Option SrvCase := do
  let shape ← shapeOf shape
  let (route, ts) ← tok ts
  let (acc, ts) ← tok ts
  let acc ← callsOf acc
  let (snd, ts) ← tok ts
  let snd ← callsOf snd
  let (encVals, ts) ← hexList "E" ts
  let (accVals, ts) ← hexList "A" ts
  let (frames, ts) ← caseFrames ts
  let (_, ts) ← lit "H" ts
  let (kind, ts) ← tok ts
  let (n, ts) ← num ts
  let (dis, ts) ← num ts
  let (md, ts) ← hexList "M" ts
  let (_, ts) ← lit "R" ts
  let (_, ts) ← hexTok ts
  if ts ≠ [] then none
  let h ← (if kind = "reply" then some (Handler.reply n (dis ≠ 0) md)
           else if kind = "fail" then some (Handler.fail n) else none)
  -- upper-case route tokens mark a `Grpc` value that has already served a call: no effect
  let route := route.toLower
  if route ≠ "d" ∧ route ≠ "c" then none
  pure { route, acc, snd, req := { shape, encVals, accVals, frames }, h }

def encLetters (vals : List Bytes) : String :=
  if vals.isEmpty then "-"
  else String.ofList (vals.map (fun v =>
    if v = Compression.gzipName then 'g' else if v = Compression.deflateName then 'd'
    else if v = Compression.zstdName then 'z' else '?'))

/-- first token: a summary `s<code>.<class>.<announced encodings>` (feeds the evidence's
distribution; redundant with the rest) -/
def showSrv (o : SrvObs) : String :=
  String.intercalate " "
    ["s" ++ toString o.stCode ++ "." ++ showCls o.stCls ++ "." ++ encLetters o.enc, "called", if o.called then "1" else "0", "saw", showList showItem o.saw,
     "enc", showList hex o.enc, "acc", showList hex o.acc,
     "st", showWhere o.stWhere, toString o.stCode, showCls o.stCls,
     "fr", showList showFrame o.frames]

def parseSrvObs (ts : List String) : Option SrvObs := do
  let (_, ts) ← tok ts
  let (_, ts) ← lit "called" ts
  let (c, ts) ← num ts
  let (_, ts) ← lit "saw" ts
  let (saw, ts) ← counted obsItem ts
  let (enc, ts) ← hexList "enc" ts
  let (acc, ts) ← hexList "acc" ts
  let (_, ts) ← lit "st" ts
  let (w, ts) ← tok ts
  let w ← whereOf w
  let (code, ts) ← num ts
  let (cls, ts) ← tok ts
  let cls ← clsOf cls
  let (_, ts) ← lit "fr" ts
  let (frames, ts) ← counted obsFrame ts
  if ts ≠ [] then none
  pure { called := c ≠ 0, saw, enc, acc, stWhere := w, stCode := code, stCls := cls, frames }

def slotsOf (route : String) (cs : List Call) : Compression.Slots :=
  Compression.configure (route = "d") cs

def handleSrv (shape : String) (ts obs : List String) : String × String :=
  match parseSrv shape ts with
  | none => bad
  | some c =>
    let model := Compression.serve (slotsOf c.route c.acc) (slotsOf c.route c.snd) c.req c.h
    let accept := Spec.Compression.enabledAfter c.acc
    let send := Spec.Compression.enabledAfter c.snd
    let v := match parseSrvObs obs with
      | none => if obs = ["not-a-header-value"] then "ok" else "fail:unparsable-observation"
      | some o =>
        verdict [("server-choice-enabled-and-offered", Spec.Compression.srvChoice send c.req o),
                 ("compressed-only-as-announced", Spec.Compression.srvAnnounce o),
                 ("unsupported-request-encoding-refused", Spec.Compression.srvReject accept c.req o),
                 ("flag-without-encoding-internal", Spec.Compression.srvFlag accept c.req o),
                 ("acceptable-request-delivered", Spec.Compression.srvDeliver accept c.req o)]
    (showSrv model, v)

/-! ### client -/

structure CliCase where
  shape : Shape
  snd : List Call
  acc : List Call
  umdEnc : List Bytes
  umdAcc : List Bytes
  k : Nat
  resp : CliResp

def parseCli (shape : String) (ts : List String) : Option CliCase := do
  let shape ← shapeOf shape
  let (snd, ts) ← tok ts
  let snd ← callsOf snd
  let (acc, ts) ← tok ts
  let acc ← callsOf acc
  let (umdEnc, ts) ← hexList "UE" ts
  let (umdAcc, ts) ← hexList "UA" ts
  let (_, ts) ← lit "Q" ts
  let (k, ts) ← num ts
  let (_, ts) ← hexTok ts
  let (encVals, ts) ← hexList "E" ts
  let (hs, ts) ← optCode "HS" ts
  let (frames, ts) ← caseFrames ts
  let (tst, ts) ← optCode "TS" ts
  if ts ≠ [] then none
  if snd.any (· == Call.pop) || acc.any (· == Call.pop) then none
  pure { shape, snd, acc, umdEnc, umdAcc, k, resp := { encVals, hdrStatus := hs, frames, trlStatus := tst, accVals := [], peerCls := .peerStatus } }

/-- `send_compressed` calls: the last one wins -/
def sendOf (cs : List Call) : Option Enc :=
  cs.foldl (fun cur c => match c with | .en e => some e | .pop => cur) none

def showCli (o : CliObs) : String :=
  let outcome := match o.result.getLast? with
    | none => "none"
    | some (.ok _) => "ok"
    | some it => showItem it
  String.intercalate " "
    ["c" ++ outcome ++ "." ++ encLetters o.enc, "enc", showList hex o.enc, "acc", showList hex o.acc, "fr", showList showFrame o.frames,
     "res", showList showItem o.result, "eacc", showList hex o.errAcc]

def parseCliObs (ts : List String) : Option CliObs := do
  let (_, ts) ← tok ts
  let (enc, ts) ← hexList "enc" ts
  let (acc, ts) ← hexList "acc" ts
  let (_, ts) ← lit "fr" ts
  let (frames, ts) ← counted obsFrame ts
  let (_, ts) ← lit "res" ts
  let (result, ts) ← counted obsItem ts
  let (errAcc, ts) ← hexList "eacc" ts
  if ts ≠ [] then none
  pure { enc, acc, frames, result, errAcc }

def handleCli (shape : String) (ts obs : List String) : String × String :=
  match parseCli shape ts with
  | none => bad
  | some c =>
    let cfg : Compression.CliCfg := { send := sendOf c.snd, accept := Compression.runCalls c.acc }
    let model := Compression.call cfg c.shape c.umdEnc c.umdAcc c.k c.resp
    let accept := Spec.Compression.enabledAfter c.acc
    let v := match parseCliObs obs with
      | none => if obs = ["not-a-header-value"] ∨ obs = ["bad-md"] then "ok" else "fail:unparsable-observation"
      | some o =>
        verdict [("client-sends-exactly-configured-encoding", Spec.Compression.cliSend (sendOf c.snd) o),
                 ("client-advertises-exactly-accepted", Spec.Compression.cliAdvertise accept o),
                 ("unsupported-response-encoding-refused", Spec.Compression.cliRefuse accept c.resp o),
                 ("flag-without-encoding-internal", Spec.Compression.cliFlag accept c.resp o),
                 ("acceptable-response-delivered", Spec.Compression.cliDeliver accept c.shape c.resp o)]
    (showCli model, v)

/-- `clih.<shape> <http status> <rest of a cli case>`: the scripted response carries that HTTP
status.  Prediction: `Compression.callHttp`.  Verdict: what the client sends / advertises and the
refusal of a non-enabled `grpc-encoding` are demanded for every HTTP status; the two clauses about
the message stream only for a 200 (the body of any other response is not a gRPC message stream). -/
def handleCliHttp (shape : String) (ts obs : List String) : String × String :=
  match ts with
  | st :: ts =>
    match st.toNat?, parseCli shape ts with
    | some http, some c =>
      let cfg : Compression.CliCfg := { send := sendOf c.snd, accept := Compression.runCalls c.acc }
      let model := Compression.callHttp cfg c.shape c.umdEnc c.umdAcc c.k http c.resp
      let accept := Spec.Compression.enabledAfter c.acc
      let v := match parseCliObs obs with
        | none => if obs = ["not-a-header-value"] ∨ obs = ["bad-md"] then "ok" else "fail:unparsable-observation"
        | some o =>
          verdict ([("client-sends-exactly-configured-encoding", Spec.Compression.cliSend (sendOf c.snd) o),
                   ("client-advertises-exactly-accepted", Spec.Compression.cliAdvertise accept o),
                   ("unsupported-response-encoding-refused", Spec.Compression.cliRefuse accept c.resp o)] ++
                  (if http = 200 then
                    [("flag-without-encoding-internal", Spec.Compression.cliFlag accept c.resp o),
                     ("acceptable-response-delivered", Spec.Compression.cliDeliver accept c.shape c.resp o)]
                   else []))
      (showCli model, v)
    | _, _ => bad
  | _ => bad

/-! ### pair: a real client against a real server -/

structure PairCase where
  shape : Shape
  route : String
  csnd : List Call
  cacc : List Call
  sacc : List Call
  ssnd : List Call
  k : Nat
  h : Handler

def parsePair (shape : String) (ts : List String) : Option PairCase := do
  let shape ← shapeOf shape
  let (route, ts) ← tok ts
  let route := route.toLower
  let (csnd, ts) ← tok ts
  let csnd ← callsOf csnd
  let (cacc, ts) ← tok ts
  let cacc ← callsOf cacc
  let (sacc, ts) ← tok ts
  let sacc ← callsOf sacc
  let (ssnd, ts) ← tok ts
  let ssnd ← callsOf ssnd
  let (_, ts) ← lit "K" ts
  let (k, ts) ← num ts
  let (_, ts) ← lit "H" ts
  let (kind, ts) ← tok ts
  let (n, ts) ← num ts
  let (dis, ts) ← num ts
  let (_, ts) ← lit "Q" ts
  let (_, ts) ← hexTok ts
  let (_, ts) ← lit "R" ts
  let (_, ts) ← hexTok ts
  if ts ≠ [] then none
  let h ← (if kind = "reply" then some (Handler.reply n (dis ≠ 0) [])
           else if kind = "fail" then some (Handler.fail n) else none)
  if route ≠ "d" ∧ route ≠ "c" then none
  if csnd.any (· == Call.pop) || cacc.any (· == Call.pop) then none
  pure { shape, route, csnd, cacc, sacc, ssnd, k, h }

def splitAt (marker : String) (ts : List String) : List String × List String :=
  (ts.takeWhile (· ≠ marker), (ts.dropWhile (· ≠ marker)).drop 1)

def handlePair (shape : String) (ts obs : List String) : String × String :=
  match parsePair shape ts with
  | none => bad
  | some c =>
    let ccfg : Compression.CliCfg := { send := sendOf c.csnd, accept := Compression.runCalls c.cacc }
    let (so, co) := Compression.pair ccfg (slotsOf c.route c.sacc) (slotsOf c.route c.ssnd) c.shape c.k c.h
    let srvT := showSrv so
    let model := "p" ++ (srvT.splitOn " ").headD "" ++ " S " ++ srvT ++ " C " ++ showCli co
    let (_, rest) := splitAt "S" obs
    let (sToks, cToks) := splitAt "C" rest
    let v := match parseSrvObs sToks, parseCliObs cToks with
      | some os, some oc =>
        verdict [("tonic-pair-negotiates-and-delivers",
          Spec.Compression.pairOk (sendOf c.csnd) (Spec.Compression.enabledAfter c.cacc)
            (Spec.Compression.enabledAfter c.sacc) (Spec.Compression.enabledAfter c.ssnd)
            c.shape c.k c.h os oc)]
      | _, _ => "fail:unparsable-observation"
    (model, v)

/-! ### `gen.<j>`: a GENERATED client against a GENERATED server (settings made through the
generated builder methods).  Small and self-contained on purpose: the expectation is written
directly from the property text over the four configured sets. -/

def encNameOfChar (c : Char) : Option String :=
  if c = 'g' then some "gzip" else if c = 'd' then some "deflate" else if c = 'z' then some "zstd" else none

def genCalls (s : String) : List Char := s.toList.filter (· ≠ '-')

/-- canonical order in which tonic lists / examines encodings -/
def canon : List Char := ['g', 'd', 'z']

def handleGen (j : String) (ts obs : List String) : String × String :=
  match ts with
  | [csnd, cacc, sacc, ssnd, _n] =>
    let send : Option Char := (genCalls csnd).getLast?
    -- advertised in the order the encodings were enabled (repeats ignored)
    let cAcc := (genCalls cacc).eraseDups
    let sAcc := genCalls sacc
    let sSnd := genCalls ssnd
    let nReq := if j = "4" ∨ j = "5" then 2 else 1
    let nResp := if j = "3" ∨ j = "5" then 2 else 1
    let name := fun (c : Option Char) => (c.bind encNameOfChar).getD "-"
    let qe := name send
    let qa := if cAcc.isEmpty then "-" else String.intercalate "," ((cAcc.filterMap encNameOfChar) ++ ["identity"])
    let qf := String.ofList (List.replicate nReq (if send.isSome then '1' else '0'))
    let refused : Bool := match send with | some e => !(sAcc.contains e) | none => false
    let chosen : Option Char := cAcc.find? (fun c => sSnd.contains c)
    let expected :=
      if refused then s!"qe={qe} qa={qa} qf={qf} re=- rf=- out=err12"
      else
        let rf := String.ofList (List.replicate nResp (if chosen.isSome then '1' else '0'))
        s!"qe={qe} qa={qa} qf={qf} re={name chosen} rf={rf} out=ok"
    (expected, verdict [("generated-code-hands-the-compression-settings-on", String.intercalate " " obs == expected)])
  | _ => bad

def handleBase (case obs : List String) : String × String :=
  match case with
  | k :: ts =>
    if k.startsWith "srv." then handleSrv (k.drop 4).toString ts obs
    else if k.startsWith "cli." then handleCli (k.drop 4).toString ts obs
    else if k.startsWith "clih." then handleCliHttp (k.drop 5).toString ts obs
    else if k.startsWith "pair." then handlePair (k.drop 5).toString ts obs
    else if k.startsWith "gen." then handleGen (k.drop 4).toString ts obs
    -- `stk.`: the `gen.` experiment inside tonic's own stacks (real `Channel`, `transport::Server`,
    -- Routes, their middleware per the last token): same expectation, the stacks must be invisible
    else if k.startsWith "stk." then handleGen (k.drop 4).toString ts.dropLast obs
    else bad
  | _ => bad

/-- `feat srv <snd> <acc> A <accept header> E <encoding header>`: a `server::Grpc` of a build of tonic in which only
`gzip` and `zstd` are compiled in (side crate harness_c05gz; seed C05i: a name table that shifts when the compiled
encodings are not a prefix of gzip, deflate, zstd).  `<snd>` is `-` or ONE letter, so the choice is unambiguous.
Oracle (tie only, stated on the header texts): a request `grpc-encoding` is accepted iff it is absent, `identity`, or
the NAME of an encoding enabled for accepting - else UNIMPLEMENTED; the response is compressed with the send encoding
iff its NAME is among the comma-separated names the request's `grpc-accept-encoding` lists, announced under that
name, with flag 1; otherwise nothing is announced and the flag is 0. -/
def handleFeat (snd acc a e : String) (obs : List String) : String × String :=
  let nameOf (c : Char) : Option String := if c = 'g' then some "gzip" else if c = 'z' then some "zstd" else none
  let names (t : String) : List String := if t = "-" then [] else t.toList.filterMap nameOf
  let offered : List String := if a = "-" then [] else (a.splitOn ",").map (fun x => (x.replace "_" " ").trimAscii.toString)
  let reqEnc := (e.replace "_" " ").trimAscii.toString
  let accepted := e = "-" || reqEnc = "identity" || (names acc).contains reqEnc
  let expected :=
    if !accepted then ["status:12", "enc:-", "flag:-"]
    else
      match names snd with
      | [n] => if offered.contains n then ["status:0", "enc:" ++ n, "flag:1"] else ["status:0", "enc:-", "flag:0"]
      | _ => ["status:0", "enc:-", "flag:0"]
  (String.intercalate " " expected,
   if obs = ["side-binary-missing"] then "fail:side-binary-missing" else
   verdict [("unsupported-request-encoding-refused", accepted || obs.head? == some "status:12"),
            ("server-choice-enabled-and-offered", !accepted || obs == expected)])

/-- `x.<knobs> <inner case>` (harness/src/c05_x.rs): the inner case run with dimensions turned
that must be INVISIBLE to the negotiation — message-size limits configured next to the
compression settings, the codec's buffer settings, how the received body is cut into DATA frames,
foreign headers (`accept-encoding`, `content-encoding`, content-type / `te` / version variants,
negotiation names in TRAILERS), `Pending` message streams, `with_origin`, clones of clones,
histories in which the peer told the client what it accepts / the same server value served other
calls, interceptor layers around generated code.  The model has no such parameter: prediction and
verdict are those of the inner case. -/
def handle (case obs : List String) : String × String :=
  match case with
  | ["feat", "srv", snd, acc, "A", a, "E", e] =>
    if snd.length ≤ 1 then handleFeat snd acc a e obs else bad
  | k :: ts => if k.startsWith "x." then handleBase ts obs else handleBase case obs
  | _ => bad

end DriverC05
