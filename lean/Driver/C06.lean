import Driver.Framing
import TonicModel.Model.LimitCfg
import TonicModel.Spec.LimitCfg
namespace DriverC06
open Proto Framing DriverFraming

/-- messages before the first source error / oversized message, and the expected final code -/
def okPrefix (c : EncCase) : List Bytes × Option Nat :=
  let rec go : List (SrcEv EMsg) → List Bytes × Option Nat
    | [] => ([], none)
    | .pending :: r => go r
    | .err st :: _ => ([], some st.code)
    | .item (_, true) :: _ => ([], some 13)     -- `Encoder::encode` fails: INTERNAL, nothing of the item is sent
    | .item (m, false) :: r =>
      let p := if c.cfg.comp.isSome then (tableCodec c.tab).cz .gzip m else m
      let over : Bool := match c.cfg.maxSize with | some l => decide (p.length > l) | none => false
      if over then ([], some 11) else
      let (ms, e) := go r
      (m :: ms, e)
  go c.evs

def firstStatus : List String → Option String
  | [] => none
  | t :: r => if tokKind t = 't' ∨ tokKind t = 'e' then some t else firstStatus r

def beforeStatus : List String → List String
  | [] => []
  | t :: r => if tokKind t = 't' ∨ tokKind t = 'e' then [] else t :: beforeStatus r

def codeOfTok (t : String) : Option Nat := (((t.drop 1).toString.splitOn ":").head?).bind String.toNat?

/-- walk headers only (an oversized declared length need not be followed by a payload): the
frames before the first oversized / incomplete one, and whether one is oversized -/
def walk (limit : Nat) (fuel : Nat) (bs : Bytes) : List (UInt8 × Bytes) × Bool :=
  match fuel, bs with
  | fuel + 1, f :: a :: b :: cc :: d :: rest =>
    let len := Spec.Framing.be32 a b cc d
    if len > limit then ([], true)
    else if len ≤ rest.length then
      let (fs, o) := walk limit fuel (rest.drop len)
      ((f, rest.take len) :: fs, o)
    else ([], false)
  | _, _ => ([], false)


/-! ### limits as configured on `server::Grpc` / `client::Grpc` (the configuration is handed to
the codec unchanged; the model is the framing model's own limit decisions) -/

def idCodec : Codec Bytes := { ser := id, de := some, deErr := 13, cz := fun _ b => b, dz := fun _ b => some b }

/-- does the encoder model refuse a message of `n` bytes under limit `e`? -/
def encRefuses (e : Option Nat) (n : Nat) : Bool :=
  (encodeErr idCodec { comp := none, yieldThr := 0, maxSize := e, server := true } (List.replicate n 1)).isSome

/-- does the decoder model refuse a declared length `n` under limit `d`? -/
def decRefuses (d : Option Nat) (n : Nat) : Bool :=
  decide (n > ({ enc := none, maxSize := d, dir := .request } : DecCfg).limit)

def handleLim (case obs : List String) : String × String :=
  match case with
  | [side, mode, e, d, rq, rs] =>
    match optNat? (if e = "-" then "none" else e), optNat? (if d = "-" then "none" else d), nat? rq, nat? rs with
    | some e, some d, some rq, some rs =>
      if side = "lim.srv" then
        -- unary / server-streaming decode the request before the handler runs; with a streaming
        -- request the handler runs and meets the refusal on its incoming stream
        let early := mode.endsWith "u" || mode.endsWith "s"
        let refused := if early then "11 h0 m0" else "11 h1 m0"
        let model := if decRefuses d rq then refused else if encRefuses e rs then "11 h1 m1" else "0 h1 m1"
        -- spec, stated directly: received iff within the decoding limit (4 MiB default); sent iff within the encoding limit
        let dl := d.getD (4 * 1024 * 1024)
        let expected := if rq > dl then refused else if (match e with | some l => decide (rs > l) | none => false) then "11 h1 m1" else "0 h1 m1"
        (model, verdict [("limits-enforced-as-configured", String.intercalate " " obs == expected)])
      else
        let model := if encRefuses e rq then "err11 s0" else if decRefuses d rs then "err11 s1" else "ok s1"
        let dl := d.getD (4 * 1024 * 1024)
        let expected := if (match e with | some l => decide (rq > l) | none => false) then "err11 s0"
                        else if rs > dl then "err11 s1" else "ok s1"
        (model, verdict [("limits-enforced-as-configured", String.intercalate " " obs == expected)])
    | _, _, _, _ => bad
  | _ => bad

/-- `lim.gen`: a generated client against a generated server, the four limits set through the
generated builder methods.  The request passes the client's encoding limit and the server's
decoding limit; every response passes the server's encoding limit and the client's decoding
limit; the first refusal ends the call with OUT_OF_RANGE. -/
def handleLimGen (case obs : List String) : String × String :=
  match case with
  | _ :: j :: ce :: cd :: se :: sd :: _n :: "Q" :: q :: "R" :: rs =>
    let o := fun (s : String) => optNat? (if s = "-" then "none" else s)
    match o ce, o cd, o se, o sd, nat? q, rs.mapM nat? with
    | some ce, some cd, some se, some sd, some q, some rs =>
      let nreq := if j = "4" ∨ j = "5" then 2 else 1
      let reqRefused := encRefuses ce q || decRefuses sd q
      let respRefused := rs.any (fun r => encRefuses se r || decRefuses cd r)
      let model := if nreq > 0 ∧ reqRefused then "err11" else if respRefused then "err11" else s!"ok{rs.length}"
      -- spec, stated directly on the numbers
      let over := fun (l : Option Nat) (dflt : Option Nat) (x : Nat) =>
        match l, dflt with
        | some l, _ => decide (x > l)
        | none, some d => decide (x > d)
        | none, none => false
      let mib4 := 4 * 1024 * 1024
      let bad := over ce none q || over sd (some mib4) q || rs.any (fun r => over se none r || over cd (some mib4) r)
      let expected := if bad then "err11" else s!"ok{rs.length}"
      (model, verdict [("generated-code-hands-the-limits-to-the-codec", String.intercalate " " obs == expected)])
    | _, _, _, _, _, _ => bad
  | _ => bad

/-- C06 verdict.  enc: every message before the first oversized one / source error is delivered,
in order, ahead of the status, whose code is OUT_OF_RANGE for an oversized message; nothing of
the oversized message is sent.  dec: frames are accepted iff payload length ≤ limit; the first
oversized one yields OUT_OF_RANGE (even when only its 5-byte prefix has arrived). -/
def handleFraming (case obs : List String) : String × String :=
  match parseCase case with
  | none => bad
  | some fc =>
    match fc with
      | .enc c =>
          let (ms, e) := okPrefix c
          let flag : UInt8 := if c.cfg.comp.isSome then 1 else 0
          let expected := Spec.Framing.frames (ms.map (fun it =>
            (flag, if c.cfg.comp.isSome then (tableCodec c.tab).cz .gzip it else it)))
          let delivered := (obsData (beforeStatus obs)).flatten
          let st := firstStatus obs
          let expCode : Option Nat := match e with | some k => some k | none => if c.cfg.server then some 0 else none
          (encColumn c obs,
           verdict [("no-panic", !obs.any isBad), ("no-lost-wakeup", noLostWakeup obs),
                   ("earlier-messages-delivered-before-status", delivered == expected),
                   ("status-code", (st.bind codeOfTok) == expCode),
                   ("nothing-sent-after-status", e.isNone || c.cfg.server == false ||
                       (obsData obs).flatten == expected),
                   -- the refusal must REACH the consumer: hyper consults `is_end_stream()` between polls
                   ("is-end-stream-only-when-nothing-more-comes", endStreamOk c.cfg.server obs)])
      | .dec c =>
          let m := runDec c
          -- walk headers only (an oversized declared length need not be followed by a payload):
          -- the frames before the first oversized / incomplete one, and whether one is oversized
          let limit := c.cfg.maxSize.getD (4 * 1024 * 1024)
          let (frs, over) := walk limit ((grpcData c).length + 1) (grpcData c)
          let within := frs.filterMap (payloadMsg c.tab)
          let allValid := within.length == frs.length
              && frs.all (fun fp => fp.1 == 0 || c.cfg.enc.isSome)
              && within.all (fun m => m.head? != some 255)
          let st := firstStatus obs
          if !allValid then (m, verdict [("no-panic", !obs.any isBad), ("no-lost-wakeup", noLostWakeup obs), ("no-oversize-reservation", !obs.contains "a1")])
          else (m, verdict [("no-panic", !obs.any isBad), ("no-lost-wakeup", noLostWakeup obs),
                   ("no-oversize-reservation", !obs.contains "a1"),
                   ("accepted-iff-within-limit", obsMsgs (beforeStatus obs) == within),
                   ("oversized-refused-with-out-of-range", !over || st == some "e11:t")])

/-! ### `lim.seq`: one `Grpc` value through a program of configuration statements and calls
(grammar: harness/src/c06_x.rs).  The model column is `LimitCfg.runServer` / `runClient`; the
verdict compares the observation with `Spec.LimitCfg`, which reads the limit in force at each call
off the program text (`C06_limit_program_server` / `_client`: the two agree on every program). -/

open LimitProg in
def parseMsgLen (s : String) : Option Nat :=
  match s.splitOn "/" with
  | [r] => r.toNat?
  | [_, w] => w.toNat?        -- travels compressed: the wire length counts
  | _ => none

def parseMsgs (s : String) : Option (List Nat) :=
  if s = "" ∨ s = "-" then some [] else (s.splitOn ",").mapM parseMsgLen

open LimitProg in
def parseShape (c : Char) : Option Shape :=
  if c = 'u' then some .unary else if c = 's' then some .serverStreaming
  else if c = 'c' then some .clientStreaming else if c = 'd' then some .streaming else none

open LimitProg in
def parseStmt (server : Bool) (s : String) : Option Stmt :=
  let o := fun (x : String) => if x = "-" then some none else x.toNat?.map some
  match s.splitOn ":" with
  | [head, qs, rs] =>
    match head.toList with
    | [sh, z] =>
      match parseShape sh, parseMsgs qs, parseMsgs rs with
      | some sh, some qs, some rs => if qs.isEmpty || rs.isEmpty then none else some (.call ⟨sh, z = 'z', qs, rs⟩)
      | _, _, _ => none
    | _ => none
  | [t] =>
    if t = "zA" then some (.op .acceptZ) else if t = "zS" then some (.op .sendZ)
    else if t = "k" then (if server then none else some (.op .clone))
    else match t.toList with
      | 'd' :: cs => (String.ofList cs).toNat?.map (fun l => .op (.setDec l))
      | 'e' :: cs => (String.ofList cs).toNat?.map (fun l => .op (.setEnc l))
      | 'a' :: cs =>
        if !server then none else
        match (String.ofList cs).splitOn "/" with
        | [d, e] => match o d, o e with
          | some d, some e => some (.op (.apply d e))
          | _, _ => none
        | _ => none
      | _ => none
  | _ => none

open LimitProg in
def srvTok (o : SrvObs) : String := s!"{o.code},h{o.h},m{o.m},r{o.r}"

open LimitProg in
def cliTok (o : CliObs) : String :=
  s!"s{o.s},r{o.r}," ++ (match o.code with | some c => s!"err{c}" | none => "ok")

/-- the status part of a call token (server: code and handler runs; client: the final word) -/
def statusPart (server : Bool) (t : String) : String :=
  let ps := t.splitOn ","
  if server then String.intercalate "," (ps.take 2) else String.intercalate "," (ps.drop 2)

def handleLimSeq (case obs : List String) : String × String :=
  match case with
  | _ :: side :: stmts =>
    let server := side = "s"
    if side ≠ "s" ∧ side ≠ "c" then bad else
    match stmts.mapM (parseStmt server) with
    | none => bad
    | some prog =>
      let model := if server then (LimitCfg.runServer LimitCfg.Cfg.init prog).map srvTok
                   else (LimitCfg.runClient LimitCfg.Cfg.init prog).map cliTok
      let expected := if server then (Spec.LimitCfg.runServer [] prog).map srvTok
                      else (Spec.LimitCfg.runClient [] prog).map cliTok
      (String.intercalate " " model,
       verdict [("no-panic", !obs.any isBad), ("no-lost-wakeup", !obs.any (fun t => (t.splitOn ",").contains "lost-wakeup")),
                ("refused-iff-over-the-limit-in-force", obs.map (statusPart server) == expected.map (statusPart server)),
                ("earlier-messages-delivered-before-status", obs == expected)])
  | _ => bad

def handle (case obs : List String) : String × String :=
  match case with
  | "lim.gen" :: _ => handleLimGen case obs
  -- the generated pair reached along another path (clone, Routes, interceptors, builder order,
  -- an earlier call, other constructors): the path is invisible
  | "lim.genp" :: _ :: rest => handleLimGen ("lim.gen" :: rest) obs
  | "lim.srv" :: _ | "lim.cli" :: _ => handleLim case obs
  | "lim.seq" :: _ => handleLimSeq case obs
  -- a body that gives size hints: the hints are invisible
  | "dech" :: _ :: _ :: rest => handleFraming rest obs
  | _ => handleFraming case obs
end DriverC06
