import TonicModel.Basic.Bytes
import TonicModel.Model.Timeout
import TonicModel.Spec.Timeout
