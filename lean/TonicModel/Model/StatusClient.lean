import TonicModel.Model.Status
import TonicModel.Model.Framing
/-
Model of the place where a tonic CLIENT first looks for a status (C04, audit aC04):
`client::Grpc::create_response` (tonic/src/client/grpc.rs) reads the response HEADERS with
`Status::from_header_map` — a trailers-only response carries its status there — and decides what
kind of stream the body becomes:

  * a `grpc-status` other than OK in the headers: the call fails with that status at once
    (whatever the HTTP status and the body are);
  * `grpc-status: 0` in the headers: `Streaming::new_empty` (`Direction::EmptyResponse`: the end of
    the body is not classified any more);
  * no `grpc-status` in the headers: `Streaming::new_response(http)` — the stream of
    `Model/Framing.lean`, whose end is classified by the trailers / the HTTP status
    (`Status.inferGrpcStatus`).

and of what `client_streaming` (hence `unary`) makes of that stream: the first message, then
`trailers()`; an error before the first message has the response headers merged into its metadata.
-/
namespace Status

inductive Created
  | fail (st : St)                 -- `return Err(status)`
  | stream (dir : Framing.Dir)     -- `Ok(Response<Streaming>)`
  | panic
deriving DecidableEq, Repr

/-- `client::Grpc::create_response`, as far as the status goes -/
def createResponse (v : Variant) (http : Nat) (headers : HMap) : Created :=
  match fromHeaderMap v headers with
  | some .panic => .panic
  | some (.status st) => if st.code = .ok then .stream .empty else .fail st
  | none => .stream (.response http)

/-- `MetadataMap::merge` (`HeaderMap::extend`) -/
def mergeMd (a b : HMap) : HMap := HMap.extend a b

def missingMessage : St :=
  { code := .internal, message := Ascii.ofString "Missing response message.", details := [], metadata := [] }

/-- what `client_streaming` / `unary` return -/
inductive UnaryOut
  | ok (msg : Bytes) (metadata : HMap)
  | err (st : St)
deriving DecidableEq, Repr

/-- the terminal item of a stream once its messages are drained (`Streaming::trailers`):
`none` = clean end -/
def drainEnd : List (Framing.Item Bytes) → Option Framing.St
  | [] => none
  | .err e :: _ => some e
  | .none :: _ => none
  | _ :: r => drainEnd r

/-- `client::Grpc::client_streaming` on the items the response stream yields (`Pending`s
removed); `stOf` turns the stream model's error (code + class) into the status the stream
yields, `headers` / `trailers` are the response's blocks. -/
def unaryOf (stOf : Framing.St → St) (headers : HMap) (trailers : Option HMap) :
    List (Framing.Item Bytes) → UnaryOut
  | .msg m :: r =>
    match drainEnd r with
    | some e => .err (stOf e)
    | none => .ok m (match trailers with | some t => mergeMd headers t | none => headers)
  | .err e :: _ => let st := stOf e; .err { st with metadata := mergeMd st.metadata headers }
  | _ => .err missingMessage

/-- What a `Streaming` yields when it is polled once more after it ENDED CLEANLY and
`Streaming::trailers()` has taken the trailers out of it (`self.inner.trailers.take()`): the body
says `None` again, `poll_next` runs `response()` again — now without trailers.  `none` = the
stream says `None` again; `some e` = it now fails with `e` (finding C04-F2). -/
def repollAfterTrailersTaken (dir : Framing.Dir) : Option Framing.St :=
  Framing.Dec.response { enc := none, maxSize := none, dir := dir } { buf := [], ph := .hdr, trailers := none }

end Status
