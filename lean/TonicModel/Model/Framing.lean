import TonicModel.Basic.Bytes
/-
Model of tonic's length-prefixed message framing (C01, C03, C06, C07):
  * `codec/encode.rs`: `encode_item` + `finish_encoding` → `encodeItem`;
    `EncodedBytes::poll_next` → `Enc.pollNext`; `EncodeBody::poll_frame` → `Enc.pollFrame`.
  * `codec/decode.rs`: `StreamingInner::decode_chunk` + `Streaming::decode_chunk` → `Dec.decodeChunk`;
    `StreamingInner::poll_frame`, `response`, `Streaming::poll_next` → `Dec.pollNext`.
The message codec and the compressors are parameters (`Codec`); `&mut` buffers are returned
values; `loop {}` is structural recursion over the list of environment events still to come
(the end of the list is "Ready(None) from now on").
The model follows the code *after* the `fix:` commits listed in known_findings.json (the decoder
before the last of them, which made `poll_frame` drop the DATA of non-200 responses, is kept in
`Model/FramingAsFound.lean` for the C04 witnesses).
-/
namespace Framing

inductive Enc | gzip | deflate | zstd
deriving DecidableEq, Repr

/-- What the model keeps of a `tonic::Status`: the code and which site produced it. -/
inductive Cls
  | ok            -- Status::ok("") written as trailers
  | user          -- a status handed in by the environment (source stream, body, trailers)
  | tooLargeEnc   -- finish_encoding: over max_message_size            (OUT_OF_RANGE)
  | over4G        -- finish_encoding: over u32::MAX                    (RESOURCE_EXHAUSTED)
  | encode        -- encode_item: `Encoder::encode` returned an error  (INTERNAL "Error encoding: …")
  | badFlag       -- decode_chunk: flag not 0/1                        (INTERNAL)
  | noEncoding    -- decode_chunk: flag 1 without negotiated encoding  (INTERNAL)
  | tooLargeDec   -- decode_chunk: over max_message_size               (OUT_OF_RANGE)
  | decompress    -- decode_chunk: decompressor failed                 (INTERNAL)
  | codec         -- Decoder::decode returned Err
  | eof           -- poll_frame: body ended with bytes left in the buffer (INTERNAL)
  | http          -- infer_grpc_status: no grpc-status, mapped from the HTTP status
deriving DecidableEq, Repr

structure St where
  code : Nat
  cls : Cls
deriving DecidableEq, Repr

def St.okSt : St := ⟨0, .ok⟩

/-- Message codec and compressors: parameters; their round-trip laws are theorem hypotheses. -/
structure Codec (α : Type) where
  ser : α → Bytes
  de : Bytes → Option α          -- `none`: `Decoder::decode` returned an error
  deErr : Nat                     -- the code of that error status
  cz : Enc → Bytes → Bytes
  dz : Enc → Bytes → Option Bytes
  /-- `Encoder::encode` returns `Err` for this message (whatever it wrote into the buffer before
  failing is dropped by `EncodedBytes::poll_next`, so the model does not keep it) -/
  serFail : α → Bool := fun _ => false

def u32Max : Nat := 4294967295
def defaultMaxRecv : Nat := 4 * 1024 * 1024
def headerSize : Nat := 5

/-! ### Encoder -/

structure EncCfg where
  comp : Option Enc        -- effective encoding (after the per-response `Disable` override, see `Enc.newServer`)
  yieldThr : Nat
  maxSize : Option Nat     -- `None` = usize::MAX (no limit)
  server : Bool
  bufSize : Nat := 8192    -- `BufferSettings::buffer_size`: growth interval of the compression output buffer

/-- `SingleMessageCompressionOverride` (compression.rs). -/
inductive Override | inherit | disable
deriving DecidableEq, Repr

/-- `EncodeBody::new_server` → `EncodedBytes::new`: the per-response opt-out switches compression
off for the whole body. -/
def Enc.newServer (comp : Option Enc) (ovr : Override) (yieldThr bufSize : Nat) (maxSize : Option Nat) : EncCfg :=
  { comp := if ovr = .disable then none else comp, yieldThr := yieldThr, maxSize := maxSize,
    server := true, bufSize := bufSize }

/-- `EncodeBody::new_client` → `EncodedBytes::new` with `SingleMessageCompressionOverride::default()`
(`Inherit`): a request body has no opt-out. -/
def Enc.newClient (comp : Option Enc) (yieldThr bufSize : Nat) (maxSize : Option Nat) : EncCfg :=
  { comp := comp, yieldThr := yieldThr, maxSize := maxSize, server := false, bufSize := bufSize }

/-! #### `compress` / `decompress` and `buffer_size` (compression.rs)

Both reserve `((len / interval) + 1) * interval` bytes in their output buffer, `interval` being the
codec's `buffer_size`.  Rust's `usize / usize` panics on a zero divisor, so the division is
explicit here and a panic is an outcome (`none`).  The code as found divided by `buffer_size`
itself (`Found.reserveCap`); after the fix commit "a zero buffer_size no longer divides by zero
when (de)compressing" the interval is `max(1, buffer_size)`. -/

/-- Rust's `usize / usize`: `none` is the panic "attempt to divide by zero". -/
def udiv (a b : Nat) : Option Nat := if b = 0 then none else some (a / b)

/-- the capacity `compress` (for `len` input bytes) / `decompress` (for `len = 2 * compressed
length`) reserve; `none` = panic -/
def reserveCap (bufSize len : Nat) : Option Nat :=
  (udiv len (max 1 bufSize)).map (fun q => (q + 1) * max 1 bufSize)

/-- the same computation in the code as found (before the fix) -/
def Found.reserveCap (bufSize len : Nat) : Option Nat :=
  (udiv len bufSize).map (fun q => (q + 1) * bufSize)

/-- the `compress` call of `encode_item`: `none` = panic, otherwise the compressed bytes -/
def compressCall (cd : Codec α) (bufSize : Nat) (e : Enc) (raw : Bytes) : Option Bytes :=
  (reserveCap bufSize raw.length).map (fun _ => cd.cz e raw)

/-- the `decompress` call of `decode_chunk` on a complete compressed payload: outer `none` =
panic, otherwise what the decompressor made of it -/
def decompressCall (cd : Codec α) (bufSize : Nat) (e : Enc) (pl : Bytes) : Option (Option Bytes) :=
  (reserveCap bufSize (2 * pl.length)).map (fun _ => cd.dz e pl)

def Found.compressCall (cd : Codec α) (bufSize : Nat) (e : Enc) (raw : Bytes) : Option Bytes :=
  (Found.reserveCap bufSize raw.length).map (fun _ => cd.cz e raw)

def Found.decompressCall (cd : Codec α) (bufSize : Nat) (e : Enc) (pl : Bytes) : Option (Option Bytes) :=
  (Found.reserveCap bufSize (2 * pl.length)).map (fun _ => cd.dz e pl)

inductive SrcEv (α : Type)
  | item (m : α)
  | err (st : St)
  | pending

def payload (cd : Codec α) (cfg : EncCfg) (m : α) : Bytes :=
  match cfg.comp with
  | some e => cd.cz e (cd.ser m)
  | none => cd.ser m

/-- Does `encode_item` panic on this message?  Only its `compress` call can (it is reached when
compression is in effect and `Encoder::encode` succeeded). -/
def compressPanics (cd : Codec α) (cfg : EncCfg) (m : α) : Bool :=
  match cfg.comp with
  | some e => !cd.serFail m && (compressCall cd cfg.bufSize e (cd.ser m)).isNone
  | none => false

/-- The ways `encode_item` refuses a message, in the code's order: `Encoder::encode` fails, then
the two checks of `finish_encoding`. -/
def encodeErr (cd : Codec α) (cfg : EncCfg) (m : α) : Option St :=
  if cd.serFail m then some ⟨13, .encode⟩ else
  let len := (payload cd cfg m).length
  match cfg.maxSize with
  | some l =>
    if len > l then some ⟨11, .tooLargeEnc⟩
    else if len > u32Max then some ⟨8, .over4G⟩ else none
  | none => if len > u32Max then some ⟨8, .over4G⟩ else none

def flagByte (cfg : EncCfg) : UInt8 := if cfg.comp.isSome then 1 else 0

def frameOf (cd : Codec α) (cfg : EncCfg) (m : α) : Bytes :=
  flagByte cfg :: (u32be (payload cd cfg m).length ++ payload cd cfg m)

/-- `encode_item`: append one frame to `buf`, or fail leaving `buf` as it was. -/
def encodeItem (cd : Codec α) (cfg : EncCfg) (buf : Bytes) (m : α) : Except St Bytes :=
  match encodeErr cd cfg m with
  | some st => .error st
  | none => .ok (buf ++ frameOf cd cfg m)

structure EncSt where
  buf : Bytes
  error : Option St

inductive BytesOut
  | data (b : Bytes)
  | err (st : St)
  | pending
  | done
  | panic

/-- The `loop` of `EncodedBytes::poll_next` (entered with `error = None`). -/
def Enc.loop (cd : Codec α) (cfg : EncCfg) (buf : Bytes) :
    List (SrcEv α) → EncSt × List (SrcEv α) × BytesOut
  | [] => if buf.isEmpty then (⟨[], none⟩, [], .done) else (⟨[], none⟩, [], .data buf)
  | .pending :: rest =>
    if buf.isEmpty then (⟨[], none⟩, rest, .pending) else (⟨[], none⟩, rest, .data buf)
  | .err st :: rest =>
    if buf.isEmpty then (⟨[], none⟩, rest, .err st) else (⟨[], some st⟩, rest, .data buf)
  | .item m :: rest =>
    if compressPanics cd cfg m then (⟨buf, none⟩, rest, .panic) else
    match encodeItem cd cfg buf m with
    | .error st =>
      if buf.isEmpty then (⟨[], none⟩, rest, .err st) else (⟨[], some st⟩, rest, .data buf)
    | .ok buf' =>
      if buf'.length ≥ cfg.yieldThr then (⟨[], none⟩, rest, .data buf')
      else Enc.loop cd cfg buf' rest

def Enc.pollNext (cd : Codec α) (cfg : EncCfg) (s : EncSt) (evs : List (SrcEv α)) :
    EncSt × List (SrcEv α) × BytesOut :=
  match s.error with
  | some st => ({ s with error := none }, evs, .err st)
  | none => Enc.loop cd cfg s.buf evs

structure BodySt where
  inner : EncSt
  isEndStream : Bool

inductive FrameOut
  | data (b : Bytes)
  | trailers (st : St)
  | err (st : St)
  | pending
  | none
  | panic
deriving DecidableEq, Repr

/-- `EncodeBody::poll_frame`. -/
def Enc.pollFrame (cd : Codec α) (cfg : EncCfg) (b : BodySt) (evs : List (SrcEv α)) :
    BodySt × List (SrcEv α) × FrameOut :=
  if b.isEndStream then (b, evs, .none)
  else
    match Enc.pollNext cd cfg b.inner evs with
    | (s', evs', .pending) => ({ b with inner := s' }, evs', .pending)
    | (s', evs', .panic) => ({ b with inner := s' }, evs', .panic)
    | (s', evs', .data d) => ({ b with inner := s' }, evs', .data d)
    | (s', evs', .err st) =>
      if cfg.server then ({ inner := s', isEndStream := true }, evs', .trailers st)
      else ({ b with inner := s' }, evs', .err st)
    | (s', evs', .done) =>
      if cfg.server then ({ inner := s', isEndStream := true }, evs', .trailers St.okSt)
      else ({ b with inner := s' }, evs', .none)

def Enc.init : BodySt := ⟨⟨[], none⟩, false⟩

/-- `n` successive polls of the body. -/
def Enc.run (cd : Codec α) (cfg : EncCfg) : Nat → BodySt → List (SrcEv α) → List FrameOut
  | 0, _, _ => []
  | n + 1, b, evs =>
    match Enc.pollFrame cd cfg b evs with
    | (b', evs', o) => o :: Enc.run cd cfg n b' evs'

/-- `EncodeBody::is_end_stream`. -/
def Enc.isEndStream (b : BodySt) : Bool := b.isEndStream

/-- `EncodeBody::size_hint`: not overridden, so `http_body::Body`'s default — lower bound 0, no
upper bound — in every state. -/
def Enc.sizeHint (_b : BodySt) : Nat × Option Nat := (0, none)

/-- `is_end_stream()` observed before each of `n` successive polls and once after the last. -/
def Enc.endFlags (cd : Codec α) (cfg : EncCfg) : Nat → BodySt → List (SrcEv α) → List Bool
  | 0, b, _ => [Enc.isEndStream b]
  | n + 1, b, evs =>
    match Enc.pollFrame cd cfg b evs with
    | (b', evs', _) => Enc.isEndStream b :: Enc.endFlags cd cfg n b' evs'

/-- `n` successive polls in one pass: each poll's result with the `is_end_stream()` seen just
before it, and the flag after the last poll (`Enc.run` and `Enc.endFlags` are its projections:
`trace_run`, `trace_flags`). -/
def Enc.trace (cd : Codec α) (cfg : EncCfg) : Nat → BodySt → List (SrcEv α) → List (Bool × FrameOut) × Bool
  | 0, b, _ => ([], Enc.isEndStream b)
  | n + 1, b, evs =>
    match Enc.pollFrame cd cfg b evs with
    | (b', evs', o) =>
      let r := Enc.trace cd cfg n b' evs'
      ((Enc.isEndStream b, o) :: r.1, r.2)

/-! ### Decoder -/

inductive Dir
  | request
  | response (http : Nat)
  | empty
deriving DecidableEq, Repr

structure DecCfg where
  enc : Option Enc
  maxSize : Option Nat
  dir : Dir

def DecCfg.limit (cfg : DecCfg) : Nat := cfg.maxSize.getD defaultMaxRecv

/-- `Direction::Response(status)` with `status != 200`: the response is not a gRPC message stream
(an HTML error page of a proxy, say).  `poll_frame` then drops the body's DATA unread, and the
stream ends with the status inferred from the trailers / the HTTP status
(fix "classify a non-200 response by its HTTP status instead of parsing its body as gRPC frames"). -/
def DecCfg.skipsBody (cfg : DecCfg) : Bool :=
  match cfg.dir with
  | .response http => http != 200
  | _ => false

/-- what `poll_frame` puts into the buffer for a DATA frame `c` -/
def DecCfg.accept (cfg : DecCfg) (c : Bytes) : Bytes := if cfg.skipsBody then [] else c

inductive Phase
  | hdr
  | body (len : Nat) (comp : Option Enc)
  | failed (st : Option St)     -- `State::Error`
deriving DecidableEq, Repr

/-- Trailers as far as the framing layer looks at them: the grpc-status code if present. -/
abbrev Tr := Option Nat

structure DecSt where
  buf : Bytes
  ph : Phase
  trailers : Option Tr

inductive BodyEv
  | data (b : Bytes)
  | trailers (t : Tr)
  | err (st : St)
  | pending

inductive DC (α : Type)
  | item (m : α)
  | more
  | fail (st : St)

/-- The `ReadBody` half of `decode_chunk` followed by `Decoder::decode`. -/
def Dec.readBody (cd : Codec α) (s : DecSt) (len : Nat) (comp : Option Enc) : DecSt × DC α :=
  if s.buf.length < len then ({ s with ph := .body len comp }, .more)
  else
    let pl := s.buf.take len
    let rest := s.buf.drop len
    match comp with
    | some e =>
      match cd.dz e pl with
      | none => ({ s with ph := .body len comp }, .fail ⟨13, .decompress⟩)
      | some raw =>
        match cd.de raw with
        | none => ({ s with buf := rest, ph := .body len comp }, .fail ⟨cd.deErr, .codec⟩)
        | some m => ({ s with buf := rest, ph := .hdr }, .item m)
    | none =>
      match cd.de pl with
      | none => ({ s with buf := rest, ph := .body len comp }, .fail ⟨cd.deErr, .codec⟩)
      | some m => ({ s with buf := rest, ph := .hdr }, .item m)

/-- `Streaming::decode_chunk` (never called in the `failed` phase). -/
def Dec.decodeChunk (cd : Codec α) (cfg : DecCfg) (s : DecSt) : DecSt × DC α :=
  match s.ph with
  | .failed _ => (s, .more)
  | .body len comp => Dec.readBody cd s len comp
  | .hdr =>
    match s.buf with
    | f :: a :: b :: c :: d :: rest =>
      let afterFlag : DecSt := { s with buf := a :: b :: c :: d :: rest }
      let proceed (comp : Option Enc) : DecSt × DC α :=
        let len := readU32 a b c d
        if len > cfg.limit then ({ s with buf := rest }, .fail ⟨11, .tooLargeDec⟩)
        else Dec.readBody cd { s with buf := rest } len comp
      if f = 0 then proceed none
      else if f = 1 then
        match cfg.enc with
        | some e => proceed (some e)
        | none => (afterFlag, .fail ⟨13, .noEncoding⟩)
      else (afterFlag, .fail ⟨13, .badFlag⟩)
    | _ => (s, .more)

inductive Item (α : Type)
  | msg (m : α)
  | err (st : St)
  | none
  | pending
deriving DecidableEq, Repr

/-- `infer_grpc_status` as far as the code/class abstraction goes. `none` = no error. -/
def inferStatus (tr : Option Tr) (http : Nat) : Option St :=
  match tr with
  | some (some c) => if c = 0 then none else some ⟨c, .user⟩
  | _ =>
    if http = 200 then none
    else if http = 400 then some ⟨13, .http⟩
    else if http = 401 then some ⟨16, .http⟩
    else if http = 403 then some ⟨7, .http⟩
    else if http = 404 then some ⟨12, .http⟩
    else if http = 429 ∨ http = 502 ∨ http = 503 ∨ http = 504 then some ⟨14, .http⟩
    else some ⟨2, .http⟩

/-- `StreamingInner::response`. -/
def Dec.response (cfg : DecCfg) (s : DecSt) : Option St :=
  match cfg.dir with
  | .response http => inferStatus s.trailers http
  | _ => none

/-- What `poll_next` does once `poll_frame` reported "no more data" (`Ok(None)`). -/
def Dec.finish (cfg : DecCfg) (s : DecSt) (evs : List BodyEv) : DecSt × List BodyEv × Item α :=
  match Dec.response cfg s with
  | none => (s, evs, .none)
  | some e => ({ s with ph := .failed none, trailers := none }, evs, .err e)

/-- `HeaderMap::extend` on the one header the abstraction keeps. -/
def mergeTr (old : Option Tr) (new : Tr) : Option Tr :=
  match old with
  | none => some new
  | some o => some (match new with | some c => some c | none => o)

inductive Pre (α : Type)
  | out (s : DecSt) (o : Item α)
  | need (s : DecSt)

/-- The part of one `poll_next` loop iteration that precedes `poll_frame`: the `State::Error`
check and `decode_chunk`. Every error latches `State::Error(None)`. -/
def Dec.pre (cd : Codec α) (cfg : DecCfg) (s : DecSt) : Pre α :=
  match s.ph with
  | .failed st =>
    .out { s with ph := .failed none } (match st with | some e => .err e | none => .none)
  | _ =>
    match Dec.decodeChunk cd cfg s with
    | (s', .item m) => .out s' (.msg m)
    | (s', .fail st) => .out { s' with ph := .failed none } (.err st)
    | (s', .more) => .need s'

/-- `Streaming::poll_next`. -/
def Dec.pollNext (cd : Codec α) (cfg : DecCfg) (s : DecSt) :
    List BodyEv → DecSt × List BodyEv × Item α
  | [] =>
    match Dec.pre cd cfg s with
    | .out s' o => (s', [], o)
    | .need s' =>
      if s'.buf.isEmpty then Dec.finish cfg s' []
      else ({ s' with ph := .failed none }, [], .err ⟨13, .eof⟩)
  | ev :: rest =>
    match Dec.pre cd cfg s with
    | .out s' o => (s', ev :: rest, o)
    | .need s' =>
      match ev with
      | .pending => (s', rest, .pending)
      | .data c => Dec.pollNext cd cfg { s' with buf := s'.buf ++ cfg.accept c } rest
      | .trailers t => Dec.finish cfg { s' with trailers := mergeTr s'.trailers t } rest
      | .err st =>
        if cfg.dir = .request ∧ st.code = 1 then Dec.finish cfg s' rest
        else ({ s' with ph := .failed none }, rest, .err st)

def Dec.init : DecSt := ⟨[], .hdr, none⟩

/-- `n` successive polls of the stream. -/
def Dec.run (cd : Codec α) (cfg : DecCfg) : Nat → DecSt → List BodyEv → List (Item α)
  | 0, _, _ => []
  | n + 1, s, evs =>
    match Dec.pollNext cd cfg s evs with
    | (s', evs', o) => o :: Dec.run cd cfg n s' evs'

end Framing
