import TonicModel.Basic.Bytes
import TonicModel.Basic.Base64
import TonicModel.Basic.Percent
import TonicModel.Basic.Utf8
import TonicModel.Basic.HMap
/-
Model of tonic's status ↔ header codec (C04), following `tonic/src/status.rs`:
  * `Code::from_i32`, `Code::from_bytes`, `Code::to_header_value`   → `Code.ofInt/fromBytes/headerValue`
  * `MetadataMap::into_sanitized_headers`                            → `sanitize`
  * `Status::add_header` / `to_header_map`                           → `addHeader` / `toHeaderMap`
  * `Status::from_header_map`                                        → `fromHeaderMap`
  * `infer_grpc_status` + the end-of-body step of `Streaming`        → `inferGrpcStatus` / `streamEnd`
  * `code_from_h2`, `to_h2_error`                                    → `codeFromH2` / `toH2`
(`Streaming` meeting a body WITH data is `Model/Framing.lean`; as found: `Model/FramingAsFound.lean`.)
`Variant.orig` is the pinned tree as found; `Variant.fixed` is the tree with the repairs
fixes/fix-C04-details-base64-panic.patch, fixes/fix-C04-h2-frame-size.patch and
fixes/fix-C12-status-details-metadata.patch applied (the tree the correspondence run drives).
-/
namespace Status

inductive Code
  | ok | cancelled | unknown | invalidArgument | deadlineExceeded | notFound | alreadyExists
  | permissionDenied | resourceExhausted | failedPrecondition | aborted | outOfRange
  | unimplemented | internal | unavailable | dataLoss | unauthenticated
deriving DecidableEq, Repr

namespace Code

def all : List Code :=
  [ok, cancelled, unknown, invalidArgument, deadlineExceeded, notFound, alreadyExists,
   permissionDenied, resourceExhausted, failedPrecondition, aborted, outOfRange,
   unimplemented, internal, unavailable, dataLoss, unauthenticated]

/-- `code as i32` -/
def num : Code → Nat
  | ok => 0 | cancelled => 1 | unknown => 2 | invalidArgument => 3 | deadlineExceeded => 4
  | notFound => 5 | alreadyExists => 6 | permissionDenied => 7 | resourceExhausted => 8
  | failedPrecondition => 9 | aborted => 10 | outOfRange => 11 | unimplemented => 12
  | internal => 13 | unavailable => 14 | dataLoss => 15 | unauthenticated => 16

/-- `Code::from_i32` restricted to non-negative arguments -/
def ofNum : Nat → Code
  | 0 => ok | 1 => cancelled | 2 => unknown | 3 => invalidArgument | 4 => deadlineExceeded
  | 5 => notFound | 6 => alreadyExists | 7 => permissionDenied | 8 => resourceExhausted
  | 9 => failedPrecondition | 10 => aborted | 11 => outOfRange | 12 => unimplemented
  | 13 => internal | 14 => unavailable | 15 => dataLoss | 16 => unauthenticated
  | _ => unknown

/-- `Code::from_i32` -/
def ofInt (i : Int) : Code := if i < 0 then unknown else ofNum i.toNat

/-- `Code::from_bytes` (the `grpc-status` parser): one or two ASCII digits, exact table. -/
def fromBytes (bs : Bytes) : Code :=
  match bs with
  | [a] =>
    if a = 48 then ok else if a = 49 then cancelled else if a = 50 then unknown
    else if a = 51 then invalidArgument else if a = 52 then deadlineExceeded
    else if a = 53 then notFound else if a = 54 then alreadyExists
    else if a = 55 then permissionDenied else if a = 56 then resourceExhausted
    else if a = 57 then failedPrecondition else unknown
  | [a, b] =>
    if a = 49 then
      if b = 48 then aborted else if b = 49 then outOfRange else if b = 50 then unimplemented
      else if b = 51 then internal else if b = 52 then unavailable else if b = 53 then dataLoss
      else if b = 54 then unauthenticated else unknown
    else unknown
  | _ => unknown

/-- `Code::to_header_value` -/
def headerValue : Code → Bytes
  | ok => [48] | cancelled => [49] | unknown => [50] | invalidArgument => [51]
  | deadlineExceeded => [52] | notFound => [53] | alreadyExists => [54]
  | permissionDenied => [55] | resourceExhausted => [56] | failedPrecondition => [57]
  | aborted => [49, 48] | outOfRange => [49, 49] | unimplemented => [49, 50]
  | internal => [49, 51] | unavailable => [49, 52] | dataLoss => [49, 53]
  | unauthenticated => [49, 54]

end Code

structure St where
  code : Code
  message : Bytes      -- a Rust `String`: callers supply valid UTF-8
  details : Bytes
  metadata : HMap
deriving DecidableEq, Repr

inductive Variant | orig | fixed
deriving DecidableEq, Repr

def GRPC_STATUS : Bytes := HMap.name "grpc-status"
def GRPC_MESSAGE : Bytes := HMap.name "grpc-message"
def GRPC_STATUS_DETAILS : Bytes := HMap.name "grpc-status-details-bin"

def TE : Bytes := HMap.name "te"
def USER_AGENT : Bytes := HMap.name "user-agent"
def CONTENT_TYPE : Bytes := HMap.name "content-type"
def GRPC_MESSAGE_TYPE : Bytes := HMap.name "grpc-message-type"

/-- `MetadataMap::GRPC_RESERVED_HEADERS` -/
def reservedHeaders : List Bytes :=
  [TE, USER_AGENT, CONTENT_TYPE, GRPC_MESSAGE, GRPC_MESSAGE_TYPE, GRPC_STATUS]

/-- `MetadataMap::into_sanitized_headers` -/
def sanitize (m : HMap) : HMap := HMap.removeAll reservedHeaders m

/-- `invalid_header_value_byte` -/
def invalidHeaderStatus : St :=
  { code := .internal, message := Ascii.ofString "Couldn't serialize non-text grpc status header",
    details := [], metadata := [] }

/-- the `grpc-message` step of `add_header`; `Except.error` is the `Err(Status)` of a value that
is not a legal header value (`HeaderValue::from_maybe_shared` failing) -/
def withMessage (st : St) (h : HMap) : Except St HMap :=
  if st.message = [] then .ok h
  else
    let w := Pct.encode st.message
    if HMap.legalValue w then .ok (HMap.insert GRPC_MESSAGE w h) else .error invalidHeaderStatus

/-- the `grpc-status-details-bin` step of `add_header` -/
def withDetails (st : St) (h : HMap) : Except St HMap :=
  if st.details = [] then .ok h
  else
    let w := B64.encode false st.details
    if HMap.legalValue w then .ok (HMap.insert GRPC_STATUS_DETAILS w h) else .error invalidHeaderStatus

/-- the metadata `add_header` copies into the block: sanitised, and (repaired tree) without a
`grpc-status-details-bin` entry, which belongs to the `details` field -/
def statusMetadata (v : Variant) (md : HMap) : HMap :=
  match v with
  | .orig => sanitize md
  | .fixed => HMap.remove GRPC_STATUS_DETAILS (sanitize md)

/-- `Status::add_header` -/
def addHeader (v : Variant) (st : St) (h : HMap) : Except St HMap :=
  match withMessage st (HMap.insert GRPC_STATUS st.code.headerValue (HMap.extend h (statusMetadata v st.metadata))) with
  | .error e => .error e
  | .ok h => withDetails st h

/-- `Status::to_header_map` -/
def toHeaderMap (v : Variant) (st : St) : Except St HMap := addHeader v st []

inductive Outcome
  | panic
  | status (st : St)
deriving DecidableEq, Repr

def msgErrPrefix : Bytes := Ascii.ofString "Error deserializing status message header: "
def detErrPrefix : Bytes := Ascii.ofString "Error deserializing status details header: "

/-- the `grpc-message` step: percent-decode, then `decode_utf8` -/
def decodeMessage (h : HMap) : Except Utf8.Err Bytes :=
  match HMap.get GRPC_MESSAGE h with
  | none => .ok []
  | some v =>
    let d := Pct.decode v
    match Utf8.validate d with
    | none => .ok d
    | some e => .error e

/-- `Status::from_header_map`; `none` = no `grpc-status` header. -/
def fromHeaderMap (v : Variant) (h : HMap) : Option Outcome :=
  match HMap.get GRPC_STATUS h with
  | none => none
  | some cv =>
    let code := Code.fromBytes cv
    let emsg := decodeMessage h
    let details : Option Bytes := match HMap.get GRPC_STATUS_DETAILS h with
      | some dv => B64.decode dv
      | none => some []
    let other := HMap.remove GRPC_STATUS_DETAILS (HMap.remove GRPC_MESSAGE (HMap.remove GRPC_STATUS h))
    let cm : Code × Bytes := match emsg with
      | .ok m => (code, m)
      | .error e => (Code.unknown, msgErrPrefix ++ e.text)
    match details with
    | some d => some (.status { code := cm.1, message := cm.2, details := d, metadata := other })
    | none =>
      match v with
      | .orig => some .panic        -- `.expect("Invalid status header, expected base64 encoded value")`
      | .fixed =>
        -- the message text continues with base64's error description, which the model does not
        -- reproduce; the harness canonicalises everything after the prefix away
        some (.status { code := .unknown, message := detErrPrefix, details := [], metadata := other })

/-- HTTP status → code of `infer_grpc_status` (`none` = 200: "finished, no status") -/
def httpToCode (http : Nat) : Option Code :=
  if http = 400 then some .internal
  else if http = 401 then some .unauthenticated
  else if http = 403 then some .permissionDenied
  else if http = 404 then some .unimplemented
  else if http = 429 ∨ http = 502 ∨ http = 503 ∨ http = 504 then some .unavailable
  else if http = 200 then none
  else some .unknown

inductive Infer
  | done                 -- `Ok(())`
  | noStatus             -- `Err(None)`
  | err (st : St)        -- `Err(Some(status))`
  | panic
deriving DecidableEq, Repr

def inferMessage (http : Nat) : Bytes :=
  Ascii.ofString "grpc-status header missing, mapped from HTTP status code " ++ decimal http

/-- `infer_grpc_status(trailers, status_code)` -/
def inferGrpcStatus (v : Variant) (trailers : Option HMap) (http : Nat) : Infer :=
  let fromTrailers : Option Outcome := match trailers with
    | some t => fromHeaderMap v t
    | none => none
  match fromTrailers with
  | some .panic => .panic
  | some (.status st) => if st.code = .ok then .done else .err st
  | none =>
    match httpToCode http with
    | none => .noStatus
    | some c => .err { code := c, message := inferMessage http, details := [], metadata := [] }

/-- What `Streaming::message()` yields at the end of a response body whose trailers frames were
`frames`, and the trailers still retrievable afterwards.  The first trailers frame ends the
stream (`poll_frame` returns `Ok(None)` for it and `poll_next` goes straight to `response()`), so
later frames are never read.  This is the whole story for a body without DATA, and — on the
repaired tree — for ANY body of a response whose HTTP status is not 200: its DATA is dropped
unread (`Framing.DecCfg.skipsBody`; theorems `C04_http_table_any_body`, `C04_non200_no_message`,
`C04_trailers_status_wins_any_body` on the stream model `Framing.Dec`).  The DATA of a 200
response is the message stream (`Model/Framing.lean`, C01/C06/C07). -/
inductive StreamEnd
  | finished (trailers : Option HMap)
  | err (st : St)
  | panic
deriving DecidableEq, Repr

def streamEnd (v : Variant) (frames : List HMap) (http : Nat) : StreamEnd :=
  let t := frames.head?
  match inferGrpcStatus v t http with
  | .done => .finished t
  | .noStatus => .finished t
  | .err st => .err st
  | .panic => .panic

/-- `code_from_h2` on the numeric HTTP/2 error code of a reset / go-away. -/
def codeFromH2 (v : Variant) (reason : Nat) : Code :=
  if reason = 0 ∨ reason = 1 ∨ reason = 2 ∨ reason = 3 ∨ reason = 4 ∨ reason = 9 ∨ reason = 10 then .internal
  else if reason = 6 then (match v with | .orig => .unknown | .fixed => .internal)
  else if reason = 7 then .unavailable
  else if reason = 8 then .cancelled
  else if reason = 11 then .resourceExhausted
  else if reason = 12 then .permissionDenied
  else .unknown

/-- `to_h2_error`: the HTTP/2 error code a status is reset with. -/
def toH2 (c : Code) : Nat := if c = .cancelled then 8 else 2

end Status
