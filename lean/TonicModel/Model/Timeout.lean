import TonicModel.Basic.Bytes
/-
Model of tonic's deadline handling (C09):
  * `request.rs::duration_to_grpc_timeout`           → `encodeVU` / `encode`
  * `grpc_timeout.rs::try_parse_grpc_timeout`        → `tryParse`
  * `GrpcTimeout::call` (min rule)                   → `effective`
  * `grpc_timeout.rs::ResponseFuture::poll`          → `pollAt` / `run`
Durations are total nanoseconds in `Nat` (Rust: `Duration`, u64 secs + u32 nanos).
-/
namespace Timeout

inductive U | n | u | m | S | M | H
deriving DecidableEq, Repr

def U.byte : U → UInt8
  | .n => 110 | .u => 117 | .m => 109 | .S => 83 | .M => 77 | .H => 72

def U.nanos : U → Nat
  | .n => 1 | .u => 1000 | .m => 1000000 | .S => 1000000000
  | .M => 60000000000 | .H => 3600000000000

def U.ofByte (b : UInt8) : Option U :=
  if b = 72 then some .H else if b = 77 then some .M else if b = 83 then some .S
  else if b = 109 then some .m else if b = 117 then some .u else if b = 110 then some .n
  else none

def maxValue : Nat := 99999999

/-- `duration_to_grpc_timeout`: first unit (most precise first) whose truncated value has at
most 8 digits.  `none` is the `expect("duration is unrealistically large")` panic. -/
def encodeVU (d : Nat) : Option (Nat × U) :=
  if d ≤ maxValue then some (d, .n)
  else if d / 1000 ≤ maxValue then some (d / 1000, .u)
  else if d / 1000000 ≤ maxValue then some (d / 1000000, .m)
  else if d / 1000000000 ≤ maxValue then some (d / 1000000000, .S)
  else if d / 1000000000 / 60 ≤ maxValue then some (d / 1000000000 / 60, .M)
  else if d / 1000000000 / 60 / 60 ≤ maxValue then some (d / 1000000000 / 60 / 60, .H)
  else none

def render (vu : Nat × U) : Bytes := decimal vu.1 ++ [vu.2.byte]

def encode (d : Nat) : Option Bytes := (encodeVU d).map render

/-- The integer parse the code performs on the value part (after the `fix:` commit that
requires ASCII digits; Rust's `u64::from_str` alone would also accept a leading `+`). -/
def parseValue (ds : Bytes) : Option Nat :=
  if ds.isEmpty then none
  else if ds.all Ascii.isDigit then some (digitsVal ds) else none

/-- `try_parse_grpc_timeout` applied to the header value's bytes; `none` is the `Err(val)`
branch, which `GrpcTimeout::call` turns into "no client timeout". -/
def tryParse (v : Bytes) : Option Nat :=
  if !v.all Ascii.isVisible then none
  else
    match v.reverse with
    | [] => none
    | ub :: rds =>
      let ds := rds.reverse
      if ds.length > 8 then none
      else
        match parseValue ds with
        | none => none
        | some x =>
          match U.ofByte ub with
          | none => none
          | some un => some (x * un.nanos)

/-- The min rule of `GrpcTimeout::call`. -/
def effective (client server : Option Nat) : Option Nat :=
  match client, server with
  | none, none => none
  | some c, none => some c
  | none, some s => some s
  | some c, some s => some (min c s)

inductive Outcome | inner | timeout | pending
deriving DecidableEq, Repr

/-- One `ResponseFuture::poll` at virtual time `t` after the call: the inner future (which
completes at `latency`) is polled first, then the sleep (which fires at `T`). -/
def pollAt (latency : Nat) (T : Option Nat) (t : Nat) : Outcome :=
  if latency ≤ t then .inner
  else match T with
    | some tt => if tt ≤ t then .timeout else .pending
    | none => .pending

/-- The future is woken at the earlier of the two deadlines; its result is that poll. -/
def run (latency : Nat) (T : Option Nat) : Outcome :=
  match T with
  | none => pollAt latency T latency
  | some tt => pollAt latency T (min latency tt)

/-! ### Two-sided composition: which side enforces the deadline

A call crosses two `GrpcTimeout` middlewares: the client stack
(`transport/channel/service/connection.rs`: `GrpcTimeout::new(s, endpoint.timeout)`, installed
unconditionally, reading the caller's `grpc-timeout` request header) and — when the peer is
tonic's `transport::Server` — the server stack (`transport/server/mod.rs`:
`GrpcTimeout::new(s, timeout)` under `RecoverError`).  Each side runs its own timer; the client
must not rely on the peer honouring the header.  Times are virtual nanoseconds after the call
started; the wire itself takes no time. -/

/-- How a (response) future ends and when. -/
inductive Done
  | inner (t : Nat)     -- the wrapped future's own result, at `t`
  | timeout (t : Nat)   -- CANCELLED "Timeout expired", produced at `t`
  | pending             -- never resolves
deriving DecidableEq, Repr

/-- `ResponseFuture::poll` with `sleep = T.map(tokio::time::sleep)` around a future that resolves
as `below`: the wrapped future is polled first, so it wins a tie; whatever it resolves to (also an
error status that came from further down) passes through unchanged if it is there in time. -/
def cutAt (T : Option Nat) (below : Done) : Done :=
  match T, below with
  | none, b => b
  | some tt, .pending => .timeout tt
  | some tt, .inner t => if tt < t then .timeout tt else .inner t
  | some tt, .timeout t => if tt < t then .timeout tt else .timeout t

/-- `GrpcTimeout::call`: the sleep is `effective header configured`. -/
def stage (header configured : Option Nat) (below : Done) : Done :=
  cutAt (effective header configured) below

/-- What a handler / silent backend does: answers after `some l`, or never. -/
def answer (latency : Option Nat) : Done :=
  match latency with
  | some l => .inner l
  | none => .pending

/-- What the peer puts on the wire, as seen by the client: the response head (HEADERS frame) at
`head`, the end of the response (trailers / END_STREAM) at `done`; `none` = never.
`cancelled`: the response is the trailers-only CANCELLED "Timeout expired" that a
deadline-enforcing server produces (`RecoverError`). -/
structure Reply where
  cancelled : Bool
  head : Option Nat
  done : Option Nat
deriving DecidableEq, Repr

/-- What the client stack's wrapped future (`SendRequest::send_request`) resolves to: it
resolves when the response head arrives. -/
def Reply.headDone (r : Reply) : Done :=
  match r.head with
  | none => .pending
  | some h => if r.cancelled then .timeout h else .inner h

/-- A unary call through the client stack (`Channel` → `GrpcTimeout` → connection), as
`client::Grpc::unary` reports it.  The middleware's timer covers the response future only,
i.e. up to the response head; the body is then read with no timer. -/
def clientCall (caller endpoint : Option Nat) (r : Reply) : Done :=
  match stage caller endpoint r.headDone with
  | .inner _ =>
    match r.done with
    | some l => .inner l
    | none => .pending
  | d => d

/-- A peer that does not enforce deadlines and sends its whole response (head, message,
trailers) at once after `latency` (or never): a hung backend, a black-holing proxy, a plain
h2 server, tonic `Routes` served without `transport::Server`'s timeout layer. -/
def plainPeer (latency : Option Nat) : Reply := ⟨false, latency, latency⟩

/-- A peer that sends the response head at once and finishes the body after `latency` (or never). -/
def stallPeer (latency : Option Nat) : Reply := ⟨false, some 0, latency⟩

/-- tonic's `transport::Server` (with `Server::timeout = configured`) around a unary handler
that answers after `handler`: the response head is written when the handler's future (or the
timer) resolves. -/
def serverStack (header configured : Option Nat) (handler : Option Nat) : Done :=
  stage header configured (answer handler)

def tonicPeer (header configured : Option Nat) (handler : Option Nat) : Reply :=
  match serverStack header configured handler with
  | .inner t => ⟨false, some t, some t⟩
  | .timeout t => ⟨true, some t, some t⟩
  | .pending => ⟨false, none, none⟩

/-- Client stack, then server stack: the caller's timeout is enforced on both sides. -/
def endToEnd (caller server endpoint : Option Nat) (handler : Option Nat) : Done :=
  clientCall caller endpoint (tonicPeer caller server handler)

/-! ### A caller that polls late

`GrpcTimeout::call` creates the `Sleep` (`timeout_duration.map(tokio::time::sleep)`), and a tokio
`Sleep` fixes its deadline when it is CREATED: the timer runs from dispatch (time 0 here), whether
or not anybody polls the response future.  A caller that holds the future (tower `Service` API:
`poll_ready`, `call`, then something else for a while) and first polls it at time `b` therefore
finds, in the order `ResponseFuture::poll` looks: the wrapped future's result if it is there by
`b` (the wrapped future — hyper's `send_request` receiver, a `Sleep` — makes progress without
being polled), else the elapsed timer, else both pending, and from then on the race goes as for a
prompt caller. -/

/-- The wrapped future's result is there at time `b`. -/
def Done.readyBy : Done → Nat → Bool
  | .inner t, b => decide (t ≤ b)
  | .timeout t, b => decide (t ≤ b)
  | .pending, _ => false

/-- A result that was there already, picked up at `b`. -/
def Done.pickedUpAt : Done → Nat → Done
  | .inner _, b => .inner b
  | .timeout _, b => .timeout b
  | .pending, _ => .pending

/-- `ResponseFuture` created at time 0 with `sleep = T.map(tokio::time::sleep)` around a future
that resolves as `below`, FIRST polled at time `b` (and whenever woken after that). -/
def lateCut (T : Option Nat) (below : Done) (b : Nat) : Done :=
  if below.readyBy b then below.pickedUpAt b          -- `this.inner.poll(cx)` comes first
  else
    match T with
    | none => below
    | some tt =>
      if tt ≤ b then .timeout b                        -- the sleep was created at dispatch: elapsed
      else cutAt T below                               -- both pending: woken at the earlier one

/-- `GrpcTimeout::call` at time 0, the returned future first polled at `b`. -/
def lateStage (header configured : Option Nat) (below : Done) (b : Nat) : Done :=
  lateCut (effective header configured) below b

/-- The middleware alone around something that answers after `latency` (or never), the caller
polling from `b` on. -/
def latePoll (T : Option Nat) (latency : Option Nat) (b : Nat) : Done :=
  lateCut T (answer latency) b

/-- A call through the client stack whose response future (`Channel::call`: the buffer's worker
runs `GrpcTimeout::call` and sends the request at once) is first polled at `b`; once the head is
in hand the rest of the reply is read with no timer, as in `clientCall`. -/
def clientCallLate (caller endpoint : Option Nat) (r : Reply) (b : Nat) : Done :=
  match lateStage caller endpoint r.headDone b with
  | .inner t =>
    match r.done with
    | some l => .inner (max t l)
    | none => .pending
  | d => d

/-- tonic on both ends, the caller polling from `b` on (the server's timer does not depend on
the caller at all). -/
def endToEndLate (caller server endpoint : Option Nat) (handler : Option Nat) (b : Nat) : Done :=
  clientCallLate caller endpoint (tonicPeer caller server handler) b

/-- NOT the code: a `ResponseFuture` that creates its `Sleep` the first time the wrapped future
returns `Pending` (so the deadline counts from the caller's first poll).  Kept to show that the
spec tells the two apart (`C09_timer_from_first_poll_fails`). -/
def lateCutLazy (T : Option Nat) (below : Done) (b : Nat) : Done :=
  if below.readyBy b then below.pickedUpAt b
  else
    match T with
    | none => below
    | some tt => cutAt (some (b + tt)) below

/-! ### Several calls through ONE middleware

`GrpcTimeout { inner, server_timeout }` is a value that lives as long as the stack it is part of:
on the client ONE instance sits in the `Channel`'s `Buffer` worker
(`channel/service/connection.rs`: `GrpcTimeout::new(s, endpoint.timeout)` above `Reconnect`) and
serves every call of every clone of that `Channel`; on the server one instance is built per
connection (`server/mod.rs`, `MakeSvc::call`) and hyper-util's `TowerToHyperService::call` runs
every request on a CLONE of it (`self.service.clone()` then `oneshot`).  `Service::call` takes
`&mut self`, so the middleware COULD carry something from one call to the next; the code reads
`self.server_timeout` and this request's header and writes nothing.  That is made explicit here: a
call is a state transition whose new state is the old one. -/

/-- The mutable part of `GrpcTimeout`: its `server_timeout` field (the configured timeout). -/
structure Mw where
  configured : Option Nat
deriving DecidableEq, Repr

/-- `GrpcTimeout::call(&mut self, req)`: (the middleware afterwards, `timeout_duration`).  The
four-arm `match (client_timeout, self.server_timeout)` only reads. -/
def Mw.call (m : Mw) (header : Option Nat) : Mw × Option Nat :=
  (m, effective header m.configured)

/-- NOT the code (what seed C09e turns it into): without a configured timeout the first header
seen is WRITTEN into the middleware (`*self.server_timeout.get_or_insert(header)`) and from then
on acts as a configured timeout.  Every single call still gets the right duration
(`C09_sticky_single_call_agrees`). -/
def Mw.callSticky (m : Mw) (header : Option Nat) : Mw × Option Nat :=
  match header with
  | some h =>
    let c := m.configured.getD h
    (⟨some c⟩, some (min h c))
  | none => (m, m.configured)

/-- A call through the client stack once `GrpcTimeout::call` has chosen the sleep `T`
(`clientCall` = this at `T = effective caller endpoint`). -/
def clientCallWith (T : Option Nat) (r : Reply) : Done :=
  match cutAt T r.headDone with
  | .inner _ =>
    match r.done with
    | some l => .inner l
    | none => .pending
  | d => d

/-- Calls dispatched one after the other (in list order — for overlapping calls: the order in which
the `Buffer` worker hands them to `GrpcTimeout::call`) through ONE middleware whose `call` is
`call`; each call's header and how its wrapped future resolves, times relative to that call's
dispatch.  The state is threaded from call to call. -/
def mwCallsBy (call : Mw → Option Nat → Mw × Option Nat) (m : Mw) :
    List (Option Nat × Done) → List Done
  | [] => []
  | (h, below) :: rest =>
    let s := call m h
    cutAt s.2 below :: mwCallsBy call s.1 rest

/-- The same through the client stack of one `Channel` (built with `Endpoint::timeout =
m.configured`): caller's header and the peer's reply, per call. -/
def channelCallsBy (call : Mw → Option Nat → Mw × Option Nat) (m : Mw) :
    List (Option Nat × Reply) → List Done
  | [] => []
  | (h, r) :: rest =>
    let s := call m h
    clientCallWith s.2 r :: channelCallsBy call s.1 rest

/-- Requests on ONE connection of `transport::Server` (built with `Server::timeout =
m.configured`): each request runs on a clone of the connection's stack, and the clone — with
whatever `call` left in it — is dropped when the request is done. -/
def connCallsBy (call : Mw → Option Nat → Mw × Option Nat) (m : Mw)
    (reqs : List (Option Nat × Option Nat)) : List Done :=
  reqs.map fun q => cutAt (call m q.1).2 (answer q.2)

/-- The code. -/
def mwCalls (m : Mw) := mwCallsBy Mw.call m
def channelCalls (m : Mw) := channelCallsBy Mw.call m
def connCalls (m : Mw) := connCallsBy Mw.call m

/-! ### What travels: `Request::set_timeout`, the header map, the builders -/

/-- `status.rs`: `TimeoutExpired` is mapped to `Status::cancelled(timeout.to_string())`, and
`Display for TimeoutExpired` writes "Timeout expired".  (code, message) -/
def expiredStatus : Nat × Bytes :=
  (1, [84, 105, 109, 101, 111, 117, 116, 32, 101, 120, 112, 105, 114, 101, 100])

/-- `Request::set_timeout`: `metadata.insert(grpc-timeout, value)` — replaces every value that
was there.  The header's value list; `none` = the encoder's `expect` panicked. -/
def setTimeout (hdr : Option (List Bytes)) (d : Nat) : Option (List Bytes) :=
  match hdr, encode d with
  | some _, some v => some [v]
  | _, _ => none

def setTimeouts (ds : List Nat) : Option (List Bytes) := ds.foldl setTimeout (some [])

/-- `GrpcTimeout::call`: `headers.get(grpc-timeout)` is the FIRST value of the header;
`try_parse_grpc_timeout(..).unwrap_or_else(|_| None)`: a rejected value counts as absent. -/
def headerTimeout (vals : List Bytes) : Option Nat :=
  match vals with
  | [] => none
  | v :: _ => tryParse v

/-- What `Request::set_timeout d` puts on the wire, as the duration the receiving
`GrpcTimeout` reads back from the header. -/
def wire (d : Nat) : Option Nat :=
  match setTimeouts [d] with
  | some vals => headerTimeout vals
  | none => none

/-- Builder calls (`transport::Server` and `Endpoint` have the same shape): `.timeout(t)` sets
the field; `Endpoint::connect_timeout` sets a different field; `Server::layer` rebuilds the
struct field by field (`timeout: self.timeout`); every other method touches other fields. -/
inductive BOp
  | timeout (t : Nat)
  | connectTimeout (t : Nat)
  | layer
  | other
deriving DecidableEq, Repr

structure Builder where
  timeout : Option Nat
  connectTimeout : Option Nat
  layers : Nat
  others : Nat
deriving DecidableEq, Repr

def Builder.new : Builder := ⟨none, none, 0, 0⟩

def Builder.apply (b : Builder) : BOp → Builder
  | .timeout t => { b with timeout := some t }
  | .connectTimeout t => { b with connectTimeout := some t }
  | .layer => ⟨b.timeout, b.connectTimeout, b.layers + 1, b.others⟩
  | .other => { b with others := b.others + 1 }

/-- The timeout handed to `GrpcTimeout::new` when the stack is built. -/
def configured (ops : List BOp) : Option Nat := (ops.foldl Builder.apply Builder.new).timeout

end Timeout

/-! ## Audit aC09 (appended): dimensions that must be invisible, stated explicitly

* what the call itself reports (an error status of the handler's own is "its result" as much as OK);
* several CONNECTIONS of one `transport::Server` (`MakeSvc::call(&mut self, io)` runs per accepted
  connection and copies `self.timeout`);
* a response future that changes hands (polled by one task, then moved to and awaited by another):
  `ResponseFuture::poll` polls the `Sleep` on every poll, and `Sleep::poll` keeps the waker of the
  LAST poller. -/
namespace Timeout

/-- What the caller has in hand at the end: `(code, message, time)`, or nothing. `own` is the
status the handler / peer itself reports (code 0 = OK, or an error status of its own): the
middleware hands the wrapped future's output on as it is (`ready.map_err(Into::into)`;
`RecoverError`: `Ok(response) => response.map(ResponseBody::full)`), only its own `TimeoutExpired`
becomes `expiredStatus`. -/
def seen (own : Nat × Bytes) : Done → Option (Nat × Bytes × Nat)
  | .inner t => some (own.1, own.2, t)
  | .timeout t => some (expiredStatus.1, expiredStatus.2, t)
  | .pending => none

/-- `MakeSvc { timeout, .. }`: the value `serve_internal` builds once per server; its
`call(&mut self, io)` runs once per accepted connection. -/
structure Srv where
  timeout : Option Nat
deriving DecidableEq, Repr

/-- `MakeSvc::call(&mut self, io)`: `let timeout = self.timeout;` (`Option<Duration>` is `Copy`) then
`GrpcTimeout::new(s, timeout)`: (the `MakeSvc` afterwards, the new connection's middleware). -/
def Srv.accept (s : Srv) : Srv × Mw := (s, ⟨s.timeout⟩)

/-- NOT the code: `self.timeout.take()` — `call` takes `&mut self`, so it could move the value out:
the first connection accepted gets the timeout, every later one none. -/
def Srv.acceptTake (s : Srv) : Srv × Mw := (⟨none⟩, ⟨s.timeout⟩)

/-- Connections in the order they are accepted, each with its requests (header, handler latency);
the `MakeSvc` is threaded from accept to accept, each connection's requests run as `connCalls`. -/
def serverConnsBy (accept : Srv → Srv × Mw) (s : Srv) :
    List (List (Option Nat × Option Nat)) → List (List Done)
  | [] => []
  | reqs :: rest =>
    let a := accept s
    connCalls a.2 reqs :: serverConnsBy accept a.1 rest

/-- The code. -/
def serverConns (s : Srv) := serverConnsBy Srv.accept s

/-- A `ResponseFuture` (created at time 0, sleep `T`, around something that answers after `l` or
never) that was polled by one task while both were pending, then handed to ANOTHER task which first
polls it at `p` and from then on whenever IT is woken.  `rearm = true` is the code: every poll
polls the `Sleep` too (after the wrapped future), so the `Sleep` wakes the task that polled last.
`rearm = false` is NOT the code: the `Sleep`'s waker is registered by the first poll only (and
afterwards only `is_elapsed()` is looked at), so the new owner is woken by the wrapped future
alone — which is polled first and therefore wins once it is there. -/
def handoverBy (rearm : Bool) (T : Option Nat) (l : Option Nat) (p : Nat) : Done :=
  let below := answer l
  if below.readyBy p then below.pickedUpAt p
  else
    match T with
    | none => below
    | some tt =>
      if tt ≤ p then .timeout p
      else if rearm then cutAt T below
      else below

end Timeout
