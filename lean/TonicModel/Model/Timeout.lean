import TonicModel.Basic.Bytes
/-
Model of tonic's deadline handling (C09):
  * `request.rs::duration_to_grpc_timeout`           → `encodeVU` / `encode`
  * `grpc_timeout.rs::try_parse_grpc_timeout`        → `tryParse`
  * `GrpcTimeout::call` (min rule)                   → `effective`
  * `grpc_timeout.rs::ResponseFuture::poll`          → `pollAt` / `run`
Durations are total nanoseconds in `Nat` (Rust: `Duration`, u64 secs + u32 nanos).
-/
namespace Timeout

inductive U | n | u | m | S | M | H
deriving DecidableEq, Repr

def U.byte : U → UInt8
  | .n => 110 | .u => 117 | .m => 109 | .S => 83 | .M => 77 | .H => 72

def U.nanos : U → Nat
  | .n => 1 | .u => 1000 | .m => 1000000 | .S => 1000000000
  | .M => 60000000000 | .H => 3600000000000

def U.ofByte (b : UInt8) : Option U :=
  if b = 72 then some .H else if b = 77 then some .M else if b = 83 then some .S
  else if b = 109 then some .m else if b = 117 then some .u else if b = 110 then some .n
  else none

def maxValue : Nat := 99999999

/-- `duration_to_grpc_timeout`: first unit (most precise first) whose truncated value has at
most 8 digits.  `none` is the `expect("duration is unrealistically large")` panic. -/
def encodeVU (d : Nat) : Option (Nat × U) :=
  if d ≤ maxValue then some (d, .n)
  else if d / 1000 ≤ maxValue then some (d / 1000, .u)
  else if d / 1000000 ≤ maxValue then some (d / 1000000, .m)
  else if d / 1000000000 ≤ maxValue then some (d / 1000000000, .S)
  else if d / 1000000000 / 60 ≤ maxValue then some (d / 1000000000 / 60, .M)
  else if d / 1000000000 / 60 / 60 ≤ maxValue then some (d / 1000000000 / 60 / 60, .H)
  else none

def render (vu : Nat × U) : Bytes := decimal vu.1 ++ [vu.2.byte]

def encode (d : Nat) : Option Bytes := (encodeVU d).map render

/-- The integer parse the code performs on the value part (after the `fix:` commit that
requires ASCII digits; Rust's `u64::from_str` alone would also accept a leading `+`). -/
def parseValue (ds : Bytes) : Option Nat :=
  if ds.isEmpty then none
  else if ds.all Ascii.isDigit then some (digitsVal ds) else none

/-- `try_parse_grpc_timeout` applied to the header value's bytes; `none` is the `Err(val)`
branch, which `GrpcTimeout::call` turns into "no client timeout". -/
def tryParse (v : Bytes) : Option Nat :=
  if !v.all Ascii.isVisible then none
  else
    match v.reverse with
    | [] => none
    | ub :: rds =>
      let ds := rds.reverse
      if ds.length > 8 then none
      else
        match parseValue ds with
        | none => none
        | some x =>
          match U.ofByte ub with
          | none => none
          | some un => some (x * un.nanos)

/-- The min rule of `GrpcTimeout::call`. -/
def effective (client server : Option Nat) : Option Nat :=
  match client, server with
  | none, none => none
  | some c, none => some c
  | none, some s => some s
  | some c, some s => some (min c s)

inductive Outcome | inner | timeout | pending
deriving DecidableEq, Repr

/-- One `ResponseFuture::poll` at virtual time `t` after the call: the inner future (which
completes at `latency`) is polled first, then the sleep (which fires at `T`). -/
def pollAt (latency : Nat) (T : Option Nat) (t : Nat) : Outcome :=
  if latency ≤ t then .inner
  else match T with
    | some tt => if tt ≤ t then .timeout else .pending
    | none => .pending

/-- The future is woken at the earlier of the two deadlines; its result is that poll. -/
def run (latency : Nat) (T : Option Nat) : Outcome :=
  match T with
  | none => pollAt latency T latency
  | some tt => pollAt latency T (min latency tt)

end Timeout
