import TonicModel.Basic.Utf8
import TonicModel.Basic.MetaOps
import TonicModel.Model.Metadata
/-
Model of the rest of the typed metadata API and of two places where a status' metadata changes
hands (C08):
  * every constructor of `MetadataKey<VE>` (`key.rs`) and `MetadataValue<VE>` (`value.rs`,
    `encoding.rs`: `from_bytes`, `from_shared`, `from_static`), `to_str`, the comparisons
    `PartialEq<str | [u8]>` (`VE::equals`) and `Hash`;
  * `Status::from_error` / `try_from_error` / `find_status_in_source_chain` (`status.rs`) on an
    error whose `source()` chain ends in a `Status`;
  * `client::Grpc::client_streaming` (`client/grpc.rs`): the response headers merged over the
    metadata of an error status.
-/
namespace Metadata
open Status (Variant St Code)

/-! ### keys -/

/-- `HeaderName::from_static`: accepts the names that are already in stored form (table
`HEADER_CHARS_H2`: no upper case; see `MetaOps.staticNameChar`); `none` = panic -/
def nameFromStatic (src : Bytes) : Option Bytes :=
  if MetaOps.staticName src then some src else none

/-- `MetadataKey::<VE>::from_static`; `none` = panic -/
def keyFromStatic (v : Variant) (enc : Enc) (src : Bytes) : Option Bytes :=
  match nameFromStatic src with
  | none => none
  | some n => if validKey v enc n then some n else none

/-- `impl FromStr for MetadataKey<VE>` (`"…".parse()`) -/
def keyFromStr (v : Variant) (enc : Enc) (src : Bytes) : Option Bytes := keyFromBytes v enc src

/-! ### values -/

/-- the constructors of `MetadataValue<VE>` -/
inductive Ctor
  | slice        -- `TryFrom<&[u8]>`  (`VE::from_bytes`)
  | vec          -- `TryFrom<Vec<u8>>` (delegates to the slice form)
  | shared       -- `TryFrom<Bytes>`  (`VE::from_shared`)
  | fromBytes    -- `MetadataValue::<Binary>::from_bytes` (Binary only)
  | str          -- `TryFrom<&str>`, `TryFrom<String>`, `TryFrom<&String>`, `FromStr` (Ascii only;
                 --  all four are `s.parse()` = `HeaderValue::from_str`)
  | fromStatic   -- `MetadataValue::<VE>::from_static` (`VE::from_static`)
deriving DecidableEq, Repr

inductive Built
  | ok (w : Bytes)
  | err
  | panic
deriving DecidableEq, Repr

/-- the stored bytes a constructor produces from `src` -/
def construct (enc : Enc) (c : Ctor) (src : Bytes) : Built :=
  match enc, c with
  | .ascii, .fromStatic => if src.all Ascii.isVisible then .ok src else .panic   -- `HeaderValue::from_static`
  | .ascii, _ => if HMap.legalValue src then .ok src else .err
  | .binary, .fromStatic =>
    -- "Invalid base64 passed to from_static"; a valid text is stored as it is (padded or not)
    match B64.decode src with
    | some _ => .ok src
    | none => .panic
  | .binary, _ => .ok (B64.encode false src)

/-- `MetadataValue::<Ascii>::to_str` -/
def toStr (w : Bytes) : Option Bytes := if w.all Ascii.isVisible then some w else none

/-- `VE::equals(a, b: &[u8])`: `PartialEq<str>`, `PartialEq<[u8]>`, `PartialEq<String>` of a value -/
def equalsBytes (enc : Enc) (w other : Bytes) : Bool :=
  match enc with
  | .ascii => w == other
  | .binary =>
    match B64.decode w with
    | some d => d == other
    | none => w == other

/-- what `Hash` feeds the hasher: two values hash alike iff these agree -/
def hashKey (enc : Enc) (w : Bytes) : Option Bytes :=
  match enc with
  | .ascii => some w
  | .binary => B64.decode w      -- `Err(e) => e.hash(state)`: all undecodable values hash alike

/-! ### a status found in an error's source chain -/

/-- an error as `Status::from_error` sees it: a `Status`, some other error with a `source()`,
or some other error without one; `display` = its `to_string()` -/
inductive ErrChain
  | status (st : St)
  | wrap (display : Bytes) (source : ErrChain)
  | leaf (display : Bytes)
deriving Repr

def ErrChain.display : ErrChain → Bytes
  | .status st => st.message
  | .wrap d _ => d
  | .leaf d => d

/-- `find_status_in_source_chain`: walk `source()`; a `Status` is rebuilt field by field
(`code`, `message`, `details`, `metadata` — only its own `source` is left behind).  (The other
recognised kinds — `TimeoutExpired`, `ConnectError`, `hyper::Error` — are crate-private or not
constructible from outside and are not part of this model.) -/
def findStatus : ErrChain → Option St
  | .status st => some { code := st.code, message := st.message, details := st.details, metadata := st.metadata }
  | .wrap _ src => findStatus src
  | .leaf _ => none

/-- `Status::try_from_error`: `err.downcast::<Status>()` first, then the chain -/
def tryFromError (e : ErrChain) : Option St :=
  match e with
  | .status st => some st
  | e => findStatus e

/-- `Status::from_error` -/
def fromErrorChain (e : ErrChain) : St :=
  match tryFromError e with
  | some st => st
  | none => { code := .unknown, message := e.display, details := [], metadata := [] }

/-- `n` wrappers around an error -/
def wrapN : List Bytes → ErrChain → ErrChain
  | [], e => e
  | d :: ds, e => .wrap d (wrapN ds e)

/-- `RecoverError`: the inner service failed with `e`; `Some(headers)` = the trailers-only
response `Status::into_http` builds, `none` = the error is passed on -/
def recoverError (v : Variant) (e : ErrChain) : Option (Except St HMap) :=
  (tryFromError e).map (errorResponseWire v)

/-! ### unary / client-streaming client, error after response headers -/

/-- `client_streaming`: `body.try_next().await.map_err(|mut status| { status.metadata_mut().merge(parts.clone()); status })`
— `merge` is `HeaderMap::extend`: every name of the response headers *replaces* that name in the
status' metadata -/
def clientUnaryErrorMetadata (respmd stmd : HMap) : HMap := HMap.extend stmd (responseWire respmd)

/-! ### dimension audit additions (aC08) -/

/-- `client_streaming`, success path: `if let Some(trailers) = body.trailers().await? { parts.merge(trailers) }`
— `merge` is `HeaderMap::extend`: every name of the trailers *replaces* that name in the response
headers.  (`clientUnaryMetadata respmd` is the case `trailers = okTrailers`.)  A tonic handler
produces such trailers by ending its response stream with `Err(Status::ok(..))` carrying metadata;
other gRPC servers have an API for it. -/
def clientUnaryOkMetadata (respmd trailers : HMap) : HMap := HMap.extend (responseWire respmd) trailers

/-- `Request::set_timeout`: `self.metadata_mut().insert("grpc-timeout", value)` -/
def setTimeout (value : Bytes) (md : HMap) : HMap := HMap.insert (HMap.name "grpc-timeout") value md

/-- `MetadataMap::merge` (crate-private; `HeaderMap::extend`): used for response headers + OK
trailers, status metadata + response headers, request headers + request trailers -/
def merge (into other : HMap) : HMap := HMap.extend into other

end Metadata
