import TonicModel.Model.WebServer
/-
Model of the parts of the grpc-web server layer that the dimension audit (aC16) added to the tie:

* the HINTS of the translated bodies — `GrpcWebCall::{size_hint, is_end_stream}` (tonic-web/src/call.rs) under
  `tonic::body::Body::new` (tonic/src/body.rs)                                   → `callHint`, `bodyNew`, `bodyNewRun`
* the moments at which a consumer reads them (before it asks for each frame)     → `respStates`, `reqStates`
* the response HEAD `coerce_response` hands back (status, version, extensions)  → `RespHead`, `coerceResponseHead`
-/
namespace WebServer
open TMap (Pair str)

/-- What a body says about itself between two polls: `size_hint()` — bounds on the DATA bytes still to
come — and `is_end_stream()`. -/
structure Hint where
  lo : Nat
  hi : Option Nat
  eos : Bool
  deriving DecidableEq, Repr

inductive Dir where
  | decode   -- request body (`GrpcWebCall::request`)
  | encode   -- response body (`GrpcWebCall::response`)
  deriving DecidableEq, Repr

/-- `GrpcWebCall::{size_hint, is_end_stream}` AS FOUND: both forwarded from the inner body in every direction. -/
def callHintAsFound (_ : Dir) (_ : Enc) (inner : Hint) : Hint := inner

/-- `GrpcWebCall::{size_hint, is_end_stream}` of the server-side bodies (`client = false`) after the fix: the inner
body's size only where the data passes through as it is (binary request); an encoded body keeps the lower bound
(base64 and the trailers frame only add bytes); a base64-decoded one says nothing.  `is_end_stream` is forwarded. -/
def callHint (d : Dir) (e : Enc) (inner : Hint) : Hint :=
  match d, e with
  | .decode, .none => inner
  | .encode, _ => { lo := inner.lo, hi := none, eos := inner.eos }
  | .decode, .base64 => { lo := 0, hi := none, eos := inner.eos }

/-- `Body::empty()`: exact size 0, at end of stream. -/
def emptyHint : Hint := { lo := 0, hi := some 0, eos := true }

/-- `Body::new(b)`: `Body::empty()` when `b.is_end_stream()` at the moment it is wrapped (`first`), else a box that
forwards both hints. -/
def bodyNew (first now : Hint) : Hint := if first.eos then emptyHint else now

/-- … and what a consumer gets from it: nothing if it was taken for empty, else the body's frames. -/
def bodyNewRun (first : Hint) (run : List Out) : List Out := if first.eos then [.eos] else run

/-- total number of data bytes of an output sequence -/
def dataLen (o : List Out) : Nat := (dataOf o).length

/-- The remaining events of the inner body at the moments the consumer asks for the frames of `respRun` /
`reqBin` (one output per inner frame), the terminal one included.  `cur` is the state when the consumer asked;
polls that only meet `pending` do not end the consumer's wait. -/
def frameStatesAux (cur : List BodyEv) : List BodyEv → List (List BodyEv)
  | [] => [cur]
  | .data _ :: r => cur :: frameStatesAux r r
  | .trailers _ :: r => cur :: frameStatesAux r r
  | .err :: _ => [cur]
  | .pending :: r => frameStatesAux cur r

def frameStates (evs : List BodyEv) : List (List BodyEv) := frameStatesAux evs evs

/-- The same for `reqText`, which may take several inner frames for one output. -/
def textStatesAux (cur : List BodyEv) (buf : Bytes) : List BodyEv → List (List BodyEv)
  | [] => [cur]
  | .data b :: r =>
    let buf' := buf ++ b
    if buf'.length < 4 then textStatesAux cur buf' r
    else
      match B64.decode (buf'.take (maxDecodable buf')) with
      | none => [cur]
      | some _ => cur :: textStatesAux r (buf'.drop (maxDecodable buf')) r
  | .trailers _ :: _ => [cur]
  | .err :: _ => [cur]
  | .pending :: r => textStatesAux cur buf r

def reqStates (enc : Enc) (evs : List BodyEv) : List (List BodyEv) :=
  match enc with
  | .base64 => textStatesAux evs [] evs
  | .none => frameStates evs

/-- The hints a consumer reads from `Body::new(GrpcWebCall::response(b, enc))` before each frame, given what the
inner body `b` says in each of its states (`ih`). -/
def respHints (ih : List BodyEv → Hint) (enc : Enc) (evs : List BodyEv) : List Hint :=
  if (callHint .encode enc (ih evs)).eos then [emptyHint]
  else (frameStates evs).map (fun s => callHint .encode enc (ih s))

/-- … and from `Body::new(GrpcWebCall::request(b, enc))`, which the inner service is handed. -/
def reqHints (ih : List BodyEv → Hint) (enc : Enc) (evs : List BodyEv) : List Hint :=
  if (callHint .decode enc (ih evs)).eos then [emptyHint]
  else (reqStates enc evs).map (fun s => callHint .decode enc (ih s))

/-! ### the response head -/

/-- `http::response::Parts` as far as anything can observe them. -/
structure RespHead where
  status : Nat
  version : Ver
  ext : Bool
  headers : List Pair
  deriving DecidableEq, Repr

/-- `coerce_response` on the head: `Response::map` keeps the parts, then `content-type` is inserted. -/
def coerceResponseHead (a : Enc) (h : RespHead) : RespHead := { h with headers := coerceResponse a h.headers }

end WebServer
