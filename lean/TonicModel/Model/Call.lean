import TonicModel.Model.Framing
import TonicModel.Model.Status
import TonicModel.Model.Metadata
/-
End-to-end model of one gRPC call through tonic (C02), as a COMPOSITION of the models that
already exist — nothing of them is re-modelled here:

  client  `client::Grpc::{unary, client_streaming, server_streaming, streaming}`  (client/grpc.rs)
            request.into_http + prepare_request      → `Metadata.requestWire`
            EncodeBody::new_client over the messages → `Framing.Enc.run` (client role)
  transport (request)   — the RELATION `ReqTransports`: headers intact, body bytes re-chunked
  server  `server::Grpc::{unary, client_streaming, server_streaming, streaming}`  (server/grpc.rs)
            request_encoding_if_supported            → `encodingCheck`
            map_request_unary / map_request_streaming over `Streaming::new_request`
                                                     → `Framing.Dec.pollNext` (request direction)
            the handler: a SCRIPT (`Script`)
            map_response / `Status::into_http`       → `Metadata.responseWire` / `Status.addHeader`
            EncodeBody::new_server                   → `Framing.Enc.run` (server role)
  transport (response)  — the RELATION `RespTransports`: status and headers intact, data bytes
            delivered as any re-chunking with any Pending pattern, the trailers after all data
  client  create_response (trailers-only detection, `new_empty` / `new_response`)
            `Streaming` with `Direction::Response`   → `Framing.Dec.pollNext` (response direction)
            `client_streaming`'s wrapper: first message, "Missing response message", trailer merge

The framing model keeps of a `Status` only a code and the site that produced it (`Framing.St`),
and of a trailers block only its `grpc-status` (`Framing.Tr`).  The encoder and the decoder pass
statuses and trailers through untouched, so the call model lets the framing model carry these
projections and puts the full value back where the framing model hands the projection out
(`trailersOfSt`, `respErr`): a body has exactly one trailers frame and a script at most one status,
so the projection identifies the value.  `Lemmas/CallEnd.lean` proves that the two views agree for
every trailers block and HTTP status (`inferStatus_agrees`, property theorem `C02_status_views_agree`).

Compression is off at both ends (what `server::Grpc::new` / `client::Grpc::new` give); the
`grpc-encoding` header is still examined, as the code does.  Follows the tree with the `fix:`
commits listed in known_findings.json (`Status.Variant.fixed`).
-/
namespace Call
open Framing

abbrev FSt := Status.St

/-! ### statuses tonic itself produces along the way -/

def ascii (s : String) : Bytes := HMap.name s

def mkSt (c : Status.Code) (msg : Bytes) : FSt := { code := c, message := msg, details := [], metadata := [] }

/-- `Status::internal("Missing request message.")` -/
def missingRequest : FSt := mkSt .internal (ascii "Missing request message.")
/-- `Status::internal("Missing response message.")` -/
def missingResponse : FSt := mkSt .internal (ascii "Missing response message.")

/-- the (prefix of the) message text of the statuses produced inside encode.rs / decode.rs, by
site.  `deMsg` is the text of the codec's own decode error (the codec is a parameter). -/
def clsText (deMsg : Bytes) : Cls → Bytes
  | .ok => []
  | .user => []
  | .tooLargeEnc => ascii "Error, encoded message length too large"
  | .over4G => ascii "Cannot return body with more than 4GB of data"
  | .encode => ascii "Error encoding: "
  | .badFlag => ascii "protocol error: received message with invalid compression flag"
  | .noEncoding => ascii "protocol error: received message with compressed-flag but no grpc-encoding was specified"
  | .tooLargeDec => ascii "Error, decoded message length too large"
  | .decompress => ascii "Error decompressing"
  | .codec => deMsg
  | .eof => ascii "Unexpected EOF decoding stream."
  | .http => ascii "grpc-status header missing, mapped from HTTP status code "

/-- the full status behind a framing-level status produced by tonic itself -/
def fullOf (deMsg : Bytes) (st : Framing.St) : FSt := mkSt (Status.Code.ofNum st.code) (clsText deMsg st.cls)

def GRPC_ENCODING : Bytes := HMap.name "grpc-encoding"
def GRPC_ACCEPT_ENCODING : Bytes := HMap.name "grpc-accept-encoding"
def IDENTITY : Bytes := HMap.name "identity"

/-- the `Err` of `CompressionEncoding::from_encoding_header` when nothing is enabled -/
def unsupportedEncoding (v : Bytes) : FSt :=
  { code := .unimplemented,
    message := ascii "Content is compressed with `" ++ v ++ ascii "` which isn't supported",
    details := [], metadata := [(GRPC_ACCEPT_ENCODING, IDENTITY)] }

/-- `CompressionEncoding::from_encoding_header(headers, none enabled)`: `none` = `Ok(None)` -/
def encodingCheck (h : HMap) : Option FSt :=
  match HMap.get GRPC_ENCODING h with
  | none => none
  | some v => if v = IDENTITY then none else some (unsupportedEncoding v)

/-! ### what the two sides of the application do -/

/-- A message source as a schedule: `some m` = `Ready(Some(m))`, `none` = `Pending`. -/
abbrev Sched (α : Type) := List (Option α)

def Sched.msgs (s : Sched α) : List α := s.filterMap id

/-- The caller: metadata and the request message stream (`[some m]` for the unary-request shapes). -/
structure CallReq (α : Type) where
  md : HMap
  msgs : Sched α

/-- The handler: either it returns `Err(early)`, or a `Response` with metadata `initMd` whose
message stream yields `body` (with its `Pending`s) and then ends, normally (`final = none`) or
with `Err(st)`.  A handler of a unary-response shape returns one message: `body = [some m]`,
`final = none`.  For streaming-request shapes it first calls `message()` at most `reads` times. -/
structure Script (α : Type) where
  early : Option FSt
  initMd : HMap
  body : Sched α
  final : Option FSt
  reads : Nat

/-- What the handler was given. -/
inductive Seen (α : Type)
  | notCalled
  | unary (md : HMap) (m : α)
  /-- metadata, the messages its `message()` calls returned, and how the reading ended:
  `none` = it stopped asking, `some none` = `Ok(None)`, `some (some st)` = `Err(st)` -/
  | stream (md : HMap) (msgs : List α) (ended : Option (Option FSt))
deriving Repr

/-! ### HTTP messages and the transport -/

/-- One poll of a server body, trailers in full. -/
inductive RFrame
  | data (b : Bytes)
  | trailers (h : HMap)
  | pending
  | none
deriving DecidableEq, Repr

structure HttpReq where
  headers : HMap
  body : List FrameOut        -- successive polls of the client's `EncodeBody`

structure HttpResp where
  status : Nat
  headers : HMap
  body : List RFrame          -- successive polls of the response body (`[]` = `Body::empty()`)
deriving Repr

def reqData (b : List FrameOut) : Bytes :=
  (b.map (fun | .data d => d | _ => [])).flatten

def reqFailed (b : List FrameOut) : Bool :=
  b.any (fun | .err _ => true | .trailers _ => true | _ => false)

def respData (b : List RFrame) : Bytes :=
  (b.map (fun | .data d => d | _ => [])).flatten

def respTrailers (b : List RFrame) : List HMap :=
  b.filterMap (fun | .trailers h => some h | _ => Option.none)

/-- What the receiving side's HTTP layer hands over: the body as a sequence of polls
(`some chunk` = a data frame, `none` = `Pending`), after which the body is over.  A request
carries no trailers. -/
structure ReqDelivery where
  headers : HMap
  chunks : List (Option Bytes)

/-- Likewise for a response; the trailers frame, if any, comes after all data — this ordering
is the stated assumption about hyper/h2 and is built into the type. -/
structure RespDelivery where
  status : Nat
  headers : HMap
  chunks : List (Option Bytes)
  trailers : Option HMap
deriving Repr

def chunkData (cs : List (Option Bytes)) : Bytes := (cs.filterMap id).flatten

/-- **Transport relation, request direction**: headers intact; the body bytes are those the
client's body produced, cut anywhere, with `Pending`s anywhere; the client's body did not fail. -/
def ReqTransports (sent : HttpReq) (got : ReqDelivery) : Prop :=
  got.headers = sent.headers ∧ chunkData got.chunks = reqData sent.body ∧ reqFailed sent.body = false

/-- **Transport relation, response direction**: status and headers intact; the data bytes are
those of the server body's data frames, cut anywhere, with `Pending`s anywhere; the trailers
frame the server body produced (at most one) is delivered intact, after the data. -/
def RespTransports (sent : HttpResp) (got : RespDelivery) : Prop :=
  got.status = sent.status ∧ got.headers = sent.headers ∧
  chunkData got.chunks = respData sent.body ∧ got.trailers = (respTrailers sent.body).head?

instance (sent : HttpReq) (got : ReqDelivery) : Decidable (ReqTransports sent got) := by
  unfold ReqTransports; exact inferInstance
instance (sent : HttpResp) (got : RespDelivery) : Decidable (RespTransports sent got) := by
  unfold RespTransports; exact inferInstance

/-! ### the framing layer as the call uses it -/

/-- Codec, the text of its decode error, the encoders' yield threshold, and the number of polls
after which a side gives up waiting (a hang; never reached when large enough). -/
structure Cfg (α : Type) where
  cd : Codec α
  deMsg : Bytes
  yieldThr : Nat
  fuel : Nat

def encCfg (c : Cfg α) (server : Bool) : EncCfg :=
  { comp := none, yieldThr := c.yieldThr, maxSize := none, server := server }

def srcOf (s : Sched α) : List (SrcEv α) := s.map (fun | some m => .item m | none => .pending)

/-- the `grpc-status` of a trailers block as the framing model sees it -/
def trOf (t : HMap) : Tr :=
  match Status.fromHeaderMap .fixed t with
  | some (.status st) => some st.code.num
  | _ => none

def chunkEvs (cs : List (Option Bytes)) : List BodyEv :=
  cs.map (fun | some c => .data c | none => .pending)

def reqEvs (d : ReqDelivery) : List BodyEv := chunkEvs d.chunks

def respEvs (d : RespDelivery) : List BodyEv :=
  chunkEvs d.chunks ++ (match d.trailers with | some t => [.trailers (trOf t)] | none => [])

/-- `stream.message().await` / `try_next().await`: poll until the stream is ready.
`.pending` as a result = still not ready after `fuel` polls. -/
def nextItem (cd : Codec α) (cfg : DecCfg) : Nat → DecSt → List BodyEv → DecSt × List BodyEv × Item α
  | 0, s, evs => (s, evs, .pending)
  | n + 1, s, evs =>
    match Dec.pollNext cd cfg s evs with
    | (s', evs', .pending) => nextItem cd cfg n s' evs'
    | r => r

/-- How a sequence of `message()` calls ended. -/
inductive Ended
  | open                     -- the caller stopped asking
  | done                     -- `Ok(None)`
  | err (st : Framing.St)    -- `Err(st)`
  | hang
deriving DecidableEq, Repr

/-- at most `k` calls of `message()`, stopping at the first `None` / `Err` -/
def readN (cd : Codec α) (cfg : DecCfg) (fuel : Nat) : Nat → DecSt → List BodyEv → List α × Ended × DecSt
  | 0, s, _ => ([], .open, s)
  | k + 1, s, evs =>
    match nextItem cd cfg fuel s evs with
    | (s', evs', .msg m) =>
      match readN cd cfg fuel k s' evs' with
      | (ms, e, s'') => (m :: ms, e, s'')
    | (s', _, .none) => ([], .done, s')
    | (s', _, .err st) => ([], .err st, s')
    | (s', _, .pending) => ([], .hang, s')

/-- `while stream.message().await?.is_some() {}` — as many calls as it takes; the number of
calls is bounded by the events plus the bytes still to be consumed, `fuel` stands for it -/
def drain (cd : Codec α) (cfg : DecCfg) (fuel : Nat) (s : DecSt) (evs : List BodyEv) : List α × Ended × DecSt :=
  readN cd cfg fuel fuel s evs

/-! ### client: sending -/

/-- `client::Grpc::streaming` up to `self.inner.call(request)`: `Request::into_http` with
`SanitizeHeaders::Yes`, `prepare_request`, and the body `EncodeBody::new_client(s.map(Ok))`
polled `npolls` times by the transport. -/
def clientRequest (c : Cfg α) (npolls : Nat) (r : CallReq α) : HttpReq :=
  { headers := Metadata.requestWire r.md,
    body := Enc.run c.cd (encCfg c false) npolls Enc.init (srcOf r.msgs) }

/-! ### server -/

def reqDecCfg : DecCfg := { enc := none, maxSize := none, dir := .request }

/-- `Status::into_http`: the trailers-only response -/
def statusIntoHttp (st : FSt) : HttpResp :=
  { status := 200,
    headers := match Metadata.errorResponseWire .fixed st with
      | .ok h => h
      | .error _ => [],           -- `unwrap()` of an `Err` that `add_header` never returns (C04_write_never_fails)
    body := [] }

/-- the `trailers` frame `EncodeBody` writes for the status the framing model shows as `st`:
`Status::ok("")`, the script's status handed through by `EncodedBytes`, or the status of a
failed `encode_item` -/
def trailersOfSt (c : Cfg α) (sc : Script α) (st : Framing.St) : HMap :=
  let full : FSt := match st.cls with
    | .ok => mkSt .ok []
    | .user => (sc.final.getD (mkSt .unknown []))
    | _ => fullOf c.deMsg st
  match Status.toHeaderMap .fixed full with
  | .ok h => h
  | .error _ => []

def decorate (c : Cfg α) (sc : Script α) : FrameOut → RFrame
  | .data b => .data b
  | .trailers st => .trailers (trailersOfSt c sc st)
  | .err st => .trailers (trailersOfSt c sc st)   -- not produced by a server-role body
  | .pending => .pending
  | .none => .none
  | .panic => .none   -- never produced (`Framing.compressPanics_false`)

/-- the stream a handler's `Response` carries: the script's for a streaming-response shape;
`tokio_stream::once(Ok(m))` for a unary-response shape -/
def handlerSrc (respStream : Bool) (sc : Script α) : List (SrcEv α) :=
  if respStream then
    srcOf sc.body ++ (match sc.final with
      | some st => [.err ⟨st.code.num, .user⟩]
      | none => [])
  else (sc.body.msgs.take 1).map .item

/-- `service.call(request).await` followed by `map_response`: `Err(status)` becomes
`status.into_http()`; `Ok(response)` becomes sanitised metadata + `content-type` and a
server-role `EncodeBody` over the stream, polled `npolls` times by the transport. -/
def handlerResponse (c : Cfg α) (npolls : Nat) (respStream : Bool) (sc : Script α) : HttpResp :=
  match sc.early with
  | some st => statusIntoHttp st
  | none =>
    { status := 200,
      headers := Metadata.responseWire sc.initMd,
      body := (Enc.run c.cd (encCfg c true) npolls Enc.init (handlerSrc respStream sc)).map (decorate c sc) }

/-- `map_request_unary`: `Err` = the status the call is answered with without reaching the
handler.  (A request delivery has no trailers, so `stream.trailers()` has nothing to merge.) -/
def mapRequestUnary (c : Cfg α) (d : ReqDelivery) : Except FSt (HMap × α) :=
  match encodingCheck d.headers with
  | some st => .error st
  | none =>
    match nextItem c.cd reqDecCfg c.fuel Dec.init (reqEvs d) with
    | (_, _, .err e) => .error (fullOf c.deMsg e)
    | (_, _, .none) => .error missingRequest
    | (_, _, .pending) => .error (mkSt .unknown (ascii "hang"))
    | (s1, evs1, .msg m) =>
      -- `stream.trailers().await?`: nothing cached yet, so the rest of the body is drained
      match drain c.cd reqDecCfg c.fuel s1 evs1 with
      | (_, .err e, _) => .error (fullOf c.deMsg e)
      | (_, .hang, _) => .error (mkSt .unknown (ascii "hang"))
      | (_, _, _) => .ok (d.headers, m)

def endedFull (deMsg : Bytes) : Ended → Option (Option FSt)
  | .open => none
  | .done => some none
  | .err st => some (some (fullOf deMsg st))
  | .hang => some (some (mkSt .unknown (ascii "hang")))

/-- One call on the server: what the handler saw, and the response handed to the transport.
`reqStream` / `respStream` say which of the four `server::Grpc` entry points serves the method. -/
def serve (c : Cfg α) (npolls : Nat) (reqStream respStream : Bool) (sc : Script α) (d : ReqDelivery) :
    Seen α × HttpResp :=
  if reqStream then
    -- `map_request_streaming`
    match encodingCheck d.headers with
    | some st => (.notCalled, statusIntoHttp st)
    | none =>
      match readN c.cd reqDecCfg c.fuel sc.reads Dec.init (reqEvs d) with
      | (ms, e, _) => (.stream d.headers ms (endedFull c.deMsg e), handlerResponse c npolls respStream sc)
  else
    match mapRequestUnary c d with
    | .error st => (.notCalled, statusIntoHttp st)
    | .ok (md, m) => (.unary md m, handlerResponse c npolls respStream sc)

/-! ### client: receiving -/

/-- What the client API returned. -/
inductive ClientObs (α : Type)
  /-- `Err(status)` from the call itself -/
  | err (st : FSt)
  /-- `Ok(Response<M>)` of `unary` / `client_streaming` -/
  | single (md : HMap) (m : α)
  /-- `Ok(Response<Streaming<M>>)` of `server_streaming` / `streaming`; then `message()` until
  `None` (`ended = none`) or `Err` (`ended = some st`); then `trailers()` -/
  | stream (md : HMap) (msgs : List α) (ended : Option FSt) (trailers : Option HMap)
  | hang
deriving Repr

/-- the status behind an error of the response stream -/
def respErr (deMsg : Bytes) (d : RespDelivery) (e : Framing.St) : FSt :=
  match e.cls with
  | .user =>
    match d.trailers.bind (Status.fromHeaderMap .fixed) with
    | some (.status st) => st
    | _ => fullOf deMsg e
  | .http => mkSt (Status.Code.ofNum e.code) (Status.inferMessage d.status)
  | _ => fullOf deMsg e

/-- `create_response`: `Err` = the call fails with that status; `Ok` = how the body is read -/
def createResponse (d : RespDelivery) : Except FSt DecCfg :=
  match encodingCheck d.headers with
  | some st => .error st
  | none =>
    match Status.fromHeaderMap .fixed d.headers with
    | some (.status st) =>
      if st.code ≠ .ok then .error st
      else .ok { enc := none, maxSize := none, dir := .empty }           -- `Streaming::new_empty`
    | some .panic => .error (mkSt .unknown (ascii "panic"))              -- not on the repaired tree
    | none => .ok { enc := none, maxSize := none, dir := .response d.status }

/-- `server_streaming` / `streaming`, then the caller reading the stream to its end -/
def clientStream (c : Cfg α) (d : RespDelivery) : ClientObs α :=
  match createResponse d with
  | .error st => .err st
  | .ok cfg =>
    match drain c.cd cfg c.fuel Dec.init (respEvs d) with
    | (ms, .done, s) => .stream d.headers ms none (match s.trailers with | some _ => d.trailers | none => none)
    | (ms, .err e, _) => .stream d.headers ms (some (respErr c.deMsg d e)) none
    | (_, _, _) => .hang

/-- `unary` / `client_streaming` (the wrapper around `streaming`) -/
def clientSingle (c : Cfg α) (d : RespDelivery) : ClientObs α :=
  match createResponse d with
  | .error st => .err st
  | .ok cfg =>
    match nextItem c.cd cfg c.fuel Dec.init (respEvs d) with
    | (_, _, .err e) =>
      -- `status.metadata_mut().merge(parts.clone())`
      let st := respErr c.deMsg d e
      .err { st with metadata := HMap.extend st.metadata d.headers }
    | (_, _, .none) => .err missingResponse
    | (_, _, .pending) => .hang
    | (s1, evs1, .msg m) =>
      -- `body.trailers().await?`: nothing cached yet; drain, then take the trailers
      match drain c.cd cfg c.fuel s1 evs1 with
      | (_, .err e, _) => .err (respErr c.deMsg d e)
      | (_, .done, s2) =>
        match s2.trailers, d.trailers with
        | some _, some t => .single (HMap.extend d.headers t) m       -- `parts.merge(trailers)`
        | _, _ => .single d.headers m
      | (_, _, _) => .hang

def clientReceive (c : Cfg α) (respStream : Bool) (d : RespDelivery) : ClientObs α :=
  if respStream then clientStream c d else clientSingle c d

/-! ### the same with `max_encoding_message_size(l)` configured (client `Grpc` / server `Grpc`) -/

def encCfgLim (c : Cfg α) (server : Bool) (l : Nat) : EncCfg := { encCfg c server with maxSize := some l }

/-- `clientRequest` of a client `Grpc` configured with `max_encoding_message_size(l)` -/
def clientRequestLim (c : Cfg α) (l npolls : Nat) (r : CallReq α) : HttpReq :=
  { headers := Metadata.requestWire r.md,
    body := Enc.run c.cd (encCfgLim c false l) npolls Enc.init (srcOf r.msgs) }

/-- `handlerResponse` of a server `Grpc` configured with `max_encoding_message_size(l)` -/
def handlerResponseLim (c : Cfg α) (l npolls : Nat) (respStream : Bool) (sc : Script α) : HttpResp :=
  match sc.early with
  | some st => statusIntoHttp st
  | none =>
    { status := 200,
      headers := Metadata.responseWire sc.initMd,
      body := (Enc.run c.cd (encCfgLim c true l) npolls Enc.init (handlerSrc respStream sc)).map (decorate c sc) }

end Call
