import TonicModel.Model.RichError
import TonicModel.Model.Status
/-
C20, the ways a status with rich error details crosses the header encoding (`x` cases of
harness/src/c20_x.rs).  The header encoding itself is `Model/Status` (`Status::add_header`,
`Status::from_header_map`; `Variant.fixed` = the tree as it stands): here it is only composed.

* `Trip.add h0`   `add_header` into the block `h0`, `from_header_map` of the result
                  (`h0 = []`: a fresh map / trailers; `h0 = [content-type: application/grpc]`:
                  `Status::into_http`, a trailers-only response; any other block: a map in use);
* `Trip.padded`   the details text as a peer writes it that pads its base64;
* `Trip.twice`    a proxy: the recovered status is written and read once more.

Operations on the `Status` *value* before the trip (`Clone`, `Status::from_error` /
`try_from_error` of the boxed status, `find_status_in_source_chain`'s field-by-field copy,
`set_source`) keep code, message, details and metadata: on the model's values they are the identity
and have no constructor here; the correspondence run drives them.
-/
namespace RichError
/-- a status of `Model/Status` -/
abbrev St := _root_.Status.St

inductive Trip
  | add (h0 : HMap)
  | padded
  | twice
deriving Repr

/-- the block `Status::into_http` starts from -/
def contentTypeGrpc : HMap := [(_root_.Status.CONTENT_TYPE, Ascii.ofString "application/grpc")]

/-- `from_header_map`, which for the repaired tree always yields a status when `grpc-status` is there -/
def readBack (h : HMap) : Option St :=
  match _root_.Status.fromHeaderMap .fixed h with
  | some (.status st) => some st
  | _ => none

/-- write into `h0`, read back -/
def once (h0 : HMap) (st : St) : Option St :=
  match _root_.Status.addHeader .fixed st h0 with
  | .ok h => readBack h
  | .error _ => none

/-- the details text re-written with `=` padding (what a peer using padded base64 sends) -/
def repad (st : St) (h : HMap) : HMap :=
  if st.details = [] then h else HMap.insert _root_.Status.GRPC_STATUS_DETAILS (B64.encode true st.details) h

def trip : Trip → St → Option St
  | .add h0, st => once h0 st
  | .padded, st =>
    match _root_.Status.addHeader .fixed st [] with
    | .ok h => readBack (repad st h)
    | .error _ => none
  | .twice, st => (once [] st).bind (once [])

/-- blocks the round trip is claimed for: no message / details header already in them -/
def Trip.wf : Trip → Prop
  | .add h0 => HMap.getAll _root_.Status.GRPC_MESSAGE h0 = [] ∧ HMap.getAll _root_.Status.GRPC_STATUS_DETAILS h0 = []
  | _ => True

/-- `tonic::Status` of `Model/RichError` as a `Model/Status` value -/
def toSt (st : Status HMap) : St :=
  { code := _root_.Status.Code.ofNum st.code, message := st.message, details := st.details, metadata := st.metadata }

end RichError
