import TonicModel.Basic.CompressionObs
/-
Model of tonic's compression negotiation (C05), following the code branch by branch:
  * `codec/compression.rs::EnabledCompressionEncodings` (enable / pop / is_enabled / is_empty /
    into_accept_encoding_header_value)                       → `Slots`, `enable`, `pop`, …
  * `CompressionEncoding::from_accept_encoding_header`        → `fromAcceptEncodingHeader`
       (the code after `fixes/fix-C05-accept-encoding-enabled.patch`; the code as found at the
        pinned commit is kept as `Orig.fromAcceptEncodingHeader`)
  * `CompressionEncoding::from_encoding_header`               → `fromEncodingHeader`
  * `codec/decode.rs::decode_chunk` (compressed-flag branch)  → `decodeFlag`, `decodeFrame`
  * `codec/encode.rs::EncodedBytes::new` + `finish_encoding`  → `outFrame`
  * `server/grpc.rs` unary / server_streaming / client_streaming / streaming, `map_request_*`,
    `map_response`, `apply_compression_config`               → `serve`
  * `client/grpc.rs` `prepare_request`, `create_response`, `client_streaming`/`streaming`
                                                              → `prepareRequest`, `call`
Header values are the raw bytes of each `HeaderValue` in header order (`HeaderMap::get` = head).
-/
namespace Compression
open CompObs

/-! ### names (`CompressionEncoding::as_str`) -/

def gzipName : Bytes := [103, 122, 105, 112]
def deflateName : Bytes := [100, 101, 102, 108, 97, 116, 101]
def zstdName : Bytes := [122, 115, 116, 100]
def identityName : Bytes := [105, 100, 101, 110, 116, 105, 116, 121]

def asStr : Enc → Bytes
  | .gzip => gzipName
  | .deflate => deflateName
  | .zstd => zstdName

/-! ### `EnabledCompressionEncodings { inner: [Option<CompressionEncoding>; 3] }` -/

abbrev Slots := List (Option Enc)

def Slots.default : Slots := [none, none, none]

/-- `enable`: walk the slots; same encoding found ⇒ nothing; first empty slot ⇒ store; slots
exhausted ⇒ nothing (silently). -/
def enable : Slots → Enc → Slots
  | [], _ => []
  | some x :: rest, e => if x = e then some x :: rest else some x :: enable rest e
  | none :: rest, e => some e :: rest

/-- `pop` seen from the back of the array: the first `Some` becomes `None`. -/
def popRev : Slots → Slots
  | [] => []
  | some _ :: rest => none :: rest
  | none :: rest => none :: popRev rest

def pop (s : Slots) : Slots := (popRev s.reverse).reverse

def isEnabled (s : Slots) (e : Enc) : Bool := s.contains (some e)

def isEmpty (s : Slots) : Bool := s.all Option.isNone

/-- the `name,` pieces written by `into_accept_encoding_header_value` -/
def acceptValueBody : Slots → Bytes
  | [] => []
  | some e :: rest => asStr e ++ [44] ++ acceptValueBody rest
  | none :: rest => acceptValueBody rest

def acceptHeaderValue (s : Slots) : Option Bytes :=
  let v := acceptValueBody s
  if v.isEmpty then none else some (v ++ identityName)

def applyCall (s : Slots) : Call → Slots
  | .en e => enable s e
  | .pop => pop s

def runCalls (cs : List Call) : Slots := cs.foldl applyCall Slots.default

/-- `server::Grpc::apply_compression_config` for one of the two sets: walk `ENCODINGS` in its
fixed order and `enable` those that the given set has. -/
def applyConfig (cur given : Slots) : Slots :=
  Enc.all.foldl (fun s e => if isEnabled given e then enable s e else s) cur

/-- How a server's set comes about: `direct` = `Grpc::new(codec).accept_compressed(..)…` (one
`enable` per call); otherwise the generated-server route: the calls act on the
`EnabledCompressionEncodings` kept by the generated struct (where `pop` is also available) and
`apply_compression_config` copies the result into a fresh `Grpc`. -/
def configure (direct : Bool) (cs : List Call) : Slots :=
  if direct then runCalls cs else applyConfig Slots.default (runCalls cs)

/-! ### header parsing -/

/-- `HeaderValue::to_str` succeeds. -/
def toStrOk (v : Bytes) : Bool := v.all Ascii.isVisible

/-- `str::split(',')` on bytes (always at least one piece). -/
def splitComma : Bytes → List Bytes
  | [] => [[]]
  | b :: rest =>
    if b = 44 then [] :: splitComma rest
    else match splitComma rest with
      | [] => [[b]]
      | t :: ts => (b :: t) :: ts

/-- `char::is_whitespace` on the ASCII range (what `str::trim` strips from a `to_str`-checked
value). -/
def isWs (b : UInt8) : Bool := b = 32 || (9 ≤ b.toNat && b.toNat ≤ 13)

def trim (t : Bytes) : Bytes := ((t.dropWhile isWs).reverse.dropWhile isWs).reverse

/-- One arm of the `find_map` closure, after the fix: a known name counts only if that encoding
is enabled for sending. -/
def matchToken (s : Slots) (t : Bytes) : Option Enc :=
  if t = gzipName then (if isEnabled s .gzip then some .gzip else none)
  else if t = deflateName then (if isEnabled s .deflate then some .deflate else none)
  else if t = zstdName then (if isEnabled s .zstd then some .zstd else none)
  else none

/-- `from_accept_encoding_header(map, enabled)` (fixed code). -/
def fromAcceptEncodingHeader (vals : List Bytes) (s : Slots) : Option Enc :=
  if isEmpty s then none
  else match vals with
    | [] => none
    | v :: _ =>
      if toStrOk v then (splitComma v).findSome? (fun t => matchToken s (trim t)) else none

namespace Orig
/-- the closure as found at the pinned commit: any known name matches -/
def matchToken (t : Bytes) : Option Enc :=
  if t = gzipName then some .gzip
  else if t = deflateName then some .deflate
  else if t = zstdName then some .zstd
  else none

/-- `from_accept_encoding_header` as found at the pinned commit (DESIGN §5.4). -/
def fromAcceptEncodingHeader (vals : List Bytes) (s : Slots) : Option Enc :=
  if isEmpty s then none
  else match vals with
    | [] => none
    | v :: _ =>
      if toStrOk v then (splitComma v).findSome? (fun t => matchToken (trim t)) else none
end Orig

/-- `from_encoding_header(map, enabled)`: `.error v` is the UNIMPLEMENTED status, `v` the
`grpc-accept-encoding` value stored in its metadata. -/
def fromEncodingHeader (vals : List Bytes) (s : Slots) : Except Bytes (Option Enc) :=
  match vals with
  | [] => .ok none
  | v :: _ =>
    if v = gzipName && isEnabled s .gzip then .ok (some .gzip)
    else if v = deflateName && isEnabled s .deflate then .ok (some .deflate)
    else if v = zstdName && isEnabled s .zstd then .ok (some .zstd)
    else if v = identityName then .ok none
    else .error ((acceptHeaderValue s).getD identityName)

/-! ### one frame header on the receiving side (`decode_chunk`) -/

inductive FlagErr | noEncoding | badFlag
deriving DecidableEq, Repr

/-- the `match self.buf.get_u8()` of `decode_chunk`; `neg` is `self.encoding` -/
def decodeFlag (neg : Option Enc) (flag : UInt8) : Except FlagErr (Option Enc) :=
  if flag = 0 then .ok none
  else if flag = 1 then
    match neg with
    | some e => .ok (some e)
    | none => .error .noEncoding
  else .error .badFlag

/-- The real decompressors as a parameter with its observed law: decompressing with `e` succeeds
(and yields the message) exactly on an `e`-compressed payload. -/
def decompress (e : Enc) : Form → Option Form
  | .z e' => if e' = e then some .raw else none
  | _ => none

def decodeFrame (neg : Option Enc) (f : Frame) : Item :=
  match decodeFlag neg f.flag with
  | .error .noEncoding => .err 13 .flagNoEnc
  | .error .badFlag => .err 13 .badFlag
  | .ok none => .ok f.form
  | .ok (some e) =>
    match decompress e f.form with
    | some m => .ok m
    | none => .err 13 .decompress

/-- `Streaming` read to the end or to its first error. -/
def decodeAll (neg : Option Enc) : List Frame → List Item
  | [] => []
  | f :: rest =>
    match decodeFrame neg f with
    | .err c k => [.err c k]
    | .ok m => .ok m :: decodeAll neg rest

def firstErr : List Item → Option (Nat × ErrCls)
  | [] => none
  | .err c k :: _ => some (c, k)
  | .ok _ :: rest => firstErr rest

/-- `try_next()` for the first message, then `trailers()` draining the rest
(`map_request_unary`, `client_streaming`). -/
def unaryRead : List Item → Except (Nat × ErrCls) Form
  | [] => .error (13, .missing)
  | .err c k :: _ => .error (c, k)
  | .ok f :: rest =>
    match firstErr rest with
    | some e => .error e
    | none => .ok f

/-! ### sending side (`EncodedBytes::new`, `finish_encoding`) -/

/-- The frame written for one message: flag = `compression_encoding.is_some()` after the
per-response `Disable` override has been applied. -/
def outFrame (enc : Option Enc) (disable : Bool) : Frame :=
  match enc, disable with
  | some e, false => ⟨1, .z e⟩
  | _, _ => ⟨0, .raw⟩

/-! ### `server::Grpc` -/

/-- `Status::into_http()` of an error (trailers-only response; no `grpc-encoding`). -/
def errorResponse (called : Bool) (saw : List Item) (code : Nat) (cls : ErrCls)
    (acc : List Bytes) : SrvObs :=
  { called, saw, enc := [], acc, stWhere := .hdr, stCode := code, stCls := cls, frames := [] }

/-- `map_response` on what the handler returned. -/
def respond (shape : Shape) (chosen : Option Enc) (h : Handler) (saw : List Item) : SrvObs :=
  match h with
  | .fail code => errorResponse true saw code .handler []
  | .reply n disable md =>
    { called := true, saw,
      -- `headers.insert(grpc-encoding, …)` replaces whatever the response metadata carried
      enc := (match chosen with
        | some e => [asStr e]
        | none => md),
      acc := [], stWhere := .trl, stCode := 0, stCls := .none,
      frames := List.replicate (if shape.singleResponse then 1 else n)
        (outFrame chosen (disable && shape.singleResponse)) }

def serve (accept send : Slots) (req : SrvReq) (h : Handler) : SrvObs :=
  let chosen := fromAcceptEncodingHeader req.accVals send
  match fromEncodingHeader req.encVals accept with
  | .error v => errorResponse false [] 12 .unsupported [v]
  | .ok neg =>
    let items := decodeAll neg req.frames
    if req.shape.singleRequest then
      match unaryRead items with
      | .error (c, k) => errorResponse false [] c k []
      | .ok f => respond req.shape chosen h [.ok f]
    else
      -- the scripted handler reads its `Streaming` to the end and passes a decode error on
      match firstErr items with
      | some (c, k) => errorResponse true items c k []
      | none => respond req.shape chosen h items

/-! ### `client::Grpc` -/

structure CliCfg where
  send : Option Enc      -- `send_compressed` (last call wins)
  accept : Slots         -- `accept_compressed` calls
deriving DecidableEq, Repr

/-- `GrpcConfig::prepare_request` + `EncodeBody::new_client`: the two negotiation headers
(`umdEnc`, `umdAcc` = what the caller's own metadata carried under those names; `insert`
replaces them) and the `k` request frames. -/
def prepareRequest (cfg : CliCfg) (umdEnc umdAcc : List Bytes) (k : Nat) :
    List Bytes × List Bytes × List Frame :=
  ((match cfg.send with
    | some e => [asStr e]
    | none => umdEnc),
   (match acceptHeaderValue cfg.accept with
    | some v => [v]
    | none => umdAcc),
   List.replicate k (outFrame cfg.send false))

/-- items of the response stream: frames until the first error, then the trailers' status
(`Direction::Response(200)`; `empty` = `Streaming::new_empty`, which ignores trailers). -/
def clientItems (neg : Option Enc) (empty : Bool) (resp : CliResp) : List Item :=
  let items := decodeAll neg resp.frames
  if (firstErr items).isSome || empty then items
  else match resp.trlStatus with
    | some c => if c = 0 then items else items ++ [.err c resp.peerCls]
    | none => items

def call (cfg : CliCfg) (shape : Shape) (umdEnc umdAcc : List Bytes) (k : Nat)
    (resp : CliResp) : CliObs :=
  let (renc, racc, rframes) := prepareRequest cfg umdEnc umdAcc (if shape.singleRequest then 1 else k)
  let out (result : List Item) (errAcc : List Bytes) : CliObs :=
    { enc := renc, acc := racc, frames := rframes, result, errAcc }
  match fromEncodingHeader resp.encVals cfg.accept with
  | .error v => out [.err 12 .unsupported] [v]
  | .ok neg =>
    match resp.hdrStatus with
    | some (c + 1) => out [.err (c + 1) resp.peerCls] resp.accVals
    | hs =>
      let empty := hs.isSome
      let items := clientItems (if empty then none else neg) empty resp
      if shape.singleResponse then
        match unaryRead items with
        | .error (c, k) => out [.err c k] []
        | .ok f => out [.ok f] []
      else out items []

/-! ### a tonic client talking to a tonic server -/

/-- What the server's response looks like to the client's transport. -/
def respOf (so : SrvObs) : CliResp :=
  { encVals := so.enc,
    hdrStatus := if so.stWhere = .hdr then some so.stCode else none,
    frames := so.frames,
    trlStatus := if so.stWhere = .trl then some so.stCode else none,
    accVals := so.acc,
    peerCls := so.stCls }

/-- One call of a `client::Grpc` (no negotiation headers in the caller's metadata) against a
`server::Grpc`: the prepared request is served, the response is read back. -/
def pair (ccfg : CliCfg) (accS sndS : Slots) (shape : Shape) (k : Nat) (h : Handler) :
    SrvObs × CliObs :=
  let n := if shape.singleRequest then 1 else k
  let pr := prepareRequest ccfg [] [] n
  let so := serve accS sndS { shape, encVals := pr.1, accVals := pr.2.1, frames := pr.2.2 } h
  (so, call ccfg shape [] [] k (respOf so))

end Compression
