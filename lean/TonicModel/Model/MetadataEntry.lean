import TonicModel.Basic.MetaOps
import TonicModel.Model.Metadata
/-
Model of the *entry* API of `tonic::metadata::MetadataMap` (C08), following
`tonic/src/metadata/map.rs`: `entry` / `entry_bin` with every key type (`as_metadata_key`),
`Entry::{key, or_insert, or_insert_with}`, `VacantEntry::{key, into_key, insert, insert_entry}`,
`OccupiedEntry::{key, get, get_mut, into_mut, insert, insert_mult, append, remove, remove_entry,
remove_entry_mult, iter, iter_mut, into_iter}` and `GetAll` iterated from both ends, as operation
sequences on one map.  Every wrapper there is a cast of the `http::header` entry to the static
encoding `VE` of the Rust type — that static encoding is what `Ev.key/val/wrote` record as `bin`.

`IE.asis`: the tree as found (pinned commit + the earlier C08 suffix fix):
`VacantEntry::<VE>::insert_entry` returns `OccupiedEntry<'a, Ascii>` whatever `VE` is.
`IE.fixed`: with "fix: VacantEntry::insert_entry keeps the entry's value encoding".
-/
namespace Metadata
open Status (Variant)
open MetaOps

inductive IE | asis | fixed
deriving DecidableEq, Repr

def encOf (b : Bool) : Enc := if b then .binary else .ascii

/-- the stored name a key denotes, or `none` (`InvalidMetadataKey` / an accessor that finds
nothing).  String keys (`impl Sealed<VE> for &str | String | &String`): `VE::is_valid_key(self)`
on the string as spelled, then `HeaderName::from_bytes`; typed keys were built by
`MetadataKey::<VE>::from_bytes` -/
def resolveKey (v : Variant) (enc : Enc) (kf : KeyForm) (key : Bytes) : Option Bytes :=
  if kf.isTyped then keyFromBytes v enc key
  else if validKey v enc key then HMap.normName key else none

/-- one call on an `OccupiedEntry<'_, VE>` for the stored name `n`, `b` = the static `VE` -/
def occStep (n : Bytes) (b : Bool) (u : OccUse) (m : HMap) : List Ev × HMap :=
  match HMap.get n m with
  | none => ([.note "absent"], m)      -- unreachable: an occupied entry has a first value
  | some first =>
    let all := HMap.getAll n m
    match u with
    | .key => ([.key "okey" b n], m)
    | .get => ([.val "get" b n first], m)
    | .getMut => ([.val "getmut" b n first], m)
    | .insert raw =>
      match valueFromBytes (encOf b) raw with
      | none => ([.note "valerr"], m)
      | some w => ([.wrote b n raw w, .val "oinsert" b n first], HMap.insert n w m)
    | .insertMult raw =>
      match valueFromBytes (encOf b) raw with
      | none => ([.note "valerr"], m)
      | some w =>
        -- http 1.5.0, `HeaderMap::insert_occupied_mult`: the entry's links are `take()`n before
        -- `drain_all_extra_values` walks them; unlinking an extra value that is followed by another
        -- one does `raw_links[entry].as_mut().unwrap()` on the `None` just left there: with three or
        -- more values the call panics (two or more when the crate's debug assertions are on)
        if 3 ≤ all.length then ([.note "panic"], m)
        else (.wrote b n raw w :: all.map (Ev.val "drain" b n), HMap.insert n w m)
    | .append raw =>
      match valueFromBytes (encOf b) raw with
      | none => ([.note "valerr"], m)
      | some w => ([.wrote b n raw w], HMap.append n w m)
    | .iter => (all.map (Ev.val "iter" b n), m)
    | .iterMut => (all.map (Ev.val "itermut" b n), m)
    | .intoIter => (all.map (Ev.val "intoiter" b n), m)
    | .intoMut => ([.val "intomut" b n first], m)
    | .remove => ([.val "remove" b n first], HMap.remove n m)
    | .removeEntry => ([.key "rekey" b n, .val "reval" b n first], HMap.remove n m)
    | .removeEntryMult => (.key "remkey" b n :: all.map (Ev.val "remval" b n), HMap.remove n m)

/-- a script of calls on one occupied entry; a consuming call ends it -/
def occRun (n : Bytes) (b : Bool) : List OccUse → HMap → List Ev × HMap
  | [], m => ([], m)
  | u :: us, m =>
    let r := occStep n b u m
    if u.terminal then r
    else
      let r2 := occRun n b us r.2
      (r.1 ++ r2.1, r2.2)

/-- the static encoding of the handle `VacantEntry::<VE>::insert_entry` returns -/
def insertEntryHandle (ie : IE) (b : Bool) : Bool :=
  match ie with
  | .asis => false       -- `-> OccupiedEntry<'a, Ascii>`
  | .fixed => b          -- `-> OccupiedEntry<'a, VE>`

/-- `map.entry(key)` / `map.entry_bin(key)` followed by `use` -/
def entryOp (v : Variant) (ie : IE) (b : Bool) (kf : KeyForm) (key : Bytes) (use : EntryUse) (m : HMap) :
    List Ev × HMap :=
  match resolveKey v (encOf b) kf key with
  | none => ([.note "keyerr"], m)
  | some n =>
    let head : List Ev := [.note (if HMap.hasKey n m then "occupied" else "vacant"), .key "ekey" b n]
    match use with
    | .orInsert raw =>
      match valueFromBytes (encOf b) raw with
      | none => (head ++ [.note "valerr"], m)
      | some w =>
        match HMap.get n m with
        | some cur => (head ++ [.val "or_insert" b n cur], m)
        | none => (head ++ [.wrote b n raw w, .val "or_insert" b n w], HMap.append n w m)
    | .orInsertWith raw =>
      match valueFromBytes (encOf b) raw with
      | none => (head ++ [.note "valerr"], m)
      | some w =>
        match HMap.get n m with
        | some cur => (head ++ [.note "notcalled", .val "or_insert_with" b n cur], m)
        | none => (head ++ [.note "called", .wrote b n raw w, .val "or_insert_with" b n w], HMap.append n w m)
    | .branch vac occ =>
      if HMap.hasKey n m then
        let r := occRun n b occ m
        (head ++ r.1, r.2)
      else
        match vac with
        | .nothing => (head, m)
        | .key => (head ++ [.key "vkey" b n], m)
        | .intoKey => (head ++ [.key "vintokey" b n], m)
        | .insert raw =>
          match valueFromBytes (encOf b) raw with
          | none => (head ++ [.note "valerr"], m)
          | some w => (head ++ [.wrote b n raw w, .val "vinsert" b n w], HMap.append n w m)
        | .insertEntry raw =>
          match valueFromBytes (encOf b) raw with
          | none => (head ++ [.note "valerr"], m)
          | some w =>
            let hb := insertEntryHandle ie b
            let r := occRun n hb occ (HMap.append n w m)
            (head ++ [.wrote b n raw w, .key "iekey" hb n] ++ r.1, r.2)

/-- `GetAll` as a `DoubleEndedIterator`: taken alternately from the front and from the back -/
def frontBack : Nat → List Bytes → List Bytes
  | 0, _ => []
  | _ + 1, [] => []
  | f + 1, x :: xs =>
    match xs.reverse with
    | [] => [x]
    | y :: ys => x :: y :: frontBack f ys.reverse

def step (v : Variant) (ie : IE) (op : Op) (m : HMap) : List Ev × HMap :=
  match op with
  | .insert b key raw =>
    match keyFromBytes v (encOf b) key with
    | none => ([.note "keyerr"], m)
    | some n =>
      match valueFromBytes (encOf b) raw with
      | none => ([.note "valerr"], m)
      | some w =>
        (.wrote b n raw w :: (match HMap.get n m with | some p => [Ev.val "prev" b n p] | none => [.note "prev:none"]),
         HMap.insert n w m)
  | .append b key raw =>
    match keyFromBytes v (encOf b) key with
    | none => ([.note "keyerr"], m)
    | some n =>
      match valueFromBytes (encOf b) raw with
      | none => ([.note "valerr"], m)
      | some w => ([.wrote b n raw w, .note (if HMap.hasKey n m then "existed:1" else "existed:0")], HMap.append n w m)
  | .remove b key =>
    match resolveKey v (encOf b) .str key with
    | none => ([.note "removed:none"], m)
    | some n =>
      match HMap.get n m with
      | some w => ([.val "removed" b n w], HMap.remove n m)
      | none => ([.note "removed:none"], m)
  | .getAll b kf key =>
    match resolveKey v (encOf b) kf key with
    | none => ([.note (if kf.isTyped then "keyerr" else "ga:0")], m)
    | some n =>
      let all := HMap.getAll n m
      (.note ("ga:" ++ toString all.length) :: all.map (Ev.val "ga" b n) ++ all.reverse.map (Ev.val "gab" b n)
        ++ (frontBack all.length all).map (Ev.val "gam" b n), m)
  | .entry b kf key use => entryOp v ie b kf key use m

/-- a whole operation sequence: per operation its events and the map afterwards -/
def run (v : Variant) (ie : IE) : List Op → HMap → List (List Ev × HMap)
  | [], _ => []
  | op :: ops, m =>
    let r := step v ie op m
    r :: run v ie ops r.2

def finalMap (steps : List (List Ev × HMap)) (m0 : HMap) : HMap :=
  match steps.getLast? with
  | some s => s.2
  | none => m0

end Metadata
