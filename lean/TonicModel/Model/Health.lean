import TonicModel.Basic.HealthTypes
/-
Model of tonic-health/src/server.rs as it is.

* `HealthReporter.statuses : Arc<RwLock<HashMap<String, (watch::Sender, watch::Receiver)>>>`
  is `reg` (name ↦ index of a channel) plus the arena `chans` of every `watch::channel` ever
  created.  A channel is `{value, version, closed, rx}`: tokio's `watch` keeps one value and a
  version that every `send` bumps (whether or not the value differs); `closed` = the `Sender`
  has been dropped; `rx` = number of live `Receiver`s (the one stored in the table and one per
  live `WatchStream`) — `Sender::send` fails, and `set_service_status` then panics, iff it is 0.
* `HealthService::watch` clones the stored receiver into `tokio_stream::wrappers::WatchStream::new`:
  its first poll yields the value then current (`borrow_and_update`); later polls yield when the
  version differs from the one seen, end when it does not and the sender is gone, and are
  pending otherwise (`maybe_changed` checks the version *before* the closed flag, so a value
  sent before the clear is still delivered).
* RwLock and watch operations are atomic steps (trusted; see props.d/C18.json).
-/
namespace Health

structure Chan where
  value : St
  version : Nat
  closed : Bool
  rx : Nat
deriving DecidableEq, Repr

structure Watcher where
  chan : Nat
  /-- version seen by the last yielded value; `none` = the stream has not been polled yet -/
  seen : Option Nat
deriving DecidableEq, Repr

structure H where
  chans : List Chan
  reg : List (Name × Nat)
  /-- slot `w` = stream opened by the `w`-th Watch call; `none` = refused or dropped -/
  watchers : List (Option Watcher)
deriving Repr

/-- `HealthReporter::new`: `""` ↦ `watch::channel(Serving)`. -/
def init : H :=
  { chans := [⟨.serving, 0, false, 1⟩], reg := [([], 0)], watchers := [] }

def lookup (n : Name) : List (Name × Nat) → Option Nat
  | [] => none
  | (m, i) :: r => if m = n then some i else lookup n r

def erase (n : Name) (r : List (Name × Nat)) : List (Name × Nat) :=
  r.filter (fun p => decide (p.1 ≠ n))

def Chan.send (c : Chan) (s : St) : Chan := { c with value := s, version := c.version + 1 }
/-- dropping the table entry drops the `Sender` and the stored `Receiver` -/
def Chan.close (c : Chan) : Chan := { c with closed := true, rx := c.rx - 1 }
def Chan.addRx (c : Chan) : Chan := { c with rx := c.rx + 1 }
def Chan.dropRx (c : Chan) : Chan := { c with rx := c.rx - 1 }

def step (s : H) : Op → H × Resp
  | .set n st =>
    match lookup n s.reg with
    | some i =>
      match s.chans[i]? with
      | some c =>
        if c.rx = 0 then (s, .panic)     -- `tx.send(status).expect("channel should not be closed")`
        else ({ s with chans := s.chans.modify i (fun c => c.send st) }, .done)
      | none => (s, .panic)              -- dangling table entry: cannot happen (invariant)
    | none =>
      ({ s with chans := s.chans ++ [⟨st, 0, false, 1⟩], reg := (n, s.chans.length) :: s.reg }, .done)
  | .clear n =>
    match lookup n s.reg with
    | some i => ({ s with chans := s.chans.modify i Chan.close, reg := erase n s.reg }, .done)
    | none => (s, .done)
  | .check n =>
    match (lookup n s.reg).bind (fun i => s.chans[i]?) with
    | some c => (s, .status c.value)
    | none => (s, .notFound)
  | .watch n =>
    match lookup n s.reg with
    | some i =>
      ({ s with chans := s.chans.modify i Chan.addRx, watchers := s.watchers ++ [some ⟨i, none⟩] }, .subscribed)
    | none => ({ s with watchers := s.watchers ++ [none] }, .notFound)
  | .next w =>
    match s.watchers[w]? with
    | some (some wt) =>
      match s.chans[wt.chan]? with
      | some c =>
        if wt.seen = some c.version then
          (s, if c.closed then .ended else .pending)
        else
          ({ s with watchers := s.watchers.set w (some { wt with seen := some c.version }) }, .value c.value)
      | none => (s, .noWatcher)          -- dangling stream: cannot happen (invariant)
    | _ => (s, .noWatcher)
  | .drop w =>
    match s.watchers[w]? with
    | some (some wt) =>
      ({ s with chans := s.chans.modify wt.chan Chan.dropRx, watchers := s.watchers.set w none }, .done)
    | _ => (s, .noWatcher)

/-- State after a sequence of operations. -/
def exec (s : H) : List Op → H
  | [] => s
  | op :: ops => exec (step s op).1 ops

/-- Answers to a sequence of operations, in order. -/
def run (s : H) : List Op → List Resp
  | [] => []
  | op :: ops => (step s op).2 :: run (step s op).1 ops

end Health
