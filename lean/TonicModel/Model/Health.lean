import TonicModel.Basic.HealthTypes
/-
Model of tonic-health/src/server.rs as it is.

* `HealthReporter.statuses : Arc<RwLock<HashMap<String, (watch::Sender, watch::Receiver)>>>`
  is `reg` (name ↦ index of a channel) plus the arena `chans` of every `watch::channel` ever
  created.  A channel is `{value, version, closed}`: tokio's `watch` keeps one value and a
  version that every `send` bumps (whether or not the value differs); `closed` = the `Sender`
  has been dropped.  `Sender::send` fails only when no `Receiver` is alive; the table entry that
  holds the `Sender` holds a `Receiver` too, so the `expect` in `set_service_status` cannot
  fire and the model has no panic outcome (the harness would still observe one).
* `HealthService::watch` clones the stored receiver into `tokio_stream::wrappers::WatchStream::new`:
  its first poll yields the value then current (`borrow_and_update`); later polls yield when the
  version differs from the one seen, end when it does not and the sender is gone, and are
  pending otherwise (`maybe_changed` checks the version *before* the closed flag, so a value
  sent before the clear is still delivered).
* RwLock and watch operations are atomic steps (trusted; see props.d/C18.json).
-/
namespace Health

structure Chan where
  value : St
  version : Nat
  closed : Bool
deriving DecidableEq, Repr

structure Watcher where
  chan : Nat
  /-- version seen by the last yielded value; `none` = the stream has not been polled yet -/
  seen : Option Nat
deriving DecidableEq, Repr

structure H where
  chans : List Chan
  reg : List (Name × Nat)
  /-- slot `w` = stream opened by the `w`-th Watch call; `none` = refused or dropped -/
  watchers : List (Option Watcher)
deriving Repr

/-- `HealthReporter::new`: `""` ↦ `watch::channel(Serving)`. -/
def init : H :=
  { chans := [⟨.serving, 0, false⟩], reg := [([], 0)], watchers := [] }

def lookup (n : Name) : List (Name × Nat) → Option Nat
  | [] => none
  | (m, i) :: r => if m = n then some i else lookup n r

def erase (n : Name) : List (Name × Nat) → List (Name × Nat)
  | [] => []
  | (m, i) :: r => if m = n then erase n r else (m, i) :: erase n r

def Chan.send (c : Chan) (s : St) : Chan := { c with value := s, version := c.version + 1 }
/-- dropping the table entry drops the `Sender` and the stored `Receiver` -/
def Chan.close (c : Chan) : Chan := { c with closed := true }

def step (s : H) : Op → H × Resp
  | .set n st =>
    match lookup n s.reg with
    | some i => ({ s with chans := s.chans.modify i (fun c => c.send st) }, .done)
    | none =>
      ({ s with chans := s.chans ++ [⟨st, 0, false⟩], reg := (n, s.chans.length) :: s.reg }, .done)
  | .clear n =>
    match lookup n s.reg with
    | some i => ({ s with chans := s.chans.modify i Chan.close, reg := erase n s.reg }, .done)
    | none => (s, .done)
  | .check n =>
    match (lookup n s.reg).bind (fun i => s.chans[i]?) with
    | some c => (s, .status c.value)
    | none => (s, .notFound)
  | .watch n =>
    match lookup n s.reg with
    | some i => ({ s with watchers := s.watchers ++ [some ⟨i, none⟩] }, .subscribed)
    | none => ({ s with watchers := s.watchers ++ [none] }, .notFound)
  | .next w =>
    match s.watchers[w]? with
    | some (some wt) =>
      match s.chans[wt.chan]? with
      | some c =>
        if wt.seen = some c.version then
          (s, if c.closed then .ended else .pending)
        else
          ({ s with watchers := s.watchers.set w (some { wt with seen := some c.version }) }, .value c.value)
      | none => (s, .noWatcher)          -- dangling stream: cannot happen (invariant)
    | _ => (s, .noWatcher)
  | .drop w =>
    match s.watchers[w]? with
    | some (some _) => ({ s with watchers := s.watchers.set w none }, .done)
    | _ => (s, .noWatcher)

/-- State after a sequence of operations. -/
def exec (s : H) : List Op → H
  | [] => s
  | op :: ops => exec (step s op).1 ops

/-- Answers to a sequence of operations, in order. -/
def run (s : H) : List Op → List Resp
  | [] => []
  | op :: ops => (step s op).2 :: run (step s op).1 ops

/-- The log (newest first) of the operations and the model's answers, starting from log `h`. -/
def hist (s : H) (h : Hist) : List Op → Hist
  | [] => h
  | op :: ops => hist (step s op).1 ((op, (step s op).2) :: h) ops

/-- The model as an acceptor of recorded answers (used on concurrent histories): the next state
if `r` is the model's answer to `op`. -/
def accept (s : H) (op : Op) (r : Resp) : Option H :=
  if (step s op).2 = r then some (step s op).1 else none

/-- The model's log after `ops` from the initial state (newest event first). -/
def logOf (ops : List Op) : Hist := hist init [] ops

/-- The model's answer to `op` issued after the history `ops`. -/
def answer (ops : List Op) (op : Op) : Resp := (step (exec init ops) op).2

/-! ## Awaiting watchers: wake-ups

A client that sits in `stream.message().await` is not re-polled by anybody: its task is parked
and runs again only when the waker it left behind is fired.  In tonic-health the chain is
`Streaming::message` → response body → `WatchStream::poll_next(cx)` →
`tokio_stream::wrappers::WatchStream` → `watch::Receiver::changed()`, which registers `cx`'s
waker with the channel's `Notify`.  `Sender::send` bumps the version and calls
`notify_waiters()`; dropping the `Sender` (what `clear_service_status` does by removing the
table entry) sets the closed flag and calls `notify_waiters()` too.  Nothing else fires it.

The model: a history is a list of `Item`s — the operations of `step` plus `await w` (a task is
spawned that awaits the next message of stream `w`).  An awaiting task that finds nothing is
*parked*.  An operation that notifies channel `i` (`notified`) makes every parked task whose
stream listens on `i` poll again (`repoll`, exactly the `next` of `step`); a task whose poll
delivers completes and is reported in `Out.woken`, a task whose poll is still pending parks
again.  While a task holds the stream nobody else can poll it (`busy`); dropping the stream
cancels the task. -/

structure P where
  h : H
  /-- streams held by a parked task -/
  parked : List Nat
deriving Repr

def pinit : P := ⟨init, []⟩

/-- the channel stream `w` listens on -/
def chanOf (s : H) (w : Nat) : Option Nat :=
  match s.watchers[w]? with
  | some (some wt) => some wt.chan
  | _ => none

/-- the channel whose `Notify` the operation fires: `send` on an existing entry, or the drop of
its `Sender`; a first `set` creates a channel nobody listens on yet. -/
def notified (s : H) : Op → Option Nat
  | .set n _ => lookup n s.reg
  | .clear n => lookup n s.reg
  | _ => none

/-- The parked tasks listening on channel `i` poll again, one after the other.  Returns the
state afterwards and the polls made `(stream, answer)`. -/
def repoll (i : Nat) : H → List Nat → H × List (Nat × Resp)
  | h, [] => (h, [])
  | h, w :: ws =>
    if chanOf h w = some i then
      ((repoll i (step h (.next w)).1 ws).1, (w, (step h (.next w)).2) :: (repoll i (step h (.next w)).1 ws).2)
    else repoll i h ws

/-- polls that delivered something: those tasks are done -/
def wokenOf (polls : List (Nat × Resp)) : List (Nat × Resp) :=
  polls.filter (fun p => decide (p.2 ≠ .pending))

def stillParked (parked : List Nat) (polls : List (Nat × Resp)) : List Nat :=
  parked.filter (fun w => !(wokenOf polls).any (fun p => p.1 == w))

/-- `set` / `clear` / `check` / `watch` with awaiting watchers around: the operation itself,
then the polls of the tasks it wakes.  Third component: see `pstepFull`. -/
def pupdate (s : P) (o : Op) : P × Out × List Ev :=
  match notified s.h o with
  | none => (⟨(step s.h o).1, s.parked⟩, ⟨.plain (step s.h o).2, []⟩, [(o, (step s.h o).2)])
  | some i =>
    (⟨(repoll i (step s.h o).1 s.parked).1, stillParked s.parked (repoll i (step s.h o).1 s.parked).2⟩,
      ⟨.plain (step s.h o).2, wokenOf (repoll i (step s.h o).1 s.parked).2⟩,
      (o, (step s.h o).2) :: (repoll i (step s.h o).1 s.parked).2.map (fun p => (Op.next p.1, p.2)))

/-- One item.  The third component is the list of `step` operations the item amounted to, in
order (the item's own operation, then the polls of woken tasks): the parked layer adds no
behaviour of its own, it only decides *when* `next` happens. -/
def pstepFull (s : P) : Item → P × Out × List Ev
  | .await w =>
    if w ∈ s.parked then (s, ⟨.busy, []⟩, [])
    else if (step s.h (.next w)).2 = .pending then
      (⟨(step s.h (.next w)).1, w :: s.parked⟩, ⟨.parked, []⟩, [(.next w, (step s.h (.next w)).2)])
    else
      (⟨(step s.h (.next w)).1, s.parked⟩, ⟨.plain (step s.h (.next w)).2, []⟩,
        [(.next w, (step s.h (.next w)).2)])
  | .op (.next w) =>
    if w ∈ s.parked then (s, ⟨.busy, []⟩, [])
    else
      (⟨(step s.h (.next w)).1, s.parked⟩, ⟨.plain (step s.h (.next w)).2, []⟩,
        [(.next w, (step s.h (.next w)).2)])
  | .op (.drop w) =>
    (⟨(step s.h (.drop w)).1, s.parked.filter (fun x => x != w)⟩, ⟨.plain (step s.h (.drop w)).2, []⟩,
      [(.drop w, (step s.h (.drop w)).2)])
  | .op o => pupdate s o

def pstep (s : P) (it : Item) : P × Out := ((pstepFull s it).1, (pstepFull s it).2.1)

def pexec (s : P) : List Item → P
  | [] => s
  | it :: its => pexec (pstep s it).1 its

def prun (s : P) : List Item → List Out
  | [] => []
  | it :: its => (pstep s it).2 :: prun (pstep s it).1 its

/-- Every `step` operation a history with awaiting watchers amounts to, with its answer (oldest
first). -/
def pevents (s : P) : List Item → List Ev
  | [] => []
  | it :: its => (pstepFull s it).2.2 ++ pevents (pstep s it).1 its

/-- The sequential history (operations of `step`, oldest first) that a history with awaiting
watchers amounts to, from the initial state. -/
def pops (items : List Item) : List Op := (pevents pinit items).map (·.1)

end Health
