import TonicModel.Basic.HealthTypes
/-
Model of tonic-health/src/server.rs as it is.

* `HealthReporter.statuses : Arc<RwLock<HashMap<String, (watch::Sender, watch::Receiver)>>>`
  is `reg` (name ↦ index of a channel) plus the arena `chans` of every `watch::channel` ever
  created.  A channel is `{value, version, closed}`: tokio's `watch` keeps one value and a
  version that every `send` bumps (whether or not the value differs); `closed` = the `Sender`
  has been dropped.  `Sender::send` fails only when no `Receiver` is alive; the table entry that
  holds the `Sender` holds a `Receiver` too, so the `expect` in `set_service_status` cannot
  fire and the model has no panic outcome (the harness would still observe one).
* `HealthService::watch` clones the stored receiver into `tokio_stream::wrappers::WatchStream::new`:
  its first poll yields the value then current (`borrow_and_update`); later polls yield when the
  version differs from the one seen, end when it does not and the sender is gone, and are
  pending otherwise (`maybe_changed` checks the version *before* the closed flag, so a value
  sent before the clear is still delivered).
* RwLock and watch operations are atomic steps (trusted; see props.d/C18.json).
-/
namespace Health

structure Chan where
  value : St
  version : Nat
  closed : Bool
deriving DecidableEq, Repr

structure Watcher where
  chan : Nat
  /-- version seen by the last yielded value; `none` = the stream has not been polled yet -/
  seen : Option Nat
deriving DecidableEq, Repr

structure H where
  chans : List Chan
  reg : List (Name × Nat)
  /-- slot `w` = stream opened by the `w`-th Watch call; `none` = refused or dropped -/
  watchers : List (Option Watcher)
deriving Repr

/-- `HealthReporter::new`: `""` ↦ `watch::channel(Serving)`. -/
def init : H :=
  { chans := [⟨.serving, 0, false⟩], reg := [([], 0)], watchers := [] }

def lookup (n : Name) : List (Name × Nat) → Option Nat
  | [] => none
  | (m, i) :: r => if m = n then some i else lookup n r

def erase (n : Name) : List (Name × Nat) → List (Name × Nat)
  | [] => []
  | (m, i) :: r => if m = n then erase n r else (m, i) :: erase n r

def Chan.send (c : Chan) (s : St) : Chan := { c with value := s, version := c.version + 1 }
/-- dropping the table entry drops the `Sender` and the stored `Receiver` -/
def Chan.close (c : Chan) : Chan := { c with closed := true }

def step (s : H) : Op → H × Resp
  | .set n st =>
    match lookup n s.reg with
    | some i => ({ s with chans := s.chans.modify i (fun c => c.send st) }, .done)
    | none =>
      ({ s with chans := s.chans ++ [⟨st, 0, false⟩], reg := (n, s.chans.length) :: s.reg }, .done)
  | .clear n =>
    match lookup n s.reg with
    | some i => ({ s with chans := s.chans.modify i Chan.close, reg := erase n s.reg }, .done)
    | none => (s, .done)
  | .check n =>
    match (lookup n s.reg).bind (fun i => s.chans[i]?) with
    | some c => (s, .status c.value)
    | none => (s, .notFound)
  | .watch n =>
    match lookup n s.reg with
    | some i => ({ s with watchers := s.watchers ++ [some ⟨i, none⟩] }, .subscribed)
    | none => ({ s with watchers := s.watchers ++ [none] }, .notFound)
  | .next w =>
    match s.watchers[w]? with
    | some (some wt) =>
      match s.chans[wt.chan]? with
      | some c =>
        if wt.seen = some c.version then
          (s, if c.closed then .ended else .pending)
        else
          ({ s with watchers := s.watchers.set w (some { wt with seen := some c.version }) }, .value c.value)
      | none => (s, .noWatcher)          -- dangling stream: cannot happen (invariant)
    | _ => (s, .noWatcher)
  | .drop w =>
    match s.watchers[w]? with
    | some (some _) => ({ s with watchers := s.watchers.set w none }, .done)
    | _ => (s, .noWatcher)

/-- State after a sequence of operations. -/
def exec (s : H) : List Op → H
  | [] => s
  | op :: ops => exec (step s op).1 ops

/-- Answers to a sequence of operations, in order. -/
def run (s : H) : List Op → List Resp
  | [] => []
  | op :: ops => (step s op).2 :: run (step s op).1 ops

/-- The log (newest first) of the operations and the model's answers, starting from log `h`. -/
def hist (s : H) (h : Hist) : List Op → Hist
  | [] => h
  | op :: ops => hist (step s op).1 ((op, (step s op).2) :: h) ops

/-- The model as an acceptor of recorded answers (used on concurrent histories): the next state
if `r` is the model's answer to `op`. -/
def accept (s : H) (op : Op) (r : Resp) : Option H :=
  if (step s op).2 = r then some (step s op).1 else none

/-- The model's log after `ops` from the initial state (newest event first). -/
def logOf (ops : List Op) : Hist := hist init [] ops

/-- The model's answer to `op` issued after the history `ops`. -/
def answer (ops : List Op) (op : Op) : Resp := (step (exec init ops) op).2

end Health
