import TonicModel.Basic.ReflDescriptor
/-
Model of the bytes `fd.encode(&mut encoded_fd)` (prost) produces for a *skeleton* descriptor —
a `FileDescriptorProto` that carries nothing but what `Refl.File` records (`extra = 0`): optional
`name` strings and repeated embedded messages, written in field-number order, each as
`tag(varint (num·8+2)) len(varint) payload`.  Field numbers are those of descriptor.proto.
The correspondence run compares (a hash of) these bytes with the real answer bytes, so the model
is tied to prost on every case; `Spec/ReflectionWire` decodes them independently.
-/
namespace ReflWire
open Refl

/-- Base-128 varint, least significant group first. -/
def varint (n : Nat) : Bytes :=
  if h : n < 128 then [UInt8.ofNat n] else UInt8.ofNat (n % 128 + 128) :: varint (n / 128)
termination_by n
decreasing_by omega

/-- One length-delimited field. -/
def ld (num : Nat) (payload : Bytes) : Bytes :=
  varint (num * 8 + 2) ++ (varint payload.length ++ payload)

/-- A message body = its fields in the order written. -/
def serialize : List (Nat × Bytes) → Bytes
  | [] => []
  | (k, p) :: fs => ld k p ++ serialize fs

/-- `optional string` field `k`. -/
def optField (k : Nat) : Option Name → List (Nat × Bytes)
  | none => []
  | some n => [(k, n)]

/-- A message with only `optional string name = 1` set (`FieldDescriptorProto`,
`OneofDescriptorProto`, `EnumValueDescriptorProto`, `MethodDescriptorProto` skeletons). -/
def encNamed (o : Option Name) : Bytes := serialize (optField 1 o)

/-- `EnumDescriptorProto`: name = 1, value = 2. -/
def encEnum (e : EnumD) : Bytes :=
  serialize (optField 1 e.name ++ e.values.map (fun v => (2, encNamed v)))

mutual
/-- `DescriptorProto`: name = 1, field = 2, nested_type = 3, enum_type = 4, oneof_decl = 8. -/
def encMsg : Msg → Bytes
  | .mk name nested enums fields oneofs =>
    serialize (optField 1 name ++ (fields.map (fun f => (2, encNamed f)) ++
      (encMsgs 3 nested ++ (enums.map (fun e => (4, encEnum e)) ++
        oneofs.map (fun o => (8, encNamed o))))))
/-- the messages of a list as repeated field `k` -/
def encMsgs (k : Nat) : MsgList → List (Nat × Bytes)
  | .nil => []
  | .cons m ms => (k, encMsg m) :: encMsgs k ms
end

/-- `ServiceDescriptorProto`: name = 1, method = 2. -/
def encService (s : Service) : Bytes :=
  serialize (optField 1 s.name ++ s.methods.map (fun m => (2, encNamed m)))

/-- `FileDescriptorProto`: name = 1, package = 2, message_type = 4, enum_type = 5, service = 6. -/
def encFile (f : File) : Bytes :=
  serialize (optField 1 f.name ++ (optField 2 f.package ++ (encMsgs 4 f.messages ++
    (f.enums.map (fun e => (5, encEnum e)) ++ f.services.map (fun s => (6, encService s))))))

/-- 64-bit FNV-1a, the digest under which the correspondence run compares answer bytes. -/
def fnv1a (b : Bytes) : UInt64 :=
  b.foldl (fun h x => (h ^^^ x.toUInt64) * 0x100000001b3) 0xcbf29ce484222325

end ReflWire
