import TonicModel.Basic.Bytes
/-
Model of tonic's request routing (C10), following the code that exists:
  * `service/router.rs::Routes::add_service` — one axum route `/{NAME}/{*rest}` per service
    (`route_service` panics when the same route is inserted twice), fallback `unimplemented`;
  * matchit's rule for such a route: the literal `/NAME/` must be a *proper* prefix of the raw
    request path (the catch-all `{*rest}` does not match the empty string); comparison is
    byte-wise on the raw path — no case folding, no percent-decoding, no segment normalisation;
  * tonic-build `server.rs`: generated `Service::call` — `match req.uri().path()` against the
    literals `"/" ++ NAME ++ "/" ++ method` (first arm that is equal), default arm answers
    `grpc-status: 12` without touching the handler;
  * `NamedService` for `InterceptedService<S, I>` and `Layered<_, S>`: `NAME = S::NAME`, `call`
    hands the request (same URI) to the inner service.
Names are byte strings.  The model is claimed for names without `/`, `{`, `}` (every protobuf
full name); other names would be route *patterns* for matchit and are outside the model.
-/
namespace Router

def slash : UInt8 := 47

/-- A generated server: the advertised `NAME` and the route names of its methods. -/
structure Svc where
  name : Bytes
  methods : List Bytes
deriving DecidableEq, Repr

/-- What happens to one request. -/
inductive Outcome
  /-- the handler of `method` of service `svc` ran (exactly one handler, once) -/
  | handler (svc method : Bytes)
  /-- routed to service `svc`, whose generated `call` took the default arm (grpc-status 12) -/
  | svcDefault (svc : Bytes)
  /-- no route matched: the router's `unimplemented` fallback answered (grpc-status 12) -/
  | fallback
  /-- registration itself panicked (axum: conflicting route) -/
  | panic
deriving DecidableEq, Repr

/-- The service whose `call` was entered, if any. -/
def Outcome.routedTo : Outcome → Option Bytes
  | .handler s _ => some s
  | .svcDefault s => some s
  | _ => none

/-- The handler that ran, if any. -/
def Outcome.handlerRan : Outcome → Option (Bytes × Bytes)
  | .handler s m => some (s, m)
  | _ => none

/-- grpc-status set by the routing layer itself (`none`: the handler's own status, or no
response at all). -/
def Outcome.routerStatus : Outcome → Option Nat
  | .svcDefault _ => some 12
  | .fallback => some 12
  | _ => none

/-- The literal part of the route `/{NAME}/{*rest}`. -/
def routePrefix (name : Bytes) : Bytes := slash :: (name ++ [slash])

/-- matchit on `/{NAME}/{*rest}`: literal prefix, then a non-empty catch-all. -/
def routeMatches (name path : Bytes) : Bool :=
  (routePrefix name).isPrefixOf path && decide ((routePrefix name).length < path.length)

/-- The generated `match req.uri().path() { "/NAME/M1" => …, "/NAME/M2" => …, _ => 12 }`. -/
def Svc.call (s : Svc) (path : Bytes) : Outcome :=
  match s.methods.find? (fun m => path == routePrefix s.name ++ m) with
  | some m => .handler s.name m
  | none => .svcDefault s.name

/-- `true` iff some name occurs twice (axum then panics in `route_service`). -/
def hasDup : List Bytes → Bool
  | [] => false
  | n :: ns => ns.contains n || hasDup ns

/-- `Routes` built by `add_service` in list order, then one request. -/
def dispatch (reg : List Svc) (path : Bytes) : Outcome :=
  if hasDup (reg.map Svc.name) then .panic
  else
    match reg.find? (fun s => routeMatches s.name path) with
    | some s => s.call path
    | none => .fallback

/-- Services as they are actually registered: possibly wrapped in NAME-propagating adapters. -/
inductive Wrapped
  | gen (s : Svc)
  /-- `InterceptedService<S, I>` with an accepting interceptor (rejection is C12's subject) -/
  | intercepted (inner : Wrapped)
  /-- `Layered<L::Service, S>` from `named_layer` with a pass-through layer -/
  | layered (inner : Wrapped)
deriving Repr

/-- `const NAME: &str = S::NAME` -/
def Wrapped.name : Wrapped → Bytes
  | .gen s => s.name
  | .intercepted w => w.name
  | .layered w => w.name

/-- `call` rebuilds the request with the same URI and hands it to the inner service. -/
def Wrapped.call : Wrapped → Bytes → Outcome
  | .gen s, p => s.call p
  | .intercepted w, p => w.call p
  | .layered w, p => w.call p

def Wrapped.base : Wrapped → Svc
  | .gen s => s
  | .intercepted w => w.base
  | .layered w => w.base

def dispatchW (reg : List Wrapped) (path : Bytes) : Outcome :=
  if hasDup (reg.map Wrapped.name) then .panic
  else
    match reg.find? (fun s => routeMatches s.name path) with
    | some s => s.call path
    | none => .fallback

/-- Names for which the model is claimed: they contain no route-pattern characters. -/
def validName (n : Bytes) : Bool :=
  !n.isEmpty && !n.contains slash && !n.contains 123 && !n.contains 125

end Router
