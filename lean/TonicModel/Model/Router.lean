import TonicModel.Basic.Bytes
/-
Model of tonic's request routing (C10), following the code that exists:
  * `service/router.rs::Routes::add_service` — one axum route `/{NAME}/{*rest}` per service
    (`route_service` panics when the same route is inserted twice), fallback `unimplemented`;
  * matchit's rule for such a route: the literal `/NAME/` must be a *proper* prefix of the raw
    request path (the catch-all `{*rest}` does not match the empty string); comparison is
    byte-wise on the raw path — no case folding, no percent-decoding, no segment normalisation;
  * tonic-build `server.rs`: generated `Service::call` — `match req.uri().path()` against the
    literals `"/" ++ NAME ++ "/" ++ method` (first arm that is equal), default arm answers
    `grpc-status: 12` without touching the handler;
  * `NamedService` for `InterceptedService<S, I>` and `Layered<_, S>`: `NAME = S::NAME`, `call`
    hands the request (same URI) to the inner service.
Names are byte strings.  The model is claimed for names without `/`, `{`, `}` (every protobuf
full name); other names would be route *patterns* for matchit and are outside the model.
-/
namespace Router

def slash : UInt8 := 47

/-- A generated server: the advertised `NAME` and the route names of its methods. -/
structure Svc where
  name : Bytes
  methods : List Bytes
deriving DecidableEq, Repr

/-- What happens to one request. -/
inductive Outcome
  /-- the handler of `method` of service `svc` ran (exactly one handler, once) -/
  | handler (svc method : Bytes)
  /-- routed to service `svc`, whose generated `call` took the default arm (grpc-status 12) -/
  | svcDefault (svc : Bytes)
  /-- no route matched: the router's `unimplemented` fallback answered (grpc-status 12) -/
  | fallback
  /-- registration itself panicked (axum: conflicting route) -/
  | panic
deriving DecidableEq, Repr

/-- The service whose `call` was entered, if any. -/
def Outcome.routedTo : Outcome → Option Bytes
  | .handler s _ => some s
  | .svcDefault s => some s
  | _ => none

/-- The handler that ran, if any. -/
def Outcome.handlerRan : Outcome → Option (Bytes × Bytes)
  | .handler s m => some (s, m)
  | _ => none

/-- grpc-status set by the routing layer itself (`none`: the handler's own status, or no
response at all). -/
def Outcome.routerStatus : Outcome → Option Nat
  | .svcDefault _ => some 12
  | .fallback => some 12
  | _ => none

/-- The literal part of the route `/{NAME}/{*rest}`. -/
def routePrefix (name : Bytes) : Bytes := slash :: (name ++ [slash])

/-- matchit on `/{NAME}/{*rest}`: literal prefix, then a non-empty catch-all. -/
def routeMatches (name path : Bytes) : Bool :=
  (routePrefix name).isPrefixOf path && decide ((routePrefix name).length < path.length)

/-- The generated `match req.uri().path() { "/NAME/M1" => …, "/NAME/M2" => …, _ => 12 }`. -/
def Svc.call (s : Svc) (path : Bytes) : Outcome :=
  match s.methods.find? (fun m => path == routePrefix s.name ++ m) with
  | some m => .handler s.name m
  | none => .svcDefault s.name

/-- `true` iff some name occurs twice (axum then panics in `route_service`). -/
def hasDup : List Bytes → Bool
  | [] => false
  | n :: ns => ns.contains n || hasDup ns

/-- `Routes` built by `add_service` in list order, then one request. -/
def dispatch (reg : List Svc) (path : Bytes) : Outcome :=
  if hasDup (reg.map Svc.name) then .panic
  else
    match reg.find? (fun s => routeMatches s.name path) with
    | some s => s.call path
    | none => .fallback

/-- Services as they are actually registered: possibly wrapped in NAME-propagating adapters. -/
inductive Wrapped
  | gen (s : Svc)
  /-- `InterceptedService<S, I>` with an accepting interceptor (rejection is C12's subject).
  `extUri`: an `http::Uri` the interceptor left in the extensions of the request it returned
  (it may return a fresh `Request::new(())`, clear or replace the extensions, rewrite the
  metadata — none of that is a URI the code reads) -/
  | intercepted (extUri : Option Bytes) (inner : Wrapped)
  /-- `Layered<L::Service, S>` from `named_layer` with a pass-through layer -/
  | layered (inner : Wrapped)
deriving Repr

/-- `const NAME: &str = S::NAME` -/
def Wrapped.name : Wrapped → Bytes
  | .gen s => s.name
  | .intercepted _ w => w.name
  | .layered w => w.name

/-- `InterceptedService::call` keeps `req.uri().clone()` in a local before the interceptor runs
and rebuilds the request with `into_http(uri, method, version, …)` from that local: the inner
service sees the original path whatever the interceptor returned.  `Layered` hands the request
on untouched. -/
def Wrapped.call : Wrapped → Bytes → Outcome
  | .gen s, p => s.call p
  | .intercepted _ w, p => w.call p
  | .layered w, p => w.call p

def Wrapped.base : Wrapped → Svc
  | .gen s => s
  | .intercepted _ w => w.base
  | .layered w => w.base

def dispatchW (reg : List Wrapped) (path : Bytes) : Outcome :=
  if hasDup (reg.map Wrapped.name) then .panic
  else
    match reg.find? (fun s => routeMatches s.name path) with
    | some s => s.call path
    | none => .fallback

/-- Names for which the model is claimed: they contain no route-pattern characters. -/
def validName (n : Bytes) : Bool :=
  !n.isEmpty && !n.contains slash && !n.contains 123 && !n.contains 125

/-! ### Every way of building the router

`Routes` is a newtype around an `axum::Router`; what answers a request is decided by three things
the router holds: the service routes mounted so far, any plain routes a user put on the
`axum::Router` himself, and the fallback.  `Routes::default()` is the only place that installs
tonic's `unimplemented` fallback; `Routes::from(axum::Router)` adopts the router it is given
*as it is* (with axum's own 404 fallback, or the user's).  Everything else — `Routes::new`,
`add_service`, `RoutesBuilder`, `prepare`, `into_axum_router` and back, the three
`transport::Server` entry points and `Router::add_service` / `add_optional_service` — only
passes the router on or mounts one more service route. -/

/-- Who answers a path that matches no route. -/
inductive Fallback
  /-- tonic's `unimplemented` handler (installed by `Routes::default`) -/
  | unimplemented
  /-- axum's built-in fallback of `axum::Router::new()`: bare `404 Not Found` -/
  | axumNotFound
  /-- a fallback the user installed on the `axum::Router` given to `Routes::from` -/
  | user
deriving DecidableEq, Repr

/-- The `axum::Router` inside a `Routes`. -/
structure Table where
  /-- services mounted with `add_service`, oldest first -/
  svcs : List Svc
  /-- the user's own static routes (full paths) -/
  user : List Bytes
  fb : Fallback
deriving DecidableEq, Repr

/-- `Routes::default()`: `axum::Router::new().fallback(unimplemented)` -/
def Table.default : Table := ⟨[], [], .unimplemented⟩

/-- `Routes::add_service`: one more `route_service("/{NAME}/{*rest}", svc)`. -/
def Table.addService (t : Table) (s : Svc) : Table := { t with svcs := t.svcs ++ [s] }

/-- A user-made `axum::Router`: its static routes and whether it has its own fallback. -/
structure UserRouter where
  routes : List Bytes
  ownFallback : Bool
deriving DecidableEq, Repr

/-- `impl From<axum::Router> for Routes`: `Self { router }` — nothing is added. -/
def Table.fromAxum (u : UserRouter) : Table :=
  ⟨[], u.routes, if u.ownFallback then .user else .axumNotFound⟩

/-- The value being built. -/
inductive St
  /-- a `Routes` -/
  | routes (t : Table)
  /-- a `RoutesBuilder { routes: Option<Routes> }` -/
  | builder (t : Option Table)
  /-- a `transport::server::Router { server, routes }` -/
  | server (t : Table)
deriving DecidableEq, Repr

/-- The first call. -/
inductive Start
  /-- `Routes::new(svc)` = `Self::default().add_service(svc)` -/
  | routesNew (s : Svc)
  /-- `Routes::default()` -/
  | routesDefault
  /-- `Routes::builder()` = `RoutesBuilder::default()` -/
  | routesBuilder
  /-- `Routes::from(axum_router)` -/
  | fromAxum (u : UserRouter)
  /-- `RoutesBuilder::from(axum_router)` = `Self { routes: Some(router.into()) }` -/
  | builderFromAxum (u : UserRouter)
  /-- `Server::builder().add_service(svc)` = `Router::new(server, Routes::new(svc))` -/
  | serverAddService (s : Svc)
  /-- `Server::builder().add_optional_service(svc)`:
  `svc.map(Routes::new).unwrap_or_default()` -/
  | serverAddOptional (s : Option Svc)
deriving DecidableEq, Repr

def Start.run : Start → St
  | .routesNew s => .routes (Table.default.addService s)
  | .routesDefault => .routes Table.default
  | .routesBuilder => .builder none
  | .fromAxum u => .routes (Table.fromAxum u)
  | .builderFromAxum u => .builder (some (Table.fromAxum u))
  | .serverAddService s => .server (Table.default.addService s)
  | .serverAddOptional (some s) => .server (Table.default.addService s)
  | .serverAddOptional none => .server Table.default

/-- Every later call.  A call that the value at hand does not offer (e.g. `prepare` on a
`transport::server::Router`) does not type-check in Rust; here it leaves the value alone. -/
inductive Op
  /-- `Routes::add_service` / `RoutesBuilder::add_service` / `Router::add_service` -/
  | addService (s : Svc)
  /-- `Router::add_optional_service(svc)`: adds iff `Some` (on a `Routes` / `RoutesBuilder`,
  which have no such call, the harness does `if let Some(s) = svc { add_service(s) }`) -/
  | addOptional (s : Option Svc)
  /-- `Routes::prepare`: `router.with_state(())` -/
  | prepare
  /-- `Routes::from(routes.into_axum_router())` -/
  | axumRoundTrip
  /-- `routes.axum_router_mut()`: the user mounts a static route of his own -/
  | userRoute (p : Bytes)
  /-- `RoutesBuilder::from(routes)` -/
  | intoBuilder
  /-- `RoutesBuilder::from(routes.into_axum_router())` -/
  | intoBuilderViaAxum
  /-- `RoutesBuilder::routes`: `self.routes.unwrap_or_default()` -/
  | builderRoutes
  /-- `Server::builder().add_routes(routes)` -/
  | serverAddRoutes
deriving DecidableEq, Repr

def St.step : St → Op → St
  | .routes t, .addService s => .routes (t.addService s)
  | .builder t, .addService s => .builder (some ((t.getD Table.default).addService s))
  | .server t, .addService s => .server (t.addService s)
  | .routes t, .addOptional (some s) => .routes (t.addService s)
  | .builder t, .addOptional (some s) => .builder (some ((t.getD Table.default).addService s))
  | .server t, .addOptional (some s) => .server (t.addService s)
  | st, .addOptional none => st
  | .routes t, .prepare => .routes t
  | .routes t, .axumRoundTrip => .routes t
  | .routes t, .userRoute p => .routes { t with user := t.user ++ [p] }
  | .routes t, .intoBuilder => .builder (some t)
  | .routes t, .intoBuilderViaAxum => .builder (some t)
  | .builder t, .builderRoutes => .routes (t.getD Table.default)
  | .routes t, .serverAddRoutes => .server t
  | .builder t, .serverAddRoutes => .server (t.getD Table.default)
  | st, _ => st

/-- The router that finally serves: a `RoutesBuilder` is finished with `.routes()`. -/
def St.table : St → Table
  | .routes t => t
  | .builder t => t.getD Table.default
  | .server t => t

def build (start : Start) (ops : List Op) : St := ops.foldl St.step start.run

/-- What happens to one request on a finished router. -/
inductive Answer
  /-- a tonic service route or tonic's fallback answered -/
  | tonic (o : Outcome)
  /-- one of the user's own routes answered -/
  | userRoute (p : Bytes)
  /-- axum's built-in `404 Not Found` (no grpc-status, no content-type) -/
  | axumNotFound
  /-- the user's own fallback answered -/
  | userFallback
deriving DecidableEq, Repr

/-- matchit: inserting the same route twice panics (services and the user's own routes alike);
a static route beats the catch-all of a service route; otherwise as `dispatch`, with the
table's fallback where no route matches. -/
def Table.serve (t : Table) (path : Bytes) : Answer :=
  if hasDup (t.svcs.map Svc.name) || hasDup t.user then .tonic .panic
  else if t.user.contains path then .userRoute path
  else
    match t.svcs.find? (fun s => routeMatches s.name path) with
    | some s => .tonic (s.call path)
    | none =>
      match t.fb with
      | .unimplemented => .tonic .fallback
      | .axumNotFound => .axumNotFound
      | .user => .userFallback

/-- The services a construction mounts, in order. -/
def Start.services : Start → List Svc
  | .routesNew s => [s]
  | .serverAddService s => [s]
  | .serverAddOptional (some s) => [s]
  | _ => []

def Op.services : Op → List Svc
  | .addService s => [s]
  | .addOptional (some s) => [s]
  | _ => []

def mounted (start : Start) (ops : List Op) : List Svc :=
  start.services ++ ops.flatMap Op.services

/-- The construction never touches a user-made `axum::Router`. -/
def Start.tonicOnly : Start → Bool
  | .fromAxum _ => false
  | .builderFromAxum _ => false
  | _ => true

def Op.tonicOnly : Op → Bool
  | .userRoute _ => false
  | _ => true

/-! ### Histories: one router value used many times, cloned, served on several connections

`Routes::call(&mut self, req)` is `RoutesFuture(self.router.call(req))`; axum's `Router::call`
hands the request to its (shared, immutable) route table; `#[derive(Clone)]` on `Routes` copies
the handle.  `transport::Server` clones the (layered) service once per connection
(`MakeSvc::call`: `self.inner.clone()`) and puts `RecoverError`, the optional concurrency limit,
`GrpcTimeout`, `ConnectInfo` and the trace hook (`Svc::call`: takes the request apart and puts it
together again around `trace_fn`) in front — none of them looks at the path.  So a process is a
list of router *values*; a call answers from the value it is made on and changes no value; a
clone adds a value equal to the one cloned. -/

/-- One use of a router value (`v` = index of the value: 0 is the one that was built). -/
inductive Use
  /-- `value.call(req)` / `value.ready().await.call(req)` / one stream on a connection whose
  service is that value -/
  | call (v : Nat) (path : Bytes)
  /-- `value.clone()` — also what accepting a connection does -/
  | clone (v : Nat)
deriving DecidableEq, Repr

/-- The values alive in the process. -/
structure Proc where
  vals : List Table
deriving Repr

def Proc.clone (p : Proc) (v : Nat) : Proc :=
  match p.vals[v]? with
  | some t => ⟨p.vals ++ [t]⟩
  | none => p

/-- Every request of the history with its answer, in order (a use of a value that does not
exist answers nothing). -/
def Proc.answers : Proc → List Use → List (Bytes × Answer)
  | _, [] => []
  | p, .call v path :: us =>
    (match p.vals[v]? with
     | some t => [(path, t.serve path)]
     | none => []) ++ Proc.answers p us
  | p, .clone v :: us => Proc.answers (p.clone v) us

/-- Reconfigured after use: rounds of uses, each followed by `add_service(s)` on the built value
(`Routes::add_service` takes the value and returns it with one more route; `RoutesBuilder::from`
+ `add_service` + `routes()` does the same), then a last round of uses.  Clones made in an
earlier round stay what they were; they are not used again here. -/
def Proc.rounds (t : Table) : List (List Use × Svc) → List Use → List (Bytes × Answer)
  | [], last => Proc.answers ⟨[t]⟩ last
  | (us, s) :: rest, last => Proc.answers ⟨[t]⟩ us ++ Proc.rounds (t.addService s) rest last

/-- The generated server's public constructors and setters (`new`, `from_arc`,
`with_interceptor`, `accept_compressed`, `send_compressed`, `max_decoding_message_size`,
`max_encoding_message_size`, `Clone`) and the generator's switches `use_arc_self`,
`generate_default_stubs`, `compile_well_known_types`, `disable_comments` leave `NAME` and the
arms of `match req.uri().path()` alone: a server made any of these ways is the same `Svc`. -/
inductive Ctor
  | new | fromArc | withInterceptor | configured | cloned
deriving DecidableEq, Repr

def Svc.made (s : Svc) (_ : Ctor) : Svc := s


end Router
