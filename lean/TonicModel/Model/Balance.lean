import TonicModel.Basic.ConnScript
import TonicModel.Basic.BalScript
import TonicModel.Model.Reconnect
/-
Model of tonic's load-balanced channel (C14):
  * `transport/channel/mod.rs::Channel::balance_list` / `balance_channel` / `balance`:
    `Buffer::pair(BoxService(tower::balance::p2c::Balance::new(discover)))`
  * `channel/service/discover.rs::DynamicServiceStream::poll_next`: `Change::Insert(k, endpoint)`
    becomes `Connection::lazy(endpoint.http_connector(), endpoint)` — a `Reconnect` in LAZY mode
    (`Model/Reconnect.lean`, re-used here unchanged) — `Change::Remove(k)` evicts it
  * `tower::balance::p2c::Balance::{poll_ready, call}` over `tower::ready_cache::ReadyCache`:
    a PENDING set (services whose `poll_ready` last said `Pending`; they are polled — all of them,
    once — every time `Balance::poll_ready` runs, and ONLY then: the buffer worker polls the
    balancer only while a request is waiting) and a READY set (services whose `poll_ready` said
    `Ready(Ok)`; they are not polled again until the balancer picks them, then
    `check_ready_index` polls the picked one once more: still ready → the request goes to it and
    it moves to the pending set; no longer ready → it moves to the pending set and another one is
    picked; none left → `Pending` until a pending service wakes the task).  A service whose
    `poll_ready` returns an ERROR is dropped for good (`"dropping failed endpoint"`), and nothing
    re-inserts it.
    `Connection::load()` is the constant 0, so p2c's choice among the ready services is a coin
    flip (`HasherRng`): here it is a parameter — every theorem is for every choice.
The network is loopback TCP at quiescent points: a connection attempt is decided when it is
started (the SYN is answered — accepted or reset — inside `connect()`), its result is seen by the
next poll of that service; a non-blocking `connect()` never completes within the poll that
started it.
-/
namespace Balance
open ConnScript BalScript Reconnect

/-- One endpoint's side of the network. `alive` is the connection (numbered by the endpoint's own
`Reconnect`, `R.made`) whose peer is still there. -/
structure EW where
  up : Bool
  /-- server generations started so far -/
  gen : Nat
  alive : Option Nat
deriving DecidableEq, Repr

def EW.init : EW := { up := false, gen := 0, alive := none }

def EW.setUp (w : EW) : EW := if w.up then w else { w with up := true, gen := w.gen + 1 }

def EW.setDown (w : EW) : EW := { w with up := false, alive := none }

/-- One endpoint as the balancer holds it. -/
structure EP where
  key : Nat
  /-- is it in the balancer's service set (ready or pending) -/
  member : Bool
  /-- its `Connection`: the `Reconnect` state machine -/
  r : R
  /-- in the READY set (else, if a member: in the pending set) -/
  ready : Bool
  /-- while `r.st = connecting`: the attempt in flight will connect (decided when it started) -/
  flight : Bool
  /-- the connection was established during the current call: hyper's connection task has not
  run yet, so a peer that is already gone has not been noticed (cleared at the end of the call) -/
  fresh : Bool
  w : EW
deriving DecidableEq, Repr

/-- What the quiescent network answers to the questions one `Reconnect::poll_ready` asks:
`MakeSendRequestService::poll_ready` (the `HttpConnector`) is always ready; a fresh `connect()`
is pending; an attempt in flight ends as decided; an established connection is ready iff its peer
is still there — or has not been looked at yet. -/
def answers (e : EP) : List Ans :=
  match e.r.st with
  | .idle => [.ok, .pending]
  | .connecting => if e.flight then [.ok, .ok] else [.err e.r.made]
  | .connected c => if e.w.alive = some c || e.fresh then [.ok] else [.err 0, .ok, .pending]
  | .spent => []

def fatal : Poll → Bool
  | .failed _ => true
  | .panic => true
  | .ready => false
  | .pending => false

/-- One `poll_ready` of this endpoint's `Connection` (by `ReadyCache::poll_pending` for a pending
service, by `check_ready_index` for the picked ready one). A new attempt (`made` grew) is decided
now; an error result makes `tower` drop the service. -/
def advance (e : EP) : EP :=
  match pollReady e.r (answers e) with
  | (r', _, p) =>
    { e with
      r := r'
      ready := decide (p = .ready)
      member := e.member && !fatal p
      flight := if e.r.made < r'.made then e.w.up else e.flight
      fresh := e.fresh || (decide (e.r.st = .connecting) && decide (p = .ready) && r'.error.isNone)
      w := if e.r.made < r'.made ∧ e.w.up = true then { e.w with alive := some r'.made } else e.w }

/-- What one call gets, and (ghost) the endpoint it came from. -/
inductive BRes
  | resp (k gen : Nat)
  /-- the parked failure `x` of a connection attempt of endpoint `k` -/
  | err (k x : Nat)
  /-- sent on a connection of endpoint `k` whose peer was already gone -/
  | lost (k : Nat)
  | hang
  | panic
deriving DecidableEq, Repr

/-- `Balance::call` → `Connection::call` → … → `Reconnect::call` on the picked service, which
then goes back to the pending set (it is not polled again during this call, so what its
connection task has or has not seen no longer matters: `fresh` is cleared). -/
def serveEP (e : EP) : EP × BRes :=
  match Reconnect.call e.r with
  | (r', .error x) => ({ e with r := r', ready := false, fresh := false }, .err e.key x)
  | (r', .sent c) =>
    ({ e with r := r', ready := false, fresh := false },
      if e.w.alive = some c then .resp e.key e.w.gen else .lost e.key)
  | (r', .panic) => ({ e with r := r', ready := false, fresh := false }, .panic)

/-- The balancer picked the ready service `e`: `check_ready_index`, then `call` if it is still
ready, else it is back in the pending set. -/
def tryOne (e : EP) : EP × Option BRes :=
  if (advance e).member && (advance e).ready then
    ((serveEP (advance e)).1, some (serveEP (advance e)).2)
  else (advance e, none)

/-- p2c draws key `k`: the ready member with that key (if any) is tried. -/
def tryKey (k : Nat) : List EP → List EP × Option BRes
  | [] => ([], none)
  | e :: es =>
    if e.key = k && e.member && e.ready then ((tryOne e).1 :: es, (tryOne e).2)
    else ((e :: (tryKey k es).1), (tryKey k es).2)

/-- A sequence of draws, until one is served. -/
def tryKeys : List EP → List Nat → List EP × Option BRes
  | eps, [] => (eps, none)
  | eps, k :: ks =>
    match (tryKey k eps).2 with
    | some r => ((tryKey k eps).1, some r)
    | none => tryKeys (tryKey k eps).1 ks

/-- Whatever is still ready is drawn, in list order, until one is served. -/
def sweep : List EP → List EP × Option BRes
  | [] => ([], none)
  | e :: es =>
    if e.member && e.ready then
      match (tryOne e).2 with
      | some r => ((tryOne e).1 :: es, some r)
      | none => ((tryOne e).1 :: (sweep es).1, (sweep es).2)
    else (e :: (sweep es).1, (sweep es).2)

/-- `Balance::poll_ready`'s loop once the pending set has been polled: draw until a service is
still ready when checked, or none is left. -/
def phase (eps : List EP) (draws : List Nat) : List EP × Option BRes :=
  match (tryKeys eps draws).2 with
  | some r => ((tryKeys eps draws).1, some r)
  | none => sweep (tryKeys eps draws).1

/-- `promote_pending_to_ready`: every pending service is polled once. -/
def pass (eps : List EP) : List EP :=
  eps.map fun e => if e.member && !e.ready then advance e else e

/-- quiescence after the call: hyper's connection tasks have run -/
def settle (eps : List EP) : List EP := eps.map fun e => { e with fresh := false }

/-- The balancer's choices during one call: the keys it draws while the request first waits, and
the key it prefers once a pending service has woken it. -/
structure Choice where
  tries : List Nat
  final : Nat
deriving DecidableEq, Repr

instance : Inhabited Choice := ⟨⟨[], 0⟩⟩

structure B where
  /-- how `discover.rs` builds the connection of an inserted endpoint: `Connection::lazy`
  (`true`, the code) — or a non-lazy `Reconnect` (`false`, the counter-model) -/
  lazyEps : Bool
  eps : List EP
deriving DecidableEq, Repr

def B.init (lazyEps : Bool) : B := { lazyEps := lazyEps, eps := [] }

/-- One request through the buffer worker: `Balance::poll_ready` until ready (the pending set is
polled; ready services are drawn; if none is left the task sleeps until a pending service wakes
it, and all of that happens again), then `Balance::call`. -/
def call (s : B) (ch : Choice) : B × BRes :=
  match (phase (pass s.eps) ch.tries).2 with
  | some r => ({ s with eps := settle (phase (pass s.eps) ch.tries).1 }, r)
  | none =>
    match (phase (pass (phase (pass s.eps) ch.tries).1) [ch.final]).2 with
    | some r => ({ s with eps := settle (phase (pass (phase (pass s.eps) ch.tries).1) [ch.final]).1 }, r)
    | none => ({ s with eps := settle (phase (pass (phase (pass s.eps) ch.tries).1) [ch.final]).1 }, .hang)

/-! ### the script's own steps -/

def onKey (k : Nat) (f : EP → EP) (eps : List EP) : List EP :=
  eps.map fun e => if e.key = k then f e else e

/-- an endpoint the script has not mentioned yet: nothing listens, not in the channel -/
def blank (k : Nat) : EP :=
  { key := k, member := false, r := R.init true, ready := false, flight := false, fresh := false, w := EW.init }

def ensure (k : Nat) (eps : List EP) : List EP :=
  if eps.any (fun e => e.key = k) then eps else eps ++ [blank k]

/-- `Change::Insert`: a new `Connection`, in the pending set. (Inserting a key that is already a
member replaces its service: a reset.) -/
def inserted (lazyEps : Bool) (e : EP) : EP :=
  { e with member := true, r := R.init lazyEps, ready := false, flight := false, fresh := false,
           w := { e.w with alive := none } }

/-- `Change::Remove`: the service is evicted and dropped, and its connection with it. -/
def removed (e : EP) : EP :=
  { e with member := false, ready := false, w := { e.w with alive := none } }

def env (s : B) : BOp → B
  | .up k => { s with eps := onKey k (fun e => { e with w := e.w.setUp }) (ensure k s.eps) }
  | .down k => { s with eps := onKey k (fun e => { e with w := e.w.setDown }) (ensure k s.eps) }
  | .insert k => { s with eps := onKey k (inserted s.lazyEps) (ensure k s.eps) }
  | .remove k => { s with eps := onKey k removed (ensure k s.eps) }
  | .call => s

/-- the number of endpoints in the channel -/
def members (eps : List EP) : Nat := (eps.filter (·.member)).length

/-- A whole script; the `i`-th call uses the `i`-th choice. Each result comes with the number of
endpoints the channel had when the call was issued. A hang ends the observation. -/
def run (s : B) : List BOp → List Choice → List (Nat × BRes)
  | [], _ => []
  | .call :: ops, chs =>
    (members s.eps, (call s (chs.headD ⟨[], 0⟩)).2) ::
      (if (call s (chs.headD ⟨[], 0⟩)).2 = .hang then [] else run (call s (chs.headD ⟨[], 0⟩)).1 ops chs.tail)
  | .up k :: ops, chs => run (env s (.up k)) ops chs
  | .down k :: ops, chs => run (env s (.down k)) ops chs
  | .insert k :: ops, chs => run (env s (.insert k)) ops chs
  | .remove k :: ops, chs => run (env s (.remove k)) ops chs

/-- The state a script leads to (the `i`-th call uses the `i`-th choice). -/
def exec (s : B) : List BOp → List Choice → B
  | [], _ => s
  | .call :: ops, chs => exec (call s (chs.headD ⟨[], 0⟩)).1 ops chs.tail
  | .up k :: ops, chs => exec (env s (.up k)) ops chs
  | .down k :: ops, chs => exec (env s (.down k)) ops chs
  | .insert k :: ops, chs => exec (env s (.insert k)) ops chs
  | .remove k :: ops, chs => exec (env s (.remove k)) ops chs

/-- A whole script as `run`, but the observation goes on after a hang: a caller that waited on an
endpoint-less channel gives up (its request is dropped from the buffer; the worker's `poll_ready`
had nothing to poll), and the script continues from the state that call left behind.  `run` is
what the harness can observe of the real channel; `runAll` exists so that the run-level theorems
speak about EVERY call of a script, not only those up to the first hang. -/
def runAll (s : B) : List BOp → List Choice → List (Nat × BRes)
  | [], _ => []
  | .call :: ops, chs =>
    (members s.eps, (call s (chs.headD ⟨[], 0⟩)).2) :: runAll (call s (chs.headD ⟨[], 0⟩)).1 ops chs.tail
  | .up k :: ops, chs => runAll (env s (.up k)) ops chs
  | .down k :: ops, chs => runAll (env s (.down k)) ops chs
  | .insert k :: ops, chs => runAll (env s (.insert k)) ops chs
  | .remove k :: ops, chs => runAll (env s (.remove k)) ops chs

/-- `m` calls in a row, nothing else happening. -/
def calls (s : B) : List Choice → List BRes
  | [] => []
  | ch :: chs => (call s ch).2 :: calls (call s ch).1 chs

/-- What the caller sees of a result. The code of a failed attempt is that of a refused
connection under `Status::from_error` (`Net.refusedCode`). -/
def BRes.obs : BRes → BObs
  | .resp k g => .resp k g
  | .err _ _ => .error Net.refusedCode
  | .lost _ => .lost
  | .hang => .hang
  | .panic => .garbled

end Balance
