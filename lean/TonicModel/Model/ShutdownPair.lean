import TonicModel.Model.Shutdown
/-
C13, sibling servers.  `Server::add_service(&mut self, svc)` CLONES the builder into the `Router` it
returns, so one builder value commonly yields several servers (public + admin port).  Everything
shutdown-related is created inside `serve_internal`, per serve call: the `watch` channel
(`signal_tx`, `signal_rx`), the two `Fuse`s, the per-connection tasks.  The builder (`Server<L>`)
holds settings only.  Two servers made from one builder are therefore modelled as the PRODUCT of two
copies of the transition system, each step being a step of exactly one of them (`stepPair`).

`stepPairShared` is the counter-model of a builder that carries the watch channel itself (shared by
its clones): the receiver count a serve future waits for is then the count of BOTH servers.
-/
namespace Shutdown

structure Pair where
  a : State
  b : State

inductive Side where
  | a | b
deriving DecidableEq, Repr

def stepPair (p : Pair) (sd : Side) (l : Label) : Option Pair :=
  match sd with
  | .a => (step p.a l).map fun s => { p with a := s }
  | .b => (step p.b l).map fun s => { p with b := s }

def runPair (p : Pair) : List (Side × Label) → Option Pair
  | [] => some p
  | x :: ls => match stepPair p x.1 x.2 with
    | some p' => runPair p' ls
    | none => none

/-- the steps of one of the two servers, in order -/
def labelsOf (sd : Side) (ls : List (Side × Label)) : List Label :=
  ls.filterMap fun x => if x.1 = sd then some x.2 else none

/-- Counter-model: the `watch` channel lives in the builder and is shared by its clones.  Then
`signal_tx.closed().await` of either server waits for the receivers of both (the other server's
`signal_rx` and its connections' watchers included). -/
def stepPairShared (p : Pair) (sd : Side) (l : Label) : Option Pair :=
  match sd, l with
  | .a, .resolve =>
    if !p.a.cfgGraceful || receiverCount p.b == 0 then stepPair p .a .resolve else none
  | .b, .resolve =>
    if !p.b.cfgGraceful || receiverCount p.a == 0 then stepPair p .b .resolve else none
  | sd, l => stepPair p sd l

/-- A run of a pair under an arbitrary pair-step function (`runPair` is `runPairBy stepPair`); used to
run the counter-model `stepPairShared` over whole interleavings. -/
def runPairBy (stp : Pair → Side → Label → Option Pair) (p : Pair) : List (Side × Label) → Option Pair
  | [] => some p
  | x :: ls => match stp p x.1 x.2 with
    | some p' => runPairBy stp p' ls
    | none => none

end Shutdown
