import TonicModel.Basic.ConnScript
import TonicModel.Basic.ErrChain
/-
Model of tonic's reconnecting connection (C14):
  * `transport/channel/service/reconnect.rs::Reconnect::poll_ready`   → `step` / `loop` / `pollReady`
  * `Reconnect::call`                                                 → `call`
  * how `Channel` drives it (`ready_oneshot` for an eager channel, then the `tower::buffer`
    worker: poll until ready, then call; a `poll_ready` error closes the buffer) → `drive`,
    `serve`, `session`, `connectEager`
  * `Status::from_error` / `try_from_error` / `find_status_in_source_chain` /
    `from_hyper_error` / `code_from_h2` (status.rs) over an abstract source chain → `ErrClass.*`
  * the end-to-end environment at quiescent points (`Connector`, `MakeSendRequestService`,
    hyper's `SendRequest::poll_ready`, `Status::from_error`)          → `E2E.*`
The environment is a script: a list of answers, the i-th query gets the i-th answer and an
exhausted script means `Pending` for ever.  The `loop {}` of `poll_ready` is structural recursion
over that list — every iteration asks the environment exactly one question.
-/
namespace Reconnect
open ConnScript

/-- `State<F, S>`.  `spent` is `Connecting(f)` whose future `f` has already completed: the
eager-initial-failure branch returns before `self.state = state` is executed. `connected c`
holds the service produced by the `c`-th `make_service` call. -/
inductive St
  | idle
  | connecting
  | spent
  | connected (c : Nat)
deriving DecidableEq, Repr

structure R where
  st : St
  /-- `error: Option<BoxError>` — a connect error waiting to be handed to the next call -/
  error : Option Nat
  hasBeen : Bool
  isLazy : Bool
  /-- ghost: number of `make_service` calls so far = connector invocations -/
  made : Nat
deriving DecidableEq, Repr

/-- `Reconnect::new` -/
def R.init (isLazy : Bool) : R :=
  { st := .idle, error := none, hasBeen := false, isLazy := isLazy, made := 0 }

inductive Poll
  | ready
  | failed (e : Nat)
  | pending
  /-- a completed future is polled again (an `async` block panics) -/
  | panic
deriving DecidableEq, Repr

inductive Ctl
  | cont
  | done (p : Poll)
deriving DecidableEq, Repr

/-- One iteration of the `loop` in `poll_ready`; `a` answers the single question that iteration
asks (`mk_service.poll_ready` when idle — followed by `make_service` —, the connect future when
connecting, `inner.poll_ready` when connected). -/
def step (r : R) (a : Ans) : R × Ctl :=
  match r.st with
  | .idle =>
    match a with
    | .ok => ({ r with st := .connecting, made := r.made + 1 }, .cont)
    | .err e => (r, .done (.failed e))
    | .pending => (r, .done .pending)
  | .connecting =>
    match a with
    | .ok => ({ r with st := .connected r.made }, .cont)
    | .pending => (r, .done .pending)
    | .err e =>
      if r.hasBeen || r.isLazy then ({ r with st := .idle, error := some e }, .done .ready)
      else ({ r with st := .spent }, .done (.failed e))
  | .connected _ =>
    match a with
    | .ok => ({ r with hasBeen := true }, .done .ready)
    | .pending => ({ r with hasBeen := true }, .done .pending)
    | .err _ => ({ r with hasBeen := true, st := .idle }, .cont)
  | .spent => (r, .done .panic)

/-- The `loop {}` of `poll_ready` (entered with `error = None`). -/
def loop (r : R) : List Ans → R × List Ans × Poll
  | [] =>
    match r.st with
    | .connected _ => ({ r with hasBeen := true }, [], .pending)
    | .spent => (r, [], .panic)
    | .idle => (r, [], .pending)
    | .connecting => (r, [], .pending)
  | a :: env =>
    if r.st = .spent then (r, a :: env, .panic)
    else
      match step r a with
      | (r', .cont) => loop r' env
      | (r', .done p) => (r', env, p)

/-- `Reconnect::poll_ready`. -/
def pollReady (r : R) (env : List Ans) : R × List Ans × Poll :=
  if r.error.isSome then (r, env, .ready) else loop r env

inductive CallOut
  | error (e : Nat)
  | sent (c : Nat)
  /-- `panic!("service not ready; poll_ready must be called first")` -/
  | panic
deriving DecidableEq, Repr

/-- `Reconnect::call`. -/
def call (r : R) : R × CallOut :=
  match r.error with
  | some e => ({ r with error := none }, .error e)
  | none =>
    match r.st with
    | .connected c => (r, .sent c)
    | .idle => (r, .panic)
    | .connecting => (r, .panic)
    | .spent => (r, .panic)

/-! ### Arbitrary use of the two entry points (no discipline assumed) -/

inductive UOp
  | poll
  | call
deriving DecidableEq, Repr

/-- what one operation returned, and the state it left behind -/
inductive UOut
  | polled (p : Poll) (r : R)
  | called (o : CallOut) (r : R)
deriving DecidableEq, Repr

/-- Any sequence of `poll_ready` / `call`, each `poll_ready` asking the environment as many
questions as it needs. A panic ends the observation. -/
def runOps (r : R) (env : List Ans) : List UOp → List UOut × R × List Ans
  | [] => ([], r, env)
  | .poll :: ops =>
    match pollReady r env with
    | (r', env', p) =>
      if p = .panic then ([.polled p r'], r', env')
      else
        match runOps r' env' ops with
        | (os, r'', env'') => (.polled p r' :: os, r'', env'')
  | .call :: ops =>
    match call r with
    | (r', o) =>
      if o = .panic then ([.called o r'], r', env)
      else
        match runOps r' env ops with
        | (os, r'', env'') => (.called o r' :: os, r'', env'')

/-! ### How the channel drives the state machine -/

/-- A caller that keeps polling while it gets `Pending` (the `tower` `Ready` future, the buffer
worker): the same loop, except that a `Pending` answer is followed by another poll. With the
script exhausted it is `Pending` for good. -/
def driveLoop (r : R) : List Ans → R × List Ans × Poll
  | [] => loop r []
  | a :: env =>
    if r.st = .spent then (r, a :: env, .panic)
    else
      match step r a with
      | (r', .cont) => driveLoop r' env
      | (r', .done p) => if p = .pending then driveLoop r' env else (r', env, p)

def drive (r : R) (env : List Ans) : R × List Ans × Poll :=
  if r.error.isSome then (r, env, .ready) else driveLoop r env

/-- The buffer worker handling one request: wait for readiness, then `call`. -/
def serve (r : R) (env : List Ans) : R × List Ans × Res :=
  match drive r env with
  | (r', env', .ready) =>
    match call r' with
    | (r'', .error e) => (r'', env', .err e)
    | (r'', .sent c) => (r'', env', .resp c)
    | (r'', .panic) => (r'', env', .panic)
  | (r', env', .failed e) => (r', env', .closed e)
  | (r', env', .pending) => (r', env', .hang)
  | (r', env', .panic) => (r', env', .panic)

/-! ### The middleware between the buffer worker and `Reconnect` (`Connection::new`) -/

/-- What the worker's `call` returns once it is resolved at a quiescent point. -/
inductive StackOut
  | error (e : Nat)
  | sent (c : Nat)
  /-- `TimeoutExpired` from `GrpcTimeout`'s `ResponseFuture`; the request went out on `c` -/
  | expired (c : Nat)
  | panic
deriving DecidableEq, Repr

/-- `AddOrigin::call` → `UserAgent::call` → `GrpcTimeout::call` → (`ConcurrencyLimit`,
`RateLimit`) → `Reconnect::call`, and the resolution of `GrpcTimeout`'s `ResponseFuture`.
Every layer calls its inner service unconditionally, so `Reconnect::call` runs — and takes a
parked connect error — whatever the deadline is. `ResponseFuture::poll` polls the inner future
first: a parked error is ready at once and wins over any deadline; a request that went out with
a zero effective deadline (`zero`) cannot be answered in time: it is cut off by this
`GrpcTimeout` or by the peer's (CANCELLED, "Timeout expired"). (tokio timers are 1 ms coarse, so
the answer may still win the race; the harness reports both as `expired`: the call got as far
as a live connection and its own deadline decided the rest.) -/
def stackCall (r : R) (zero : Bool) : R × StackOut :=
  match call r with
  | (r', .error e) => (r', .error e)
  | (r', .sent c) => (r', if zero then .expired c else .sent c)
  | (r', .panic) => (r', .panic)

/-- Result of one request through the worker and the middleware. -/
inductive SRes
  | plain (res : Res)
  | expired (c : Nat)
deriving DecidableEq, Repr

/-- The buffer worker handling one request whose effective deadline is zero or not. -/
def serveD (r : R) (env : List Ans) (zero : Bool) : R × List Ans × SRes :=
  match drive r env with
  | (r', env', .ready) =>
    match stackCall r' zero with
    | (r'', .error e) => (r'', env', .plain (.err e))
    | (r'', .sent c) => (r'', env', .plain (.resp c))
    | (r'', .expired c) => (r'', env', .expired c)
    | (r'', .panic) => (r'', env', .plain .panic)
  | (r', env', .failed e) => (r', env', .plain (.closed e))
  | (r', env', .pending) => (r', env', .plain .hang)
  | (r', env', .panic) => (r', env', .plain .panic)

/-- What the environment does to a request once it is out on a connection: the peer answers it,
or the connection dies under it (`x` identifies that error). -/
inductive Fate
  | answered
  | dies (x : Nat)
deriving DecidableEq, Repr

/-- One call of a session: its effective deadline is zero or not, and its fate once sent. -/
structure CallSpec where
  zero : Bool
  fate : Fate
deriving DecidableEq, Repr

inductive XRes
  | plain (res : Res)
  /-- cut off by its own zero deadline after going out on `c` -/
  | expired (c : Nat)
  /-- in flight on `c` when the connection died with error `x` -/
  | lost (c x : Nat)
deriving DecidableEq, Repr

/-- One request of any kind through the worker. The response future of a request that went out
is owned by that request alone: what happens to it afterwards does not touch the state machine. -/
def serveX (r : R) (env : List Ans) (cs : CallSpec) : R × List Ans × XRes :=
  match serveD r env cs.zero with
  | (r', env', .expired c) => (r', env', .expired c)
  | (r', env', .plain (.resp c)) =>
    match cs.fate with
    | .answered => (r', env', .plain (.resp c))
    | .dies x => (r', env', .lost c x)
  | (r', env', .plain (.err e)) => (r', env', .plain (.err e))
  | (r', env', .plain (.closed e)) => (r', env', .plain (.closed e))
  | (r', env', .plain .hang) => (r', env', .plain .hang)
  | (r', env', .plain .panic) => (r', env', .plain .panic)

/-- Sequential calls of any kinds through the buffer (as `session`). -/
def sessionX (r : R) (env : List Ans) : List CallSpec → List XRes × R × List Ans
  | [] => ([], r, env)
  | cs :: rest =>
    match serveX r env cs with
    | (r', env', .plain (.closed e)) => (List.replicate (rest.length + 1) (.plain (.closed e)), r', env')
    | (r', env', .plain .hang) => ([.plain .hang], r', env')
    | (r', env', .plain .panic) => ([.plain .panic], r', env')
    | (r', env', .plain (.resp c)) =>
      match sessionX r' env' rest with
      | (xs, r'', env'') => (.plain (.resp c) :: xs, r'', env'')
    | (r', env', .plain (.err e)) =>
      match sessionX r' env' rest with
      | (xs, r'', env'') => (.plain (.err e) :: xs, r'', env'')
    | (r', env', .expired c) =>
      match sessionX r' env' rest with
      | (xs, r'', env'') => (.expired c :: xs, r'', env'')
    | (r', env', .lost c x) =>
      match sessionX r' env' rest with
      | (xs, r'', env'') => (.lost c x :: xs, r'', env'')

/-- `n` sequential calls through the buffer. After `poll_ready` failed the worker answers every
request with that error without touching the service; a hang ends the observation. -/
def session (r : R) (env : List Ans) : Nat → List Res × R × List Ans
  | 0 => ([], r, env)
  | n + 1 =>
    match serve r env with
    | (r', env', .closed e) => (List.replicate (n + 1) (.closed e), r', env')
    | (r', env', .hang) => ([.hang], r', env')
    | (r', env', .panic) => ([.panic], r', env')
    | (r', env', .resp c) =>
      match session r' env' n with
      | (rs, r'', env'') => (.resp c :: rs, r'', env'')
    | (r', env', .err e) =>
      match session r' env' n with
      | (rs, r'', env'') => (.err e :: rs, r'', env'')

/-- `Connection::connect`: `Reconnect::new(.., is_lazy = false).ready_oneshot()`. -/
def connectEager (env : List Ans) : R × List Ans × Poll := drive (R.init false) env

/-- `Channel::connect` (eager) / `Channel::new` (lazy) over a flat script, then `n` calls. -/
def channelSession (isLazy : Bool) (env : List Ans) (n : Nat) : SessBuild × List Res × R × List Ans :=
  if isLazy then (.none, session (R.init true) env n)
  else
    match connectEager env with
    | (r', env', .ready) => (.ok, session r' env' n)
    | (r', env', .failed e) => (.fail e, [], r', env')
    | (r', env', .pending) => (.hang, [], r', env')
    | (r', env', .panic) => (.panic, [], r', env')

/-! ### How an error is turned into a gRPC status code (`status.rs`) -/
namespace ErrClass
open ErrChain

/-- `Status::code_from_h2`: HTTP/2 reason → gRPC code. -/
def codeFromH2 : Option Nat → Nat
  | none => 2
  | some n =>
    -- NO_ERROR, PROTOCOL_ERROR, INTERNAL_ERROR, FLOW_CONTROL_ERROR, SETTINGS_TIMEOUT,
    -- FRAME_SIZE_ERROR, COMPRESSION_ERROR, CONNECT_ERROR → INTERNAL
    if n = 0 ∨ n = 1 ∨ n = 2 ∨ n = 3 ∨ n = 4 ∨ n = 6 ∨ n = 9 ∨ n = 10 then 13
    else if n = 7 then 14      -- REFUSED_STREAM → UNAVAILABLE
    else if n = 8 then 1       -- CANCEL → CANCELLED
    else if n = 11 then 8      -- ENHANCE_YOUR_CALM → RESOURCE_EXHAUSTED
    else if n = 12 then 7      -- INADEQUATE_SECURITY → PERMISSION_DENIED
    else 2

/-- `Status::from_hyper_error`; `next` is the hyper error's direct source. -/
def fromHyper (h : Hyper) (next : Option Node) : Option Nat :=
  if h.isTimeout then some 14
  else if h.isCanceled then some 1
  else
    match next with
    | some (.h2 r) => some (codeFromH2 r)
    | _ => none

/-- `find_status_in_source_chain`: walk `source()` and stop at the first error that means
something: a `Status` (its code), `TimeoutExpired` (CANCELLED), `ConnectError` (UNAVAILABLE,
without looking at its cause), a `hyper::Error` that `from_hyper_error` can place. -/
def findInChain : List Node → Option Nat
  | [] => none
  | .status c :: _ => some c
  | .timeoutExpired :: _ => some 1
  | .connectError :: _ => some 14
  | .hyper h :: rest =>
    match fromHyper h rest.head? with
    | some c => some c
    | none => findInChain rest
  | .h2 _ :: rest => findInChain rest
  | .io _ :: rest => findInChain rest
  | .tls :: rest => findInChain rest
  | .transport :: rest => findInChain rest
  | .custom _ :: rest => findInChain rest

/-- `Status::try_from_error`: the outermost error itself may be a `Status` or an `h2::Error`
(`Box::downcast`), otherwise the chain is searched. -/
def tryFromError : List Node → Option Nat
  | .status c :: _ => some c
  | .h2 r :: _ => some (codeFromH2 r)
  | chain => findInChain chain

/-- `Status::from_error(..).code()`: UNKNOWN when nothing in the chain is recognised. -/
def fromError (chain : List Node) : Nat := (tryFromError chain).getD 2

/-- The error a caller gets when a connection attempt failed with `cause`, as handed to
`Status::from_error` by `client::Grpc` (a call) or by the application (the `Err` of `connect`):
`transport::Error` (from `Channel`) around the `ConnectError` of `MakeSendRequestService`
(`wrapsAll`: the tree with `fix-C14-connect-error-class.patch`), around the `ConnectError` of
`Connector::call` when the failure came from the connector inside it (`inConnector`), around the
cause. `tower::buffer` and `hyper_timeout::TimeoutConnector` pass errors through unwrapped. -/
def attemptChain (wrapsAll inConnector : Bool) (cause : List Node) : List Node :=
  .transport :: ((if wrapsAll then [Node.connectError] else []) ++
    ((if inConnector then [Node.connectError] else []) ++ cause))

end ErrClass

/-! ### End-to-end environment at quiescent points -/
namespace E2E
open ErrChain

/-- What makes the attempt fail (`accept`: nothing does). `deadPeer`: the HTTP/2 handshake on a
closed transport ends in a `hyper::Error` that is neither a timeout nor a cancellation and whose
source is the `io::Error` of the write; `timeout`: `hyper_timeout`'s `io::ErrorKind::TimedOut`. -/
def causeOf : Outcome → List Node
  | .refuse => [.io .connectionRefused]
  | .accept => []
  | .deadPeer => [.hyper ⟨false, false⟩, .io .brokenPipe]
  | .timeout => [.io .timedOut]

/-- The error chain of a failed attempt. `fixed = false` is the pinned tree: only the user
connector's own error is wrapped in `ConnectError` (by `Connector::call`); a handshake failure
(`hyper::Error`) and a connect timeout (`io::Error` from `hyper_timeout`, which sits outside
`Connector`) are not. `fixed = true` is the tree with `fix-C14-connect-error-class.patch`:
`MakeSendRequestService` wraps every failure of the attempt. -/
def classOf (fixed : Bool) (o : Outcome) : List Node :=
  ErrClass.attemptChain fixed (o = .refuse) (causeOf o)

/-- `Status::from_error` on such an error. -/
def statusCode (chain : List Node) : Nat := ErrClass.fromError chain

structure World where
  /-- outcomes of the connection attempts still to come (past the end: refused) -/
  outcomes : List Outcome
  /-- the connection whose peer is still there -/
  alive : Option Nat
deriving DecidableEq, Repr

def World.next (w : World) : Outcome := w.outcomes.head?.getD .refuse

/-- What the quiescent world answers to the questions one `serve` can ask, in order: the
established connection (if any) is ready iff its peer is still there; the connector is always
ready; the attempt ends as the script says; a fresh connection is ready. -/
def answersFor (w : World) (r : R) : List Ans :=
  (match r.st with
   | .connected c => [if w.alive = some c then Ans.ok else Ans.err 0]
   | .idle => []
   | .connecting => []
   | .spent => []) ++
  [Ans.ok, if w.next.connects then Ans.ok else Ans.err (r.made + 1), Ans.ok]

/-- The world after a `serve` that took the state machine from `r` to `r'`. -/
def World.after (w : World) (r r' : R) : World :=
  if r.made < r'.made then
    { outcomes := w.outcomes.tail, alive := if w.next.connects then some r'.made else none }
  else w

def errorOf (fixed : Bool) (o : Outcome) (e : Nat) : Nat × Option Nat :=
  (statusCode (classOf fixed o), if o = .refuse then some e else none)

def callRes (fixed : Bool) (w : World) : Res → CallRes
  | .resp c => .resp c
  | .err e => .error (errorOf fixed w.next e).1 (errorOf fixed w.next e).2
  | .closed _ => .garbled
  | .hang => .hang
  | .panic => .panic

/-- What a call of kind `k` turns into once it is on a connection: an ordinary call is answered;
a zero-deadline call is cut off by `GrpcTimeout` (see `stackCall`) with the connection left as it
is; a call whose peer dies in flight ends with the connection's error. A call that never got a
connection ends the same way for every kind. -/
def resK (k : CallKind) : CallRes → CallRes
  | .resp c =>
    match k with
    | .plain => .resp c
    | .zeroDeadline => .expired
    | .peerDies => .lost c
  | .error code att => .error code att
  | .hang => .hang
  | .panic => .panic
  | .garbled => .garbled
  | .expired => .expired
  | .lost c => .lost c

/-- The world after a call of kind `k`: the peer of an in-flight call dies. -/
def World.afterK (w : World) (k : CallKind) (res : CallRes) : World :=
  match k, res with
  | .peerDies, .resp _ => { w with alive := none }
  | _, _ => w

/-- One call of kind `k` at a quiescent point. -/
def callK (fixed : Bool) (k : CallKind) (r : R) (w : World) : Ev × R × World :=
  match serve r (answersFor w r) with
  | (r', _, res) =>
    (.call (resK k (callRes fixed w res)) r'.made, r', (w.after r r').afterK k (callRes fixed w res))

def runOps (fixed : Bool) (r : R) (w : World) : List Op → List Ev
  | [] => []
  | .die :: ops => .die :: runOps fixed r { w with alive := none } ops
  | .call :: ops =>
    match serve r (answersFor w r) with
    | (r', _, res) => .call (callRes fixed w res) r'.made :: runOps fixed r' (w.after r r') ops
  | .callZero :: ops =>
    match callK fixed .zeroDeadline r w with
    | (ev, r', w') => ev :: runOps fixed r' w' ops
  | .callDie :: ops =>
    match callK fixed .peerDies r w with
    | (ev, r', w') => ev :: runOps fixed r' w' ops
  | .pair :: ops =>
    -- `tower::buffer`: the worker takes the two requests in the order they were sent and handles
    -- each completely (`poll_ready` until ready, then `call`) before the next: the first request
    -- gets the failure of the attempt it triggered, the second triggers its own
    match serve r (answersFor w r) with
    | (r1, _, res1) =>
      match serve r1 (answersFor (w.after r r1) r1) with
      | (r2, _, res2) =>
        .pair (callRes fixed w res1) (callRes fixed (w.after r r1) res2) r2.made ::
          runOps fixed r2 ((w.after r r1).after r1 r2) ops

/-- `Endpoint::connect_with_connector_lazy` / `connect_with_connector`, then the script. -/
def run (fixed : Bool) (isLazy : Bool) (outcomes : List Outcome) (ops : List Op) : Trace :=
  let w : World := { outcomes := outcomes, alive := none }
  if isLazy then
    { build := .ok, buildAttempts := 0, evs := runOps fixed (R.init true) w ops }
  else
    match connectEager (answersFor w (R.init false)) with
    | (r', _, .ready) =>
      { build := .ok, buildAttempts := r'.made, evs := runOps fixed r' (w.after (R.init false) r') ops }
    | (r', _, .failed e) =>
      { build := .error (errorOf fixed w.next e).1 (errorOf fixed w.next e).2,
        buildAttempts := r'.made, evs := [] }
    | (r', _, .pending) => { build := .hang, buildAttempts := r'.made, evs := [] }
    | (r', _, .panic) => { build := .hang, buildAttempts := r'.made, evs := [] }

end E2E
/-! ### the same channel against a real listening socket (`Endpoint::connect` / `connect_lazy`) -/
namespace Net
open ErrChain

/-- The network as the script drives it. `alive` is the connection whose peer is still there,
`aliveGen` the generation of the server holding it. -/
structure W where
  up : Bool
  gen : Nat
  alive : Option Nat
  aliveGen : Nat
deriving DecidableEq, Repr

/-- What the quiescent network answers: an attempt connects iff a server is listening. -/
def W.world (w : W) : E2E.World :=
  { outcomes := if w.up then [.accept] else [], alive := w.alive }

def W.env (w : W) : NOp → W
  | .up => if w.up then w else { w with up := true, gen := w.gen + 1 }
  | .down => { w with up := false, alive := none }
  | .call => w

/-- The status of a refused connection: the OS error (`ECONNREFUSED`, `ENOENT`, …) inside the
transport's own error type, wrapped by `Connector::call` and `MakeSendRequestService`. Its class
does not depend on the kind (`C14_attempt_error_unavailable`). -/
def refusedCode : Nat :=
  ErrClass.fromError (ErrClass.attemptChain true true [.custom 0, .io .connectionRefused])

/-- One call at a quiescent point: what the caller sees, and the state and network after it. -/
def callStep (r : R) (w : W) : NRes × R × W :=
  match serve r (E2E.answersFor w.world r) with
  | (r', _, .resp c) =>
    (.resp (if w.alive = some c then w.aliveGen else w.gen), r',
      { w with alive := some c, aliveGen := if w.alive = some c then w.aliveGen else w.gen })
  | (r', _, .err _) => (.error refusedCode, r', { w with alive := none })
  | (r', _, .closed _) => (.garbled, r', w)
  | (r', _, .hang) => (.hang, r', w)
  | (r', _, .panic) => (.garbled, r', w)

def runOps (r : R) (w : W) : List NOp → List NRes
  | [] => []
  | .up :: ops => runOps r (w.env .up) ops
  | .down :: ops => runOps r (w.env .down) ops
  | .call :: ops =>
    match callStep r w with
    | (res, r', w') => res :: runOps r' w' ops

/-- `Endpoint::connect_lazy()` / `Endpoint::connect()` after the environment's steps `pre`, then
the script `post`. -/
def run (isLazy : Bool) (pre post : List NOp) : NTrace :=
  let w : W := pre.foldl W.env { up := false, gen := 0, alive := none, aliveGen := 0 }
  if isLazy then { build := .ok, evs := runOps (R.init true) w post }
  else
    match connectEager (E2E.answersFor w.world (R.init false)) with
    | (r', _, .ready) => { build := .ok, evs := runOps r' { w with alive := some r'.made, aliveGen := w.gen } post }
    | (_, _, .failed _) => { build := .error refusedCode, evs := [] }
    | (_, _, .pending) => { build := .hang, evs := [] }
    | (_, _, .panic) => { build := .hang, evs := [] }

end Net
end Reconnect
