import TonicModel.Basic.Bytes
/-
Model of `tonic/src/codec/buffer.rs` (C01 audit aC01): the two length-bounded views a message
codec is handed.

  * `DecodeBuf { buf: &mut BytesMut, len }` — the decoder's window on the stream buffer: the first
    `len` bytes of `buf` (the current message's payload; `buf` goes on with the next frames when
    they arrived in the same DATA chunk).  `remaining() = len`; `chunk()` is `buf.chunk()` cut down
    to `len`; `advance(cnt)` / `copy_to_bytes(n)` `assert!` that they stay inside the window (a
    panic is the outcome `none`) and move `buf` and `len` together.  Everything else of the `Buf`
    API (`get_u8`, `copy_to_slice`, `take`, `has_remaining`, …) is a default method built from
    these, so a decoder is a *read program*: a list of `RdOp`s.
  * `EncodeBuf { buf: &mut BytesMut }` — the encoder's append-only end of the batch buffer (or of the
    scratch buffer when the stream is compressed).  `put_slice`, `put(Buf)` (chunk by chunk),
    `put_bytes`, `chunk_mut` + `advance_mut`, `reserve` all go to the `BytesMut`, which grows on
    demand; an encoder is a *write program*: a list of `WrOp`s.

`Model/Framing.lean` abstracts both away (`Dec.readBody` hands `cd.de` the bytes `buf.take len` and
continues with `buf.drop len`; `encodeItem` appends `cd.ser m` after the 5 reserved bytes).  This file is
free-standing (imported by Props/C01.lean only; the `rdec` / `xenc` correspondence cases are predicted as the
wrapped `dec` / `enc` case).  `C01_decode_buf_is_the_payload_window`, `_no_panic_inside_the_window` and
`C01_encode_buf_appends` are statements about THIS model alone; the theorems that mention both models —
that the abstraction of `Model/Framing.lean` is what every read / write program gets — are
`C01_decode_buf_feeds_readBody`, `_compressed` and `C01_encode_buf_feeds_encodeItem` (Props/C01.lean).
-/
namespace Framing

/-! ### `DecodeBuf` -/

structure DBuf where
  buf : Bytes
  len : Nat
deriving DecidableEq, Repr

def DBuf.remaining (d : DBuf) : Nat := d.len

/-- `chunk()`: `self.buf.chunk()` (a `BytesMut` is contiguous: the whole buffer), cut to `len` -/
def DBuf.chunk (d : DBuf) : Bytes := if d.buf.length > d.len then d.buf.take d.len else d.buf

/-- `advance(cnt)`: `assert!(cnt <= self.len)`; `BytesMut::advance` panics past its end -/
def DBuf.advance (d : DBuf) (cnt : Nat) : Option DBuf :=
  if cnt ≤ d.len ∧ cnt ≤ d.buf.length then some ⟨d.buf.drop cnt, d.len - cnt⟩ else none

/-- `copy_to_bytes(n)`: `assert!(n <= self.len)`; `self.len -= n`; `self.buf.copy_to_bytes(n)` -/
def DBuf.copyToBytes (d : DBuf) (n : Nat) : Option (Bytes × DBuf) :=
  if n ≤ d.len ∧ n ≤ d.buf.length then some (d.buf.take n, ⟨d.buf.drop n, d.len - n⟩) else none

/-- one step of a decoder's reading -/
inductive RdOp
  | chunkAdvance (k : Nat)   -- look at `chunk()`, use its first `k` bytes, `advance(k)`  (get_u8, copy_to_slice, take … are loops of this)
  | copyToBytes (k : Nat)    -- `copy_to_bytes(k)`
deriving DecidableEq, Repr

def RdOp.size : RdOp → Nat
  | .chunkAdvance k => k
  | .copyToBytes k => k

/-- one step: the bytes the decoder got and the view afterwards; `none` = a panic (an `assert!`
failed, or the decoder asked `chunk()` for more bytes than it showed) -/
def DBuf.step (d : DBuf) : RdOp → Option (Bytes × DBuf)
  | .chunkAdvance k =>
    if k ≤ d.chunk.length then (d.advance k).map (fun d' => (d.chunk.take k, d')) else none
  | .copyToBytes k => d.copyToBytes k

/-- a read program: what the decoder has read in all, and the view it leaves -/
def DBuf.read : List RdOp → DBuf → Option (Bytes × DBuf)
  | [], d => some ([], d)
  | op :: ops, d =>
    match d.step op with
    | none => none
    | some (b, d') => (DBuf.read ops d').map (fun r => (b ++ r.1, r.2))

/-! ### `EncodeBuf` -/

/-- one step of an encoder's writing; each appends `bytes` to the `BytesMut` (which grows as needed) -/
inductive WrOp
  | putSlice (b : Bytes)             -- `put_slice`
  | putBuf (segs : List Bytes)       -- `put(src: impl Buf)`: `while src.has_remaining() { put_slice(src.chunk()); advance }`
  | putBytes (v : UInt8) (n : Nat)   -- `put_bytes(val, cnt)`
  | chunkMutAdvance (b : Bytes)      -- write `b` into `chunk_mut()`, `advance_mut(b.len())`
  | reserve (n : Nat)                -- `reserve(additional)`: capacity only
deriving DecidableEq, Repr

def WrOp.bytes : WrOp → Bytes
  | .putSlice b => b
  | .putBuf segs => segs.flatten
  | .putBytes v n => List.replicate n v
  | .chunkMutAdvance b => b
  | .reserve _ => []

/-- `BytesMut::put_slice` -/
def bmPutSlice (buf b : Bytes) : Bytes := buf ++ b

/-- the loop of `BufMut::put` over the source's chunks -/
def bmPutBuf (buf : Bytes) : List Bytes → Bytes
  | [] => buf
  | s :: segs => bmPutBuf (bmPutSlice buf s) segs

def WrOp.apply (buf : Bytes) : WrOp → Bytes
  | .putSlice b => bmPutSlice buf b
  | .putBuf segs => bmPutBuf buf segs
  | .putBytes v n => buf ++ List.replicate n v
  | .chunkMutAdvance b => buf ++ b
  | .reserve _ => buf

/-- a write program on the buffer -/
def writeAll (buf : Bytes) : List WrOp → Bytes
  | [] => buf
  | op :: ops => writeAll (op.apply buf) ops

end Framing
