import TonicModel.Model.Health
/-
Handles and independent pairs around the model of tonic-health/src/server.rs (audit aC18).

`health_reporter()` may be called any number of times; every call builds its own table
(`HealthReporter::new` → a fresh `Arc<RwLock<HashMap>>`) and hands it to one `HealthService`.
A `HealthReporter` is `#[derive(Clone)]` (the clone shares the `Arc`), it has no `Drop` of its
own, and the generated `HealthServer<T>` / `HealthClient<T>` clone an `Arc<T>` resp. the
service.  So the code as it is gives a *handle* no behaviour: which clone a call goes through,
how many clones exist, whether the reporter clones are all gone, whether the client a stream
came from still exists — none of it reaches the table; and two pairs share nothing.

The model below is the operational reading of that: a process holds, per pair, one table `H`
and the set of reporter / client handle variables that currently hold a value.  A health
operation through an empty variable does not happen at all (the harness has nothing to call;
answer `noh`); `next` / `drop` need no handle (the response stream owns its receiver).
-/
namespace Health

/-- One item of a `life` history, addressed to one pair. -/
inductive LOp
  | rep (r : Nat) (o : Op)      -- `set` / `clear` through reporter variable `r`
  | cli (c : Nat) (o : Op)      -- `check` / `watch` through client variable `c`
  | str (o : Op)                -- `next` / `drop`: the stream itself
  | rdrop (r : Nat)             -- `drop(reporters[r])`
  | rclone (r q : Nat)          -- `reporters[r] = reporters[q].clone()` (the old value is dropped)
  | cdrop (c : Nat)             -- `drop(clients[c])`
  | cclone (c q : Nat)          -- `clients[c] = clients[q].clone()`
deriving DecidableEq, Repr

structure LItem where
  pair : Nat
  op : LOp
deriving DecidableEq, Repr

inductive LAns
  | eff (r : Resp)     -- a health operation happened and answered `r`
  | ok                 -- a handle operation happened
  | noh                -- nothing happened: the variable (resp. the source of a clone) is empty
deriving DecidableEq, Repr

/-- which handle variables hold a value -/
abbrev Live := Nat → Bool

def Live.put (l : Live) (r : Nat) (b : Bool) : Live := fun x => if x = r then b else l x

/-- `health_reporter()` as the harness holds it: variables 0 and 1 hold the value and a clone of
it, every other variable is empty. -/
def liveInit : Live := fun x => decide (x < 2)

/-- No variable of the pair holds a value any more (the harness has variables 0, 1, 2 of each
kind): the last `Arc` to the table is gone, the `HashMap` and with it every `watch::Sender` is
dropped.  From then on nothing of the property's vocabulary can be done to the pair except
polling streams that are still open (tonic ends them: every sender is gone), so the harness does
not take that step: dropping the LAST handle of a pair is refused (`noh`).  Dropping every
reporter, or every client, is not. -/
def gone (reps clis : Live) : Bool := !(reps 0 || reps 1 || reps 2 || clis 0 || clis 1 || clis 2)

/-- One `health_reporter()` pair: its table and its handle variables. -/
structure Side where
  h : H
  reps : Live
  clis : Live

def sideInit : Side := ⟨init, liveInit, liveInit⟩

def sideStep (s : Side) : LOp → Side × LAns
  | .rep r o => if s.reps r then ({ s with h := (step s.h o).1 }, .eff (step s.h o).2) else (s, .noh)
  | .cli c o => if s.clis c then ({ s with h := (step s.h o).1 }, .eff (step s.h o).2) else (s, .noh)
  | .str o => ({ s with h := (step s.h o).1 }, .eff (step s.h o).2)
  | .rdrop r =>
    if s.reps r && !gone (s.reps.put r false) s.clis then ({ s with reps := s.reps.put r false }, .ok) else (s, .noh)
  | .rclone r q => if s.reps q then ({ s with reps := s.reps.put r true }, .ok) else (s, .noh)
  | .cdrop c =>
    if s.clis c && !gone s.reps (s.clis.put c false) then ({ s with clis := s.clis.put c false }, .ok) else (s, .noh)
  | .cclone c q => if s.clis q then ({ s with clis := s.clis.put c true }, .ok) else (s, .noh)

/-- The process: every pair ever created (pairs the case does not use stay `sideInit`). -/
abbrev L := Nat → Side

def linit : L := fun _ => sideInit

def lstep (s : L) (it : LItem) : L × LAns :=
  (fun p => if p = it.pair then (sideStep (s it.pair) it.op).1 else s p, (sideStep (s it.pair) it.op).2)

def lexec (s : L) : List LItem → L
  | [] => s
  | it :: its => lexec (lstep s it).1 its

/-- answers, each with the pair it belongs to -/
def lrun (s : L) : List LItem → List (Nat × LAns)
  | [] => []
  | it :: its => (it.pair, (lstep s it).2) :: lrun (lstep s it).1 its

/-! The reading the property's oracle is given: the health operations that *happened* on pair
`p`, found by looking at nothing but pair `p`'s own items and variables. -/

def effective (p : Nat) (reps clis : Live) : List LItem → List Op
  | [] => []
  | it :: its =>
    if it.pair = p then
      match it.op with
      | .rep r o => if reps r then o :: effective p reps clis its else effective p reps clis its
      | .cli c o => if clis c then o :: effective p reps clis its else effective p reps clis its
      | .str o => o :: effective p reps clis its
      | .rdrop r => effective p (if reps r && !gone (reps.put r false) clis then reps.put r false else reps) clis its
      | .rclone r q => effective p (if reps q then reps.put r true else reps) clis its
      | .cdrop c => effective p reps (if clis c && !gone reps (clis.put c false) then clis.put c false else clis) its
      | .cclone c q => effective p reps (if clis q then clis.put c true else clis) its
    else effective p reps clis its

/-- the answers of the health operations that happened on pair `p`, in order -/
def sideAnswers (p : Nat) (l : List (Nat × LAns)) : List Resp :=
  l.filterMap (fun x => if x.1 = p then (match x.2 with | .eff r => some r | _ => none) else none)

end Health
