import TonicModel.Basic.Bytes
import TonicModel.Basic.Base64
import TonicModel.Basic.HMap
import TonicModel.Model.Status
/-
Model of tonic's metadata layer (C08), following `tonic/src/metadata/{encoding,key,value,map}.rs`
and the places where user metadata is put on / taken off the wire (`request.rs`, `response.rs`,
`client/grpc.rs::prepare_request`, `server/grpc.rs::map_response`, `status.rs`).

A `MetadataMap` is its `http::HeaderMap` (`HMap`); binary values are stored base64-coded.
`Variant.orig` = pinned tree; `Variant.fixed` = with fixes/fix-C08-bin-suffix-case.patch (and the
C04 status patches) applied.
-/
namespace Metadata
open Status (Variant St)

inductive Enc | ascii | binary
deriving DecidableEq, Repr

def binSuffix : Bytes := HMap.name "-bin"

def endsWith (k suffix : Bytes) : Bool :=
  suffix.length ≤ k.length && k.drop (k.length - suffix.length) == suffix

/-- `Binary::is_valid_key(key: &str)`.  Pinned tree: `key.ends_with("-bin")` (case-sensitive);
repaired tree: the last four bytes equal `-bin` ignoring ASCII case. -/
def isBinKey (v : Variant) (k : Bytes) : Bool :=
  match v with
  | .orig => endsWith k binSuffix
  | .fixed => endsWith (k.map Ascii.toLower) binSuffix

/-- `VE::is_valid_key` -/
def validKey (v : Variant) (enc : Enc) (k : Bytes) : Bool :=
  match enc with
  | .binary => isBinKey v k
  | .ascii => !isBinKey v k

/-- `MetadataKey::<VE>::from_bytes`: normalise as a header name, then check the suffix rule -/
def keyFromBytes (v : Variant) (enc : Enc) (src : Bytes) : Option Bytes :=
  match HMap.normName src with
  | none => none
  | some n => if validKey v enc n then some n else none

/-- `MetadataValue::<VE>::try_from(&[u8])`: the stored (wire) form of a value -/
def valueFromBytes (enc : Enc) (src : Bytes) : Option Bytes :=
  match enc with
  | .ascii => if HMap.legalValue src then some src else none
  | .binary => some (B64.encode false src)

/-- `MetadataValue::<VE>::to_bytes` on a stored value -/
def valueToBytes (enc : Enc) (w : Bytes) : Option Bytes :=
  match enc with
  | .ascii => some w
  | .binary => B64.decode w

/-- `VE::values_equal` (`PartialEq` of two metadata values) -/
def valuesEqual (enc : Enc) (a b : Bytes) : Bool :=
  match enc with
  | .ascii => a == b
  | .binary =>
    match B64.decode a, B64.decode b with
    | some x, some y => x == y
    | none, none => true
    | _, _ => false

/-- `Binary::is_empty` / `Ascii::is_empty` -/
def valueIsEmpty (enc : Enc) (w : Bytes) : Bool :=
  match enc with
  | .ascii => w.isEmpty
  | .binary => w.all (· == B64.PAD)

/-! ### accessors with a `&str` key -/

/-- `map.get(key)` / `map.get_bin(key)` -/
def get (v : Variant) (enc : Enc) (ks : Bytes) (m : HMap) : Option Bytes :=
  if validKey v enc ks then
    match HMap.normName ks with
    | some n => HMap.get n m
    | none => none
  else none

/-- `map.get_all(key)` / `map.get_all_bin(key)`, iterated -/
def getAll (v : Variant) (enc : Enc) (ks : Bytes) (m : HMap) : List Bytes :=
  if validKey v enc ks then
    match HMap.normName ks with
    | some n => HMap.getAll n m
    | none => []
  else []

/-- `map.remove(key)` / `map.remove_bin(key)`: the first value, and the map afterwards -/
def remove (v : Variant) (enc : Enc) (ks : Bytes) (m : HMap) : Option Bytes × HMap :=
  if validKey v enc ks then
    match HMap.normName ks with
    | some n => (HMap.get n m, HMap.remove n m)
    | none => (none, m)
  else (none, m)

/-- `map.contains_key(key)` (encoding-agnostic) -/
def containsKey (ks : Bytes) (m : HMap) : Bool :=
  match HMap.normName ks with
  | some n => HMap.hasKey n m
  | none => false

/-- `map.iter()`: every entry presented as `Ascii` or `Binary` by its stored name -/
def iter (v : Variant) (m : HMap) : List (Enc × Bytes × Bytes) :=
  m.map (fun e => (if validKey v .ascii e.1 then Enc.ascii else Enc.binary, e.1, e.2))

/-! ### typed mutation -/

inductive OpResult
  | keyErr | valErr
  | prev (v : Option Bytes)      -- insert: previous first value
  | existed (b : Bool)           -- append: whether the key was present
  | removed (v : Option Bytes)
  | entry (v : Bytes)            -- entry(..).or_insert(..): the first value now stored
deriving DecidableEq, Repr

/-- `map.insert(MetadataKey::from_bytes(key)?, MetadataValue::try_from(val)?)` (resp. `_bin`) -/
def insert (v : Variant) (enc : Enc) (key val : Bytes) (m : HMap) : OpResult × HMap :=
  match keyFromBytes v enc key with
  | none => (.keyErr, m)
  | some n =>
    match valueFromBytes enc val with
    | none => (.valErr, m)
    | some w => (.prev (HMap.get n m), HMap.insert n w m)

/-- `map.append(..)` / `map.append_bin(..)` -/
def append (v : Variant) (enc : Enc) (key val : Bytes) (m : HMap) : OpResult × HMap :=
  match keyFromBytes v enc key with
  | none => (.keyErr, m)
  | some n =>
    match valueFromBytes enc val with
    | none => (.valErr, m)
    | some w => (.existed (HMap.hasKey n m), HMap.append n w m)

/-- `map.entry(key)?.or_insert(MetadataValue::try_from(val)?)` (resp. `entry_bin`), key a `&str` -/
def entryOrInsert (v : Variant) (enc : Enc) (ks val : Bytes) (m : HMap) : OpResult × HMap :=
  if !validKey v enc ks then (.keyErr, m)
  else
    match HMap.normName ks with
    | none => (.keyErr, m)
    | some n =>
      match valueFromBytes enc val with
      | none => (.valErr, m)
      | some w =>
        match HMap.get n m with
        | some cur => (.entry cur, m)
        | none => (.entry w, HMap.insert n w m)

/-! ### carriers -/

def TRAILERS : Bytes := HMap.name "trailers"
def GRPC_CONTENT_TYPE : Bytes := HMap.name "application/grpc"

/-- client: `Request::into_http(.., SanitizeHeaders::Yes)` followed by `prepare_request`'s inserts
(no compression configured) -/
def requestWire (md : HMap) : HMap :=
  HMap.insert Status.CONTENT_TYPE GRPC_CONTENT_TYPE (HMap.insert Status.TE TRAILERS (Status.sanitize md))

/-- server: `Response::into_http` followed by `map_response`'s content-type -/
def responseWire (md : HMap) : HMap :=
  HMap.insert Status.CONTENT_TYPE GRPC_CONTENT_TYPE (Status.sanitize md)

/-- trailers of a successful call: `Status::ok("").to_header_map()` -/
def okTrailers : HMap := [(Status.GRPC_STATUS, [48])]

/-- what a unary client hands to the caller as response metadata: headers merged with trailers -/
def clientUnaryMetadata (respmd : HMap) : HMap := HMap.extend (responseWire respmd) okTrailers

/-- server: `Status::into_http` (trailers-only error response) -/
def errorResponseWire (v : Variant) (st : St) : Except St HMap :=
  Status.addHeader v st [(Status.CONTENT_TYPE, GRPC_CONTENT_TYPE)]

/-! ### typed construction and typed view (what a caller puts in / a receiver takes out) -/

/-- a map built by `append` / `append_bin` calls in order (entries whose key or value is rejected
are skipped, as the `?` in user code would) -/
def buildTyped (v : Variant) (es : List (Enc × Bytes × Bytes)) : HMap :=
  es.foldl (fun m e => (append v e.1 e.2.1 e.2.2 m).2) []

/-- every entry as `iter()` presents it, with `to_bytes()` applied (`none` = undecodable) -/
def typedView (v : Variant) (m : HMap) : List (Enc × Bytes × Option Bytes) :=
  (iter v m).map (fun e => (e.1, e.2.1, valueToBytes e.1 e.2.2))

end Metadata
