/-
Model of tonic's graceful shutdown (C13): the transition system of
`tonic/src/transport/server/mod.rs`

  * `Server::serve_internal`  — the accept loop (`tokio::select!` over the `Fuse`d signal and
    `incoming.next()`), then `signal_tx.send(())`, `drop(signal_rx)`, `signal_tx.closed().await`;
  * `serve_connection`        — one spawned task per accepted connection: `select!` over the hyper
    connection future, the `max_connection_age` sleep and the `Fuse`d `watcher.changed()`, the
    last two calling `conn.graceful_shutdown()`; `drop(watcher)` when the connection future ended;
  * `Fuse`                    — a future that yields `Ready` once and `Pending` ever after.
and of `tonic/src/transport/server/io_stream.rs`
  * `ServerIoStream`          — with a `TlsAcceptor`: streams taken from the inner incoming go into
    a `JoinSet` of handshake tasks; a finished handshake is yielded to the accept loop, a failed
    one is logged; the end of the inner incoming ends the stream at once (`SelectOutput::Done`),
    abandoning handshakes still in the set.  Polled only from the accept loop.

One label = one atomic step of one task.  Labels are of three kinds:
  * environment (what peers, the handler code and the user of `Server` do),
  * tonic (the branches of the two `select!` loops and the code after the accept loop),
  * hyper/h2 (handshake, second GOAWAY, stream accepted, frames written/received, the connection
    future resolving).  Their guards ARE hyper's graceful-shutdown contract as tonic relies on it;
    they are trusted (exercised by the correspondence runs only).  The one that carries the
    property is `hyperConnDone`, the guard of `connBreak`.  They are collected in one object,
    `Hyper` / `hyperModel`, and `stepH H` is the same system over an arbitrary `H`; what `H` has to
    satisfy is `HyperGracefulContract` (Lemmas/ShutdownContract).

`Server::timeout(d)` (`cfgTimeout`): `MakeSvc` wraps every handler in `GrpcTimeout`
(tonic/src/transport/service/grpc_timeout.rs).  Its `ResponseFuture` polls the handler's future first
and a `sleep(d)` armed when the handler was invoked second; if the sleep wins, the handler's future is
dropped and `RecoverError` answers the call with a trailers-only CANCELLED "Timeout expired"
(`Item.expired`).  The timeout covers the RESPONSE FUTURE only — the time until the handler returns
its `Response` (the response head) — never the body of a streaming response: `expire` is enabled only
while `headDone = false`.  Nothing else in the server reads the timeout (in particular not
`serve_connection`: a graceful drain is not bounded by it).

`cfgBiased` selects between the code as found (`false`: `select!` polls its two branches in random
order, so a ready connection can win over a ready signal) and the repaired code (`true`: `biased;`,
signal first — fixes/fix-C13-biased-accept-select.patch).
-/
namespace Shutdown

/-- What a caller can observe of one call, in order. -/
inductive Item where
  | hdr
  | msg (j : Nat)
  | status (code : Nat)
  /-- the server's own answer to a call whose handler did not return its response within
  `Server::timeout`: trailers-only, CANCELLED, "Timeout expired" -/
  | expired
deriving DecidableEq, Repr

structure Call where
  /-- ghost: the full, true outcome the handler is going to produce (fixed when the call is issued) -/
  plan : List Item
  /-- handler phases still to run, each producing a chunk of items -/
  todo : List (List Item)
  /-- items the handler has produced and hyper has written to the stream -/
  sent : List Item
  /-- how many of `sent` the caller has received -/
  recv : Nat
  /-- hyper accepted the stream and tonic invoked the handler -/
  started : Bool
  /-- phases the scenario has released and the handler has not used yet -/
  permits : Nat
  /-- the caller itself gave the call up (dropped the response / its connection) -/
  cancelled : Bool
  /-- request side: how many sends the caller still has to do before its request stream is
  complete (0 for unary and server-streaming calls, whose request is one message sent with the
  call; client-streaming and bidi calls send one request message per `reqSend`, the last one
  half-closes) -/
  reqLeft : Nat
  /-- the handler has returned its `Response` (its first phase ran): `GrpcTimeout`'s
  `ResponseFuture` has resolved with it, the response head is out, what follows is the body -/
  headDone : Bool := false
  /-- the `sleep` that `GrpcTimeout` armed when it invoked the handler has elapsed -/
  headersDeadline : Bool := false
  /-- `GrpcTimeout` gave the call up (`Err(TimeoutExpired)`): the handler's future was dropped and
  the caller is sent `Item.expired` instead of the handler's outcome -/
  expired : Bool := false
deriving Repr

def Call.new (chunks : List (List Item)) (req : Nat) : Call :=
  { plan := chunks.flatten, todo := chunks, sent := [], recv := 0, started := false,
    permits := 0, cancelled := false, reqLeft := req }

/-- The true outcome of the call as things stand: the handler's, unless the server's request
timeout ran out before the handler had returned its response. -/
def Call.outcome (k : Call) : List Item := if k.expired then [.expired] else k.plan

/-- The handler's LAST phase (the one that ends with the status) needs the complete request: a
client-streaming handler answers after it has read the request stream to its end, the bidi
handler sends its status after it has. Earlier phases (headers, response messages) do not. -/
def Call.reqReady (k : Call) : Bool := k.todo.length != 1 || k.reqLeft == 0

/-- From hyper's point of view the stream no longer keeps the connection alive. -/
def Call.settled (k : Call) : Bool :=
  !k.started || k.cancelled || (k.todo.isEmpty && k.recv == k.sent.length)

/-- The caller has received the complete outcome. -/
def Call.complete (k : Call) : Bool :=
  k.todo.isEmpty && k.recv == k.sent.length

structure Conn where
  /-- offered on `incoming`, not yet taken by the accept loop -/
  pending : Bool
  /-- ghost: the shutdown signal had already fired when the connection was offered -/
  offeredAfterSig : Bool
  /-- the accept loop took it and spawned `serve_connection` -/
  accepted : Bool
  /-- the connection task still owns its clone of the `watch::Receiver` -/
  watcher : Bool
  /-- hyper finished the HTTP/2 handshake (state `Serving`) -/
  hs : Bool
  /-- the task's `Fuse`d `watcher.changed()` fired -/
  sawSig : Bool
  /-- the `max_connection_age` sleep has elapsed -/
  ageReady : Bool
  /-- the sleep branch ran (and was replaced by a pending future) -/
  ageFired : Bool
  /-- `conn.graceful_shutdown()` has been called -/
  graceful : Bool
  /-- hyper sent its final GOAWAY: new streams are refused -/
  final : Bool
  /-- the hyper connection future resolved, the task left its loop and dropped the IO -/
  closed : Bool
  /-- the client went away -/
  peerGone : Bool
  calls : List Call
  /-- the server has a `TlsAcceptor`: `ServerIoStream` runs a TLS handshake on this connection (in
  a `JoinSet` task) before it yields it to the accept loop -/
  tls : Bool := false
  /-- `ServerIoStream` took the TCP stream from the inner incoming and spawned its handshake -/
  inSet : Bool := false
  /-- the handshake task finished with `Ok(io)` (still in the `JoinSet` until the loop takes it) -/
  tlsOk : Bool := false
  /-- the client has started to speak TLS (a stalled client has not) -/
  cliGo : Bool := false
  /-- what the client sends is not a TLS handshake -/
  cliBad : Bool := false
deriving Repr

def Conn.new (pending afterSig : Bool) : Conn :=
  { pending := pending, offeredAfterSig := afterSig, accepted := false,
    watcher := false, hs := false, sawSig := false, ageReady := false, ageFired := false,
    graceful := false, final := false, closed := false, peerGone := false, calls := [] }

/-- a connection offered to a server configured with TLS; `go` = the client starts its handshake
at once, `bad` = the client sends something that is not TLS -/
def Conn.newTls (pending afterSig go bad : Bool) : Conn :=
  { Conn.new pending afterSig with tls := true, cliGo := go, cliBad := bad }

/-- hyper's connection future resolves: the peer left, or graceful shutdown was requested and
either the handshake had not completed, or the final GOAWAY is out and every accepted stream has
been answered completely and flushed.  TRUSTED: this is hyper's graceful-shutdown contract
(`HyperSafety.connDone_only` / `HyperLiveness.connDone_when`); clause (a) of C13 — no accepted call
is dropped — is this guard, not something derived from tonic's code. -/
def hyperConnDone (cn : Conn) : Bool :=
  cn.peerGone || (cn.graceful && !cn.hs) || (cn.final && cn.calls.all Call.settled)

structure State where
  /-- `signal.is_some()`: `serve_with_incoming_shutdown` vs `serve_with_incoming` -/
  cfgGraceful : Bool
  /-- the accept loop's `select!` is `biased;` (signal first) -/
  cfgBiased : Bool
  /-- `max_connection_age` is configured -/
  cfgAge : Bool
  /-- `Server::timeout` is configured: every handler runs under `GrpcTimeout` with a sleep -/
  cfgTimeout : Bool := false
  /-- the user's signal future would return `Ready` if polled -/
  sigReady : Bool
  /-- the accept loop's `Fuse` has yielded (its inner future is gone) -/
  sigTaken : Bool
  loopRunning : Bool
  /-- the incoming stream has ended (it yields `None` once the queued items are consumed) -/
  ended : Bool
  /-- accept errors queued on `incoming` -/
  pendingErrs : Nat
  /-- the code after the loop ran: `signal_tx.send(())`, `drop(signal_rx)` -/
  afterDone : Bool
  /-- the watch channel's value was marked changed -/
  sent : Bool
  /-- `serve_internal` still owns the original `signal_rx` -/
  mainRx : Bool
  resolved : Bool
  /-- the scenario lets every handler run without waiting -/
  freeRun : Bool
  /-- ghost: number of accepted connections whose IO was still open when the future resolved -/
  openAtResolve : Nat
  conns : List Conn
deriving Repr

def init (graceful biased age : Bool) (timeout : Bool := false) : State :=
  { cfgGraceful := graceful, cfgBiased := biased, cfgAge := age, cfgTimeout := timeout,
    sigReady := false,
    sigTaken := false, loopRunning := true, ended := false, pendingErrs := 0, afterDone := false,
    sent := false, mainRx := true, resolved := false, freeRun := false, openAtResolve := 0,
    conns := [] }

/-- `signal_tx.receiver_count()` -/
def receiverCount (s : State) : Nat :=
  (if s.mainRx then 1 else 0) + s.conns.countP (·.watcher)

def Conn.isOpen (cn : Conn) : Bool := cn.accepted && !cn.closed

def openCount (s : State) : Nat := s.conns.countP Conn.isOpen

/-- The signal branch of the accept loop's `select!` would complete if polled. -/
def sigBranchReady (s : State) : Bool := s.sigReady && !s.sigTaken

/-- The `incoming.next()` branch may be the one `select!` completes. -/
def incomingBranch (s : State) : Bool := s.loopRunning && !(s.cfgBiased && sigBranchReady s)

inductive Label where
  -- environment
  | offer | offerTls (go bad : Bool) | clientHello (c : Nat) | sigFire | endIncoming | acceptErr
  | issue (c : Nat) (chunks : List (List Item)) (req : Nat)
  | reqSend (c j : Nat)
  | permit (c j : Nat) | freeRun | peerDrop (c : Nat) | cancel (c j : Nat) | ageTick (c : Nat)
  | deadlineTick (c j : Nat)
  -- tonic: serve_internal
  | loopSig | loopAccept (c : Nat) | loopErr | loopEnd | afterLoop | resolve
  -- tonic: ServerIoStream with a TlsAcceptor (io_stream.rs); the handshake itself is rustls
  | tlsTake (c : Nat) | tlsDone (c : Nat) | tlsFail (c : Nat)
  -- tonic: serve_connection
  | connSig (c : Nat) | connAge (c : Nat) | connBreak (c : Nat) | connDropWatcher (c : Nat)
  -- hyper / h2 (trusted contract)
  | hsDone (c : Nat) | final (c : Nat) | callStart (c j : Nat) | produce (c j : Nat)
  | deliver (c j : Nat)
  -- tonic: GrpcTimeout (the handler's response future lost against the `Server::timeout` sleep)
  | expire (c j : Nat)
deriving Repr

/-- Steps taken by the server process itself (tonic + hyper + handler code), as opposed to inputs
from peers, the scenario and the clock. -/
def Label.internal : Label → Bool
  | .offer | .offerTls .. | .clientHello .. | .sigFire | .endIncoming | .acceptErr | .issue ..
  | .reqSend .. | .permit .. | .freeRun
  | .peerDrop .. | .cancel .. | .ageTick .. | .deadlineTick .. => false
  | _ => true

def updConn (s : State) (c : Nat) (guard : Conn → Bool) (f : Conn → Conn) : Option State :=
  match s.conns[c]? with
  | some cn => if guard cn then some { s with conns := s.conns.set c (f cn) } else none
  | none => none

def updCall (s : State) (c j : Nat) (guard : Conn → Call → Bool) (f : Call → Call) :
    Option State :=
  match s.conns[c]? with
  | some cn =>
    match cn.calls[j]? with
    | some k =>
      if guard cn k then
        some { s with conns := s.conns.set c { cn with calls := cn.calls.set j (f k) } }
      else none
    | none => none
  | none => none

def Call.produce (k : Call) : Call :=
  match k.todo with
  | ch :: rest =>
    { k with todo := rest, sent := k.sent ++ ch, permits := k.permits - 1, headDone := true }
  | [] => k

/-- `GrpcTimeout`'s `ResponseFuture` returns `Err(TimeoutExpired)`: the handler's future is dropped
(nothing more of its plan will be produced) and `RecoverError` writes the trailers-only answer. -/
def Call.expire (k : Call) : Call :=
  { k with todo := [], sent := k.sent ++ [.expired], expired := true }

def step (s : State) : Label → Option State
  -- ---------------------------------------------------------------- environment
  | .offer =>
    -- a connection offered to an ended stream / a dropped stream is simply dropped
    some { s with conns := s.conns ++ [Conn.new (!s.ended && !s.resolved) s.sigReady] }
  | .offerTls go bad =>
    some { s with conns := s.conns ++ [Conn.newTls (!s.ended && !s.resolved) s.sigReady go bad] }
  | .clientHello c =>
    -- a client that had connected without speaking starts its TLS handshake
    updConn s c (fun cn => cn.tls && !cn.cliGo) (fun cn => { cn with cliGo := true })
  | .sigFire =>
    if s.cfgGraceful && !s.sigReady then some { s with sigReady := true } else none
  | .endIncoming => if !s.ended then some { s with ended := true } else none
  | .acceptErr =>
    if !s.ended && !s.resolved then some { s with pendingErrs := s.pendingErrs + 1 } else none
  | .issue c chunks req =>
    updConn s c (fun _ => true) (fun cn => { cn with calls := cn.calls ++ [Call.new chunks req] })
  | .reqSend c j =>
    -- the caller sends the next message of its request stream (the last one half-closes)
    updCall s c j (fun _ k => decide (0 < k.reqLeft)) (fun k => { k with reqLeft := k.reqLeft - 1 })
  | .permit c j => updCall s c j (fun _ _ => true) (fun k => { k with permits := k.permits + 1 })
  | .freeRun => some { s with freeRun := true }
  | .peerDrop c =>
    updConn s c (fun cn => !cn.peerGone)
      (fun cn => { cn with peerGone := true,
                           calls := cn.calls.map (fun k => { k with cancelled := true }) })
  | .cancel c j => updCall s c j (fun _ _ => true) (fun k => { k with cancelled := true })
  | .ageTick c =>
    -- virtual time passes: the `max_connection_age` sleep of connection `c` (armed when the
    -- connection task was spawned) has elapsed
    if s.cfgAge then
      updConn s c (fun cn => cn.accepted && !cn.closed) (fun cn => { cn with ageReady := true })
    else none
  | .deadlineTick c j =>
    -- virtual time passes: the `Server::timeout` sleep that `GrpcTimeout` armed when it invoked
    -- the handler of call `j` has elapsed
    if s.cfgTimeout then
      updCall s c j (fun _ k => k.started) (fun k => { k with headersDeadline := true })
    else none
  -- ---------------------------------------------------------------- serve_internal
  | .loopSig =>
    -- `_ = &mut sig => break`
    if s.loopRunning && sigBranchReady s then
      some { s with loopRunning := false, sigTaken := true }
    else none
  | .loopAccept c =>
    -- `Some(Ok(io))` … `serve_connection(.., graceful.then(|| signal_rx.clone()), ..)`
    -- with TLS: `SelectOutput::Io(io)`, a finished handshake taken out of the `JoinSet`
    if incomingBranch s then
      updConn s c (fun cn => cn.pending && (!cn.tls || cn.tlsOk))
        (fun cn => { cn with pending := false, accepted := true, watcher := s.cfgGraceful })
    else none
  | .loopErr =>
    -- `Some(Err(e)) => continue` (recoverable kinds are already swallowed by `ServerIoStream`)
    if incomingBranch s && decide (0 < s.pendingErrs) then
      some { s with pendingErrs := s.pendingErrs - 1 }
    else none
  | .loopEnd =>
    -- `None => break`: only once everything queued before the end has been consumed.  With TLS
    -- (`SelectOutput::Done`) handshakes still in the `JoinSet` do not hold the end back: they are
    -- abandoned (dropped with `incoming` when the serve future returns).
    if incomingBranch s && s.ended && s.pendingErrs == 0
        && s.conns.all (fun cn => !cn.pending || cn.inSet)
    then some { s with loopRunning := false }
    else none
  | .afterLoop =>
    -- `if graceful { let _ = signal_tx.send(()); drop(signal_rx); … }`
    if !s.loopRunning && !s.afterDone then
      some { s with afterDone := true, sent := s.cfgGraceful, mainRx := false }
    else none
  | .resolve =>
    -- `signal_tx.closed().await` completes iff the receiver count is 0; `Ok(())`.
    -- Returning drops `incoming` and whatever is still queued on it.
    if s.afterDone && !s.resolved && (!s.cfgGraceful || receiverCount s == 0) then
      some { s with resolved := true, openAtResolve := openCount s,
                    conns := s.conns.map (fun cn =>
                      { cn with pending := false }) }
    else none
  -- ---------------------------------------------------------------- ServerIoStream (TLS)
  | .tlsTake c =>
    -- `SelectOutput::Incoming(stream)`: `tasks.spawn(tls.accept(stream))`, wake, `Pending`.
    -- `ServerIoStream` is polled only from the accept loop's `incoming.next()` branch.
    if incomingBranch s then
      updConn s c (fun cn => cn.tls && cn.pending && !cn.inSet) (fun cn => { cn with inSet := true })
    else none
  | .tlsDone c =>
    -- the handshake task (spawned: it runs whether or not the loop still polls) finishes `Ok`
    updConn s c (fun cn => cn.inSet && cn.pending && !cn.tlsOk && cn.cliGo && !cn.cliBad
                           && !cn.peerGone)
      (fun cn => { cn with tlsOk := true })
  | .tlsFail c =>
    -- the handshake fails (`SelectOutput::TlsErr`: logged, the loop goes on); the IO is dropped
    updConn s c (fun cn => cn.inSet && cn.pending && !cn.tlsOk && (cn.cliBad || cn.peerGone))
      (fun cn => { cn with pending := false })
  -- ---------------------------------------------------------------- serve_connection
  | .connSig c =>
    -- `_ = &mut sig => conn.as_mut().graceful_shutdown()`
    updConn s c (fun cn => cn.accepted && !cn.closed && cn.watcher && s.sent && !cn.sawSig)
      (fun cn => { cn with sawSig := true, graceful := true })
  | .connAge c =>
    -- `_ = &mut sleep => { conn.as_mut().graceful_shutdown(); sleep.set(pending) }`
    updConn s c (fun cn => cn.accepted && !cn.closed && cn.ageReady && !cn.ageFired)
      (fun cn => { cn with ageFired := true, graceful := true })
  | .connBreak c =>
    -- `rv = &mut conn => break` and the end of the inner block (drops the IO)
    updConn s c (fun cn => cn.accepted && !cn.closed && hyperConnDone cn)
      (fun cn => { cn with closed := true })
  | .connDropWatcher c =>
    -- `drop(watcher)`
    updConn s c (fun cn => cn.closed && cn.watcher) (fun cn => { cn with watcher := false })
  -- ---------------------------------------------------------------- hyper / h2
  | .hsDone c =>
    updConn s c (fun cn => cn.accepted && !cn.closed && !cn.hs && !cn.graceful && !cn.peerGone)
      (fun cn => { cn with hs := true })
  | .final c =>
    updConn s c (fun cn => cn.accepted && !cn.closed && cn.hs && cn.graceful && !cn.final)
      (fun cn => { cn with final := true })
  | .callStart c j =>
    updCall s c j
      (fun cn k => cn.accepted && cn.hs && !cn.final && !cn.closed && !cn.peerGone
                   && !k.started && !k.cancelled)
      (fun k => { k with started := true })
  | .produce c j =>
    updCall s c j
      (fun cn k => !cn.closed && k.started && !k.cancelled
                   && ((decide (0 < k.permits) || s.freeRun) && k.reqReady) && !k.todo.isEmpty)
      Call.produce
  | .deliver c j =>
    updCall s c j
      (fun cn k => !cn.closed && !cn.peerGone && !k.cancelled && decide (k.recv < k.sent.length))
      (fun k => { k with recv := k.recv + 1 })
  -- ---------------------------------------------------------------- GrpcTimeout
  | .expire c j =>
    -- `ResponseFuture::poll`: the handler's future is still pending (it has not returned its
    -- response: `headDone = false`) and the sleep is ready: `Err(TimeoutExpired)`.  Once the
    -- response head is out this future no longer exists: a streaming body is out of its reach.
    if s.cfgTimeout then
      updCall s c j
        (fun cn k => !cn.closed && k.started && !k.cancelled && k.headersDeadline && !k.headDone
                     && !k.expired)
        Call.expire
    else none

/-- Everything the transition system takes from hyper / h2 on trust, as ONE object: the enabling
conditions of the five steps that are hyper's to take.  `step` is the transition system with
`hyperModel` (below) plugged in; `stepH H` is the same system over an arbitrary `H`.  What a real
hyper has to satisfy for the theorems to apply is `HyperGracefulContract H`
(Lemmas/ShutdownContract). -/
structure Hyper where
  /-- the connection future (`Connection` of `serve_connection`) resolves -/
  connDone : Conn → Bool
  /-- the HTTP/2 handshake completes (hyper's connection state becomes `Serving`) -/
  handshake : Conn → Bool
  /-- the second, final GOAWAY of a graceful shutdown goes out: new streams are refused from now on -/
  finalGoaway : Conn → Bool
  /-- a new stream is accepted and the service (tonic's router, the handler) is called -/
  acceptStream : Conn → Call → Bool
  /-- the next item written to a stream reaches the caller -/
  deliver : Conn → Call → Bool

/-- hyper as the model has it: the guards written out in `step`. -/
def hyperModel : Hyper where
  connDone := hyperConnDone
  handshake cn := !cn.hs && !cn.graceful && !cn.peerGone
  finalGoaway cn := cn.hs && cn.graceful && !cn.final
  acceptStream cn k := cn.hs && !cn.final && !cn.peerGone && !k.started && !k.cancelled
  deliver cn k := !cn.peerGone && !k.cancelled && decide (k.recv < k.sent.length)

/-- The transition system over an arbitrary hyper: the five hyper steps are enabled by `H` (on an
accepted connection that the task has not left yet), every other step is `step`'s. -/
def stepH (H : Hyper) (s : State) : Label → Option State
  | .connBreak c =>
    updConn s c (fun cn => cn.accepted && !cn.closed && H.connDone cn)
      (fun cn => { cn with closed := true })
  | .hsDone c =>
    updConn s c (fun cn => cn.accepted && !cn.closed && H.handshake cn)
      (fun cn => { cn with hs := true })
  | .final c =>
    updConn s c (fun cn => cn.accepted && !cn.closed && H.finalGoaway cn)
      (fun cn => { cn with final := true })
  | .callStart c j =>
    updCall s c j (fun cn k => cn.accepted && !cn.closed && H.acceptStream cn k)
      (fun k => { k with started := true })
  | .deliver c j =>
    updCall s c j (fun cn k => !cn.closed && H.deliver cn k)
      (fun k => { k with recv := k.recv + 1 })
  | l => step s l

def runH (H : Hyper) (s : State) : List Label → Option State
  | [] => some s
  | l :: ls => match stepH H s l with
    | some s' => runH H s' ls
    | none => none

inductive ReachableH (H : Hyper) (g b a : Bool) : State → Prop
  | init (t : Bool) : ReachableH H g b a (init g b a t)
  | step {s s' : State} (l : Label) :
      ReachableH H g b a s → stepH H s l = some s' → ReachableH H g b a s'

/-- Execute a sequence of labels; `none` if some label was not enabled. -/
def run (s : State) : List Label → Option State
  | [] => some s
  | l :: ls => match step s l with
    | some s' => run s' ls
    | none => none

/-- States reachable from an initial state by any interleaving of enabled steps.  The initial
state is that of a server with the three settings the statements distinguish (`g`, `b`, `a`) and
ANY setting of `Server::timeout` (`t`): whatever is proved of `Reachable g b a` holds with and
without a request timeout configured. -/
inductive Reachable (g b a : Bool) : State → Prop
  | init (t : Bool) : Reachable g b a (init g b a t)
  | step {s s' : State} (l : Label) : Reachable g b a s → step s l = some s' → Reachable g b a s'

end Shutdown
