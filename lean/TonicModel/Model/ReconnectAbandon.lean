import TonicModel.Basic.ConnScript
import TonicModel.Basic.ConnScriptAbandon
import TonicModel.Model.Reconnect
/-
C14, abandoned calls: what `tower::buffer`'s worker and `Reconnect` do when the application drops
the future of a call that is waiting for a connection attempt.

  * the worker (`tower-0.5.3/src/buffer/worker.rs::poll_next_msg`) keeps the request it is waiting
    for readiness with in `current_message`; when it is polled again and finds the request's
    `tx.is_closed()` it drops the request and takes the next one from the queue — WITHOUT touching
    the service. With no further request it does not poll the service at all.
  * `Reconnect` (reconnect.rs) is therefore left in `State::Connecting(f)`: the attempt `f` made
    for the abandoned request stays where it is until the next request's `poll_ready` polls it on.
    Its outcome — the connection, or the error, which `poll_ready` parks and `call` hands out — goes
    to THAT request, which made no attempt of its own.

Only the vocabulary (`AOp`, `AEv`, `ATrace`) is shared with the oracle.
-/
namespace Reconnect.Abandon
open ConnScript Reconnect Reconnect.E2E

/-- The channel at a quiescent point: as in plain scripts, or with an attempt in progress whose
caller has gone (`r.st = .connecting`; it will end as `o`). -/
inductive AS
  | normal (r : R) (w : World)
  | suspended (r : R) (w : World) (o : Outcome)
deriving DecidableEq, Repr

/-- Does a request issued now have to wait for a new connection attempt? -/
def needsAttempt (r : R) (w : World) : Bool :=
  match r.st with
  | .connected c => w.alive != some c
  | .idle => true
  | .connecting => false
  | .spent => false

/-- What the worker's `poll_ready` is answered up to the moment the attempt is in progress: the
dead connection reports its error, the connector is ready; then the attempt is `Pending` (the
script is exhausted). -/
def startAnswers (r : R) : List Ans :=
  (match r.st with
   | .connected _ => [Ans.err 0]
   | .idle => []
   | .connecting => []
   | .spent => []) ++ [Ans.ok]

/-- What the next request's `poll_ready` is answered when it polls the attempt on: its outcome,
then the fresh connection is ready. -/
def resumeAnswers (r : R) (o : Outcome) : List Ans :=
  [if o.connects then Ans.ok else Ans.err r.made, Ans.ok]

/-- A world whose next attempt ends as `o` (to name the class of the error of that attempt). -/
def worldOf (o : Outcome) : World := { outcomes := [o], alive := none }

def runA : AS → List AOp → List AEv
  | _, [] => []
  | .normal r w, .die :: ops => .die :: runA (.normal r { w with alive := none }) ops
  | .normal r w, .call :: ops =>
    match serve r (answersFor w r) with
    | (r', _, res) => .call (callRes true w res) r'.made :: runA (.normal r' (w.after r r')) ops
  | .normal r w, .abandon :: ops =>
    if needsAttempt r w then
      -- the worker polls until the attempt is in progress; the request is dropped; the worker
      -- forgets it without touching the service
      match drive r (startAnswers r) with
      | (r', _, _) =>
        .abandoned r'.made :: runA (.suspended r' { outcomes := w.outcomes.tail, alive := none } w.next) ops
    else
      match serve r (answersFor w r) with
      | (r', _, res) => .call (callRes true w res) r'.made :: runA (.normal r' (w.after r r')) ops
  | .suspended r w o, .die :: ops => .die :: runA (.suspended r { w with alive := none } o) ops
  | .suspended r w o, .call :: ops =>
    match serve r (resumeAnswers r o) with
    | (r', _, res) =>
      .call (callRes true (worldOf o) res) r'.made ::
        runA (.normal r' { w with alive := if o.connects then some r.made else none }) ops
  | .suspended r w o, .abandon :: ops =>
    -- no new attempt is needed: the request waits for the one in progress, like any call
    match serve r (resumeAnswers r o) with
    | (r', _, res) =>
      .call (callRes true (worldOf o) res) r'.made ::
        runA (.normal r' { w with alive := if o.connects then some r.made else none }) ops

/-- The channel once it is built (`none`: `connect` failed, no channel). -/
def built (isLazy : Bool) (outs : List Outcome) : Option AS :=
  let w : World := { outcomes := outs, alive := none }
  if isLazy then some (.normal (R.init true) w)
  else
    match connectEager (answersFor w (R.init false)) with
    | (r', _, .ready) => some (.normal r' (w.after (R.init false) r'))
    | (_, _, .failed _) => none
    | (_, _, .pending) => none
    | (_, _, .panic) => none

/-- `Endpoint::connect_with_connector[_lazy]`, then the script. Building the channel is the plain
model's (`E2E.run` on the empty script). -/
def run (isLazy : Bool) (outs : List Outcome) (ops : List AOp) : ATrace :=
  let t0 := E2E.run true isLazy outs []
  { build := t0.build, buildAttempts := t0.buildAttempts,
    evs := match built isLazy outs with
      | some s => runA s ops
      | none => [] }

end Reconnect.Abandon
