import TonicModel.Basic.RespFrames
import TonicModel.Model.Interceptor
import TonicModel.Model.Status
/-
Model of the places in tonic that SYNTHESISE a gRPC response (as opposed to `server::Grpc`, which
encodes a handler's answer — `Model/Framing.lean`):

  * `tonic/src/service/recover_error.rs` — `RecoverError` / `ResponseFuture::poll` /
    `ResponseBody`, the middleware `transport::Server` puts around every service stack, with
    `Status::try_from_error` and `find_status_in_source_chain` (`status.rs`);
  * `tonic/src/service/router.rs` — the `unimplemented` fallback of `Routes`;
  * `tonic-build/src/server.rs` — the default match arm of a generated server (unknown method of a
    known service);
  * `tonic/src/service/interceptor.rs` — the rejection branch (modelled in `Model/Interceptor`).

An error is seen through its `source()` chain, outermost first; each link is classified the way
`try_from_error` classifies it by downcasting.
-/
namespace RecoverError
open HMapLite HttpLite Interceptor

/-- one error of a `source()` chain, as `Status::try_from_error` can tell them apart -/
inductive Link
  /-- a `tonic::Status` -/
  | status (st : GStatus)
  /-- `tonic::TimeoutExpired` (what `GrpcTimeout` fails with) -/
  | timeout
  /-- `tonic::ConnectError`; `display` is its `to_string()` -/
  | connect (display : Bytes)
  /-- an `h2::Error` with the numeric reason of its reset / go-away; `display` is its `to_string()` -/
  | h2 (reason : Nat) (display : Bytes)
  /-- any other error type (a `hyper::Error` is not modelled) -/
  | opaque
deriving Repr, DecidableEq

/-- `Status::cancelled(TimeoutExpired.to_string())` -/
def timeoutStatus : GStatus :=
  { code := 1, message := str "Timeout expired", details := [], metadata := [] }

/-- `Status::unavailable(connect.to_string())` -/
def connectStatus (display : Bytes) : GStatus :=
  { code := 14, message := display, details := [], metadata := [] }

/-- `Status::from_h2_error` -/
def h2Status (reason : Nat) (display : Bytes) : GStatus :=
  { code := (Status.codeFromH2 .fixed reason).num, message := str "h2 protocol error: " ++ display,
    details := [], metadata := [] }

/-- `find_status_in_source_chain`: walk the chain, first recognisable link wins (a found status
is copied field by field, without its own source). -/
def findStatus : List Link → Option GStatus
  | [] => none
  | .status st :: _ => some st
  | .timeout :: _ => some timeoutStatus
  | .connect d :: _ => some (connectStatus d)
  | .h2 _ _ :: rest => findStatus rest
  | .opaque :: rest => findStatus rest

/-- `Status::try_from_error`: the error itself is a `Status` (same fields as the chain walk
finds) or an `h2::Error` (only at the top), else the chain walk; `none` = `Err(err)`. -/
def tryFromError : List Link → Option GStatus
  | .h2 reason d :: _ => some (h2Status reason d)
  | chain => findStatus chain

/-- What the caller of `RecoverError` gets.  The body is `ResponseBody<B>`: `some b` wraps the
inner service's body, `none` is `ResponseBody::empty()`. -/
inductive Outcome (ρ ε : Type)
  | response (r : Response (Option ρ))
  | error (e : ε)
  | panic
deriving Repr

/-- `ResponseFuture::poll`, given the inner future's result.  `chain e` is the source chain of
`e.into()`. -/
def recoverError {ρ ε : Type} (chain : ε → List Link) : Except ε (Response ρ) → Outcome ρ ε
  | .ok res =>
    .response { status := res.status, version := res.version, headers := res.headers, ext := res.ext,
                body := some res.body }
  | .error e =>
    match tryFromError (chain e) with
    | some st =>
      match statusIntoHttp () st with
      | some r =>
        .response { status := r.status, version := r.version, headers := r.headers, ext := r.ext, body := none }
      | none => .panic
    | none => .error e

/-- `ResponseBody::poll_frame` (and `is_end_stream`): delegate, or end at once for ever -/
def bodyPolled {ρ : Type} (inner : ρ → Nat → List Fr) (b : Option ρ) (extra : Nat) : List Fr :=
  match b with
  | some b => inner b extra
  | none => List.replicate (extra + 1) Fr.eos

/-! ### the other synthesised responses -/

/-- `Routes`' fallback handler `unimplemented()` itself (before axum's routing future touches it) -/
def routesFallback : Option (Response Unit) :=
  statusIntoHttp () { code := 12, message := [], details := [], metadata := [] }

/-- axum's `RouteFuture` adds `content-length` to a response whose body has an exact size hint and
that carries none yet (here: the exactly-empty body). -/
def axumEmpty (r : Response Unit) : Response Unit :=
  { r with headers :=
      if contains (str "content-length") r.headers then r.headers
      else insert (str "content-length") (str "0", false) r.headers }

/-- the default arm of a generated server: `Response::new(Body::default())`, then
`insert(grpc-status, 12)`, `insert(content-type, application/grpc)` -/
def generatedUnimplemented : Response Unit :=
  let r := responseNew ()
  let h := insert nameGrpcStatus (codeHeaderValue 12, false) r.headers
  let h := insert nameContentType (grpcContentType, false) h
  { r with headers := h }

/-- what a peer reads off an HTTP/2 connection: the version is HTTP/2 whatever the service wrote
into `Response::version` -/
def onWire {ρ : Type} (r : Response ρ) : Response ρ := { r with version := 2 }

end RecoverError
