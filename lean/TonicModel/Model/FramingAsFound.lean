import TonicModel.Model.Framing
/-
`Streaming::poll_next` as found on the pinned tree, before the fix "classify a non-200 response by
its HTTP status instead of parsing its body as gRPC frames": `poll_frame` put the DATA of EVERY
response into the buffer, whatever its HTTP status, and `decode_chunk` ran on it before the end of
the body was seen.  Everything else is `Framing.Dec.pollNext`.  Used for the `_asis_fails`
witnesses of C04 only.
-/
namespace Framing

/-- `Streaming::poll_next` as found. -/
def Dec.pollNextAsFound (cd : Codec α) (cfg : DecCfg) (s : DecSt) :
    List BodyEv → DecSt × List BodyEv × Item α
  | [] =>
    match Dec.pre cd cfg s with
    | .out s' o => (s', [], o)
    | .need s' =>
      if s'.buf.isEmpty then Dec.finish cfg s' []
      else ({ s' with ph := .failed none }, [], .err ⟨13, .eof⟩)
  | ev :: rest =>
    match Dec.pre cd cfg s with
    | .out s' o => (s', ev :: rest, o)
    | .need s' =>
      match ev with
      | .pending => (s', rest, .pending)
      | .data c => Dec.pollNextAsFound cd cfg { s' with buf := s'.buf ++ c } rest
      | .trailers t => Dec.finish cfg { s' with trailers := mergeTr s'.trailers t } rest
      | .err st =>
        if cfg.dir = .request ∧ st.code = 1 then Dec.finish cfg s' rest
        else ({ s' with ph := .failed none }, rest, .err st)

/-- `n` successive polls of the stream as found. -/
def Dec.runAsFound (cd : Codec α) (cfg : DecCfg) : Nat → DecSt → List BodyEv → List (Item α)
  | 0, _, _ => []
  | n + 1, s, evs =>
    match Dec.pollNextAsFound cd cfg s evs with
    | (s', evs', o) => o :: Dec.runAsFound cd cfg n s' evs'

end Framing
