import TonicModel.Model.Compression
/-
C05, added by the dimension audit: a response whose HTTP status is not 200, as `client::Grpc`
treats it (`create_response` → `Streaming::new_response(.., status_code, ..)`, `decode.rs`
`poll_frame` / `response`, `status.rs::infer_grpc_status`):

  * `create_response` checks the response's `grpc-encoding` against the accept set FIRST, whatever
    the HTTP status is — a non-enabled encoding is refused with UNIMPLEMENTED;
  * a `grpc-status` in the head is handled as for a 200 (error returned / `Streaming::new_empty`);
  * otherwise the body of a non-200 response is not parsed as frames; the stream ends with the
    trailers' `grpc-status` if there is one, else with the code `infer_grpc_status` maps the HTTP
    status to.
-/
namespace Compression
open CompObs

/-- `infer_grpc_status`: HTTP status → gRPC code when the trailers carry no `grpc-status`. -/
def httpToCode (s : Nat) : Nat :=
  if s = 400 then 13 else if s = 401 then 16 else if s = 403 then 7 else if s = 404 then 12
  else if s = 429 ∨ s = 502 ∨ s = 503 ∨ s = 504 then 14 else 2

/-- what the stream of a non-200 response without `grpc-status` in its head yields -/
def httpItems (http : Nat) (resp : CliResp) : List Item :=
  match resp.trlStatus with
  | some 0 => []
  | some (c + 1) => [.err (c + 1) resp.peerCls]
  | none => [.err (httpToCode http) .other]

def callHttp (cfg : CliCfg) (shape : Shape) (umdEnc umdAcc : List Bytes) (k : Nat) (http : Nat)
    (resp : CliResp) : CliObs :=
  if http = 200 ∨ resp.hdrStatus.isSome then call cfg shape umdEnc umdAcc k resp
  else
    let pr := prepareRequest cfg umdEnc umdAcc (if shape.singleRequest then 1 else k)
    match fromEncodingHeader resp.encVals cfg.accept with
    | .error v =>
      { enc := pr.1, acc := pr.2.1, frames := pr.2.2, result := [.err 12 .unsupported], errAcc := [v] }
    | .ok _ =>
      let items := httpItems http resp
      { enc := pr.1, acc := pr.2.1, frames := pr.2.2,
        result := if shape.singleResponse then
            match unaryRead items with
            | .error (c, k) => [.err c k]
            | .ok f => [.ok f]
          else items,
        errAcc := [] }

/-- Counter-model (what a well-meant "a non-200 response is not gRPC, surface the HTTP status"
change would do): the encoding check is skipped when the HTTP status is not 200. -/
def callHttpLax (cfg : CliCfg) (shape : Shape) (umdEnc umdAcc : List Bytes) (k : Nat) (http : Nat)
    (resp : CliResp) : CliObs :=
  if http = 200 then call cfg shape umdEnc umdAcc k resp
  else callHttp cfg shape umdEnc umdAcc k http { resp with encVals := [] }

end Compression
