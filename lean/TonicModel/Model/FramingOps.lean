import TonicModel.Model.Framing
/-
The consumer-facing entry points of `Streaming<T>` besides `Stream::poll_next` (C07 audit):
  * `Streaming::message()`  = `poll_fn(|cx| self.poll_next(cx))`: one poll of the future it returns is
    one `poll_next` (the future holds no state of its own, so dropping it after a `Pending` loses
    nothing) → `Op.message`, the same step as `Op.next`;
  * `Streaming::trailers()`: take the cached trailers if there are any; otherwise drain the stream
    (`while self.message().await?.is_some() {}` — an error of the stream is returned and is thereby
    consumed), then take whatever trailers the drain cached → `Dec.trailersCall`.
A consumer is a list of such calls on the one stream (`Dec.runOps`).  The drain loop takes its fuel
as a parameter (the model must be total); `Lemmas/FramingOps.lean` shows that `#events + #messages + 1`
is always enough, so `TrOut.fuel` is unreachable with the fuel the driver passes.
-/
namespace Framing
variable {α : Type}

inductive Op
  | next       -- `Stream::poll_next`
  | message    -- one poll of a fresh `Streaming::message()` future
  | trailers   -- `Streaming::trailers().await`, driven to completion
deriving DecidableEq, Repr

/-- how a drain loop ended: the end of the stream, or the stream's error -/
abbrev DrainEnd := Option St

/-- `while self.message().await?.is_some() {}`: poll until the stream reports its end or an error,
dropping the messages; `k` counts the `Pending`s met on the way.  `none` = out of fuel. -/
def Dec.drain (cd : Codec α) (cfg : DecCfg) : Nat → DecSt → List BodyEv → Nat →
    Option (DecSt × List BodyEv × Nat × DrainEnd)
  | 0, _, _, _ => none
  | n + 1, s, evs, k =>
    match Dec.pollNext cd cfg s evs with
    | (s', evs', .msg _) => Dec.drain cd cfg n s' evs' k
    | (s', evs', .pending) => Dec.drain cd cfg n s' evs' (k + 1)
    | (s', evs', .none) => some (s', evs', k, none)
    | (s', evs', .err e) => some (s', evs', k, some e)

inductive TrOut
  | fuel                                   -- the drain ran out of fuel (unreachable, see the lemma file)
  | ok (pendings : Nat) (tr : Option Tr)   -- `Ok(Some(metadata))` / `Ok(None)`
  | err (pendings : Nat) (e : St)          -- `Err(status)`: the stream's error, now consumed
deriving DecidableEq, Repr

/-- `Streaming::trailers()`. -/
def Dec.trailersCall (cd : Codec α) (cfg : DecCfg) (fuel : Nat) (s : DecSt) (evs : List BodyEv) :
    DecSt × List BodyEv × TrOut :=
  match s.trailers with
  | some t => ({ s with trailers := none }, evs, .ok 0 (some t))
  | none =>
    match Dec.drain cd cfg fuel s evs 0 with
    | none => (s, evs, .fuel)
    | some (s', evs', k, some e) => (s', evs', .err k e)
    | some (s', evs', k, none) => ({ s' with trailers := none }, evs', .ok k s'.trailers)

inductive OpOut (α : Type)
  | item (o : Item α)
  | tr (t : TrOut)
deriving DecidableEq, Repr

/-- One consumer call. -/
def Dec.stepOp (cd : Codec α) (cfg : DecCfg) (fuel : Nat) (s : DecSt) (evs : List BodyEv) :
    Op → DecSt × List BodyEv × OpOut α
  | .next | .message =>
    match Dec.pollNext cd cfg s evs with
    | (s', evs', o) => (s', evs', .item o)
  | .trailers =>
    match Dec.trailersCall cd cfg fuel s evs with
    | (s', evs', t) => (s', evs', .tr t)

/-- A consumer: a sequence of calls on the one stream. -/
def Dec.runOps (cd : Codec α) (cfg : DecCfg) (fuel : Nat) : List Op → DecSt → List BodyEv → List (OpOut α)
  | [], _, _ => []
  | op :: ops, s, evs =>
    match Dec.stepOp cd cfg fuel s evs op with
    | (s', evs', o) => o :: Dec.runOps cd cfg fuel ops s' evs'

/-! ### tonic's own draining callers: `client::Grpc::unary` / `client_streaming` and
`server::Grpc::unary` (`map_request_unary`)

Both do the same with the stream they have just built: `try_next().await` (the first result that
is not `Pending`; the end of the stream here is the error "Missing re{sponse,quest} message",
INTERNAL), then `trailers().await?`. -/

/-- the first result that is not `Pending` (`k` counts the `Pending`s); `none` = out of fuel -/
def Dec.firstItem (cd : Codec α) (cfg : DecCfg) : Nat → DecSt → List BodyEv → Nat →
    Option (DecSt × List BodyEv × Nat × Item α)
  | 0, _, _, _ => none
  | n + 1, s, evs, k =>
    match Dec.pollNext cd cfg s evs with
    | (s', evs', .pending) => Dec.firstItem cd cfg n s' evs' (k + 1)
    | (s', evs', o) => some (s', evs', k, o)

inductive UnOut (α : Type)
  | fuel
  | ok (pendings : Nat) (m : α)
  | err (pendings : Nat) (e : St)
  | missing (pendings : Nat)        -- `Status::internal("Missing response message.")`
deriving DecidableEq, Repr

def Dec.unaryCall (cd : Codec α) (cfg : DecCfg) (fuel : Nat) (s : DecSt) (evs : List BodyEv) : UnOut α :=
  match Dec.firstItem cd cfg fuel s evs 0 with
  | none => .fuel
  | some (_, _, _, .pending) => .fuel
  | some (_, _, k, .none) => .missing k
  | some (_, _, k, .err e) => .err k e
  | some (s', evs', k, .msg m) =>
    match (Dec.trailersCall cd cfg fuel s' evs').2.2 with
    | .fuel => .fuel
    | .ok k2 _ => .ok (k + k2) m
    | .err k2 e => .err (k + k2) e

end Framing
