import TonicModel.Basic.Bytes
/-
Model of the parts of tonic-build that decide where a generated client sends a call and what a
generated server dispatches on (C11), following the code that exists:
  * `lib.rs::format_service_name` / `format_method_path` (shared by both generators);
  * `client.rs::generate_methods` — `match (client_streaming, server_streaming)` choosing
    `generate_unary | generate_server_streaming | generate_client_streaming | generate_streaming`,
    each of which emits `PathAndQuery::from_static(path)`, `GrpcMethod::new(service_name, ident)`,
    one `self.inner.<call>(req, path, codec)` and a fixed request-argument / return shape;
  * `server.rs::generate_methods` — the *separately written* `match` over the same two flags
    choosing the server-side generator, each emitting the arm literal `path`, a
    `tonic::server::<Kind>Service<Req>` impl and one `grpc.<call>(method, req)`;
  * `server.rs::generate_named` — `SERVICE_NAME` and `NamedService::NAME`;
  * `Method::request_response_name(proto_path, compile_well_known_types)` — the one function
    every generator (client methods, server trait methods, server `*Service` impls) asks for the
    Rust paths of the request and response message types: `prost.rs` (`convert_type`),
    `manual.rs` (the path as given), or a user's own implementation;
  * `code_gen.rs::CodeGenBuilder::generate_client` / `generate_server` — hand the builder's
    `emit_package`, `compile_well_known_types` and the caller's `proto_path` to both sides.
Identifiers are opaque byte strings; token emission itself is compared by the correspondence
run, not modelled.
-/
namespace Codegen

/-- `"::"` -/
def colons : Bytes := [58, 58]
/-- `"crate::"` -/
def cratePrefix : Bytes := [99, 114, 97, 116, 101, 58, 58]
/-- `"()"` -/
def unitType : Bytes := [40, 41]
/-- `".google.protobuf"` -/
def googlePrefix : Bytes := [46, 103, 111, 111, 103, 108, 101, 46, 112, 114, 111, 116, 111, 98, 117, 102]
/-- `"Wkt"` -/
def wktSuffix : Bytes := [87, 107, 116]
/-- `"super"` -/
def superPath : Bytes := [115, 117, 112, 101, 114]

/-- Where a method's message type name comes from (`Method::request_response_name`). -/
inductive TypeName
  /-- `manual.rs`: `syn::parse_str::<syn::Path>(&self.input_type)` — the path as given, both
  arguments ignored -/
  | fixed (rust : Bytes)
  /-- a user-written `tonic_build::Method` whose answer depends on both arguments (the harness's
  own: `<proto_path>::<base>` with `Wkt` appended when `compile_well_known_types`) -/
  | echo (base : Bytes)
  /-- `prost.rs::TonicBuildMethod`: prost-build's `input_proto_type` (fully qualified proto
  name, leading dot) and `input_type` (Rust path relative to the package's module, or an
  absolute / extern path, or a built-in such as `()`) -/
  | prost (protoType rustType : Bytes)
deriving DecidableEq, Repr

/-- `prost.rs::is_google_type` -/
def isGoogleType (protoType : Bytes) : Bool := googlePrefix.isPrefixOf protoType

/-- `prost.rs::NON_PATH_TYPE_ALLOWLIST` -/
def nonPathTypeAllowlist : List Bytes := [unitType]

/-- `request_response_name` for one of the two types (`convert_type` in `prost.rs`). -/
def TypeName.resolve (protoPath : Bytes) (compileWkt : Bool) : TypeName → Bytes
  | .fixed r => r
  | .echo b => protoPath ++ colons ++ b ++ (if compileWkt then wktSuffix else [])
  | .prost pt rt =>
    if (isGoogleType pt && !compileWkt) || colons.isPrefixOf rt || nonPathTypeAllowlist.contains rt then rt
    else if cratePrefix.isPrefixOf rt then rt
    else protoPath ++ colons ++ rt

/-- `tonic_build::Method` as far as the generators read it. -/
structure Method where
  /-- `name()`: Rust-side method name (`fn` ident) -/
  name : Bytes
  /-- `identifier()`: the proto method name, used in the route -/
  ident : Bytes
  clientStreaming : Bool
  serverStreaming : Bool
  /-- what `request_response_name()` works from -/
  input : TypeName
  output : TypeName
deriving DecidableEq, Repr

/-- `tonic_build::Service` as far as the generators read it. -/
structure Service where
  /-- `name()`: Rust-side name (trait / struct / module idents) -/
  name : Bytes
  package : Bytes
  /-- `identifier()`: the proto service name, used in the route -/
  ident : Bytes
  methods : List Method
deriving DecidableEq, Repr

/-- `CodeGenBuilder`'s options that reach the string functions and the type names, plus the
`proto_path` argument of `generate_client` / `generate_server`.  (`use_arc_self`,
`generate_default_stubs`, `build_transport`, attributes and comments change other tokens
only; the correspondence run varies them.) -/
structure Opts where
  emitPackage : Bool
  compileWkt : Bool := false
  protoPath : Bytes := superPath
deriving DecidableEq, Repr

/-- `method.request_response_name(proto_path, compile_well_known_types)` as
`client.rs::generate_internal` and `server.rs::generate_internal` call it: both are handed
`self.compile_well_known_types` and the same `proto_path` by `CodeGenBuilder`. -/
def Method.types (m : Method) (o : Opts) : Bytes × Bytes :=
  (m.input.resolve o.protoPath o.compileWkt, m.output.resolve o.protoPath o.compileWkt)

/-- Which `tonic::client::Grpc` / `tonic::server::Grpc` entry point a method goes through. -/
inductive Call | unary | serverStreaming | clientStreaming | streaming
deriving DecidableEq, Repr

def dot : UInt8 := 46
def slash : UInt8 := 47

/-- `format_service_name` -/
def formatServiceName (s : Service) (o : Opts) : Bytes :=
  let package := if o.emitPackage then s.package else []
  package ++ (if package.isEmpty then [] else [dot]) ++ s.ident

/-- `format_method_path` -/
def formatMethodPath (s : Service) (m : Method) (o : Opts) : Bytes :=
  [slash] ++ formatServiceName s o ++ [slash] ++ m.ident

/-- What one generated client method does. -/
structure ClientCall where
  fn : Bytes
  path : Bytes
  /-- `GrpcMethod::new(service, method)` extension -/
  gmService : Bytes
  gmMethod : Bytes
  call : Call
  /-- request argument is `impl IntoStreamingRequest<Message = Req>` (else `impl IntoRequest<Req>`) -/
  reqStream : Bool
  /-- return type is `Response<Streaming<Resp>>` (else `Response<Resp>`) -/
  respStream : Bool
  req : Bytes
  resp : Bytes
deriving DecidableEq, Repr

/-- `client.rs`: `generate_unary` … `generate_streaming`, selected by `generate_methods`. -/
def clientMethod (s : Service) (o : Opts) (m : Method) : ClientCall :=
  let base (c : Call) (rq rs : Bool) : ClientCall :=
    ⟨m.name, formatMethodPath s m o, formatServiceName s o, m.ident, c, rq, rs, (m.types o).1, (m.types o).2⟩
  match m.clientStreaming, m.serverStreaming with
  | false, false => base .unary false false
  | false, true => base .serverStreaming false true
  | true, false => base .clientStreaming true false
  | true, true => base .streaming true true

def clientCalls (s : Service) (o : Opts) : List ClientCall := s.methods.map (clientMethod s o)

/-- The `tonic::server::*Service` trait a generated arm implements. -/
inductive SvcTrait | unaryService | serverStreamingService | clientStreamingService | streamingService
deriving DecidableEq, Repr

/-- One arm of the generated `match req.uri().path()`. -/
structure ServerArm where
  literal : Bytes
  call : Call
  svcTrait : SvcTrait
  /-- `fn call(&mut self, request: Request<Streaming<Req>>)` (else `Request<Req>`) -/
  reqStream : Bool
  /-- the impl has a `type ResponseStream` -/
  respStream : Bool
  req : Bytes
  resp : Bytes
  /-- the trait method the arm forwards to: `<T as Trait>::fn` -/
  fn : Bytes
  /-- `generate_trait_methods`: the message types in the signature of that trait method -/
  traitReq : Bytes
  traitResp : Bytes
deriving DecidableEq, Repr

/-- `server.rs`: `generate_unary` … `generate_streaming`, selected by `generate_methods`. -/
def serverMethod (s : Service) (o : Opts) (m : Method) : ServerArm :=
  let base (c : Call) (t : SvcTrait) (rq rs : Bool) : ServerArm :=
    ⟨formatMethodPath s m o, c, t, rq, rs, (m.types o).1, (m.types o).2, m.name, (m.types o).1, (m.types o).2⟩
  match m.clientStreaming, m.serverStreaming with
  | false, false => base .unary .unaryService false false
  | false, true => base .serverStreaming .serverStreamingService false true
  | true, false => base .clientStreaming .clientStreamingService true false
  | true, true => base .streaming .streamingService true true

def serverArms (s : Service) (o : Opts) : List ServerArm := s.methods.map (serverMethod s o)

/-- `generate_named`: `pub const SERVICE_NAME` = `NamedService::NAME`. -/
def serviceNameConst (s : Service) (o : Opts) : Bytes := formatServiceName s o

/-- The generated `call`: first arm whose literal equals the path. -/
def serverCall (arms : List ServerArm) (path : Bytes) : Option ServerArm :=
  arms.find? (fun a => path == a.literal)

/-! ### Sets of services, and `CodeGenBuilder` as a value with a history (dimension audit aC11) -/

/-- What the two generators emit for one service, as far as the property reads it. -/
structure Output where
  serviceName : Bytes
  arms : List ServerArm
  calls : List ClientCall
deriving DecidableEq, Repr

/-- `CodeGenBuilder::generate_server` + `generate_client` on one service. -/
def generate (s : Service) (o : Opts) : Output :=
  ⟨serviceNameConst s o, serverArms s o, clientCalls s o⟩

/-- `prost.rs::ServiceGenerator::generate` / `manual.rs::ServiceGenerator::generate` are called
once per service of the set (all services of a `.proto` file, all files of a package, all
packages of a descriptor set; `manual::Builder::compile(&[…])`).  Each call builds fresh
`CodeGenBuilder`s from the front end's options, which nothing changes after `compile_*` was
entered: nothing is carried from one service to the next. -/
def generateSet (ds : List Service) (o : Opts) : List Output := ds.map (fun s => generate s o)

/-- What can be done to one `CodeGenBuilder` value. -/
inductive BOp
  /-- `emit_package(b)` -/
  | emitPackage (b : Bool)
  /-- `compile_well_known_types(b)` -/
  | compileWkt (b : Bool)
  /-- `use_arc_self`, `generate_default_stubs`, `build_transport`, `attributes`,
  `disable_comments`: fields the string functions and the type names never read -/
  | other
  /-- `generate_server(&self, service, proto_path)` -/
  | genServer (s : Service) (protoPath : Bytes)
  /-- `generate_client(&self, service, proto_path)` -/
  | genClient (s : Service) (protoPath : Bytes)
deriving DecidableEq, Repr

/-- The two fields of `CodeGenBuilder` that reach names, paths and types;
`CodeGenBuilder::default()`. -/
structure BState where
  emitPackage : Bool := true
  compileWkt : Bool := false
deriving DecidableEq, Repr

inductive BOut
  | server (name : Bytes) (arms : List ServerArm)
  | client (calls : List ClientCall)
deriving DecidableEq, Repr

def BState.opts (st : BState) (protoPath : Bytes) : Opts := ⟨st.emitPackage, st.compileWkt, protoPath⟩

/-- the setters assign one field; `generate_*` take `&self` -/
def BState.set (st : BState) : BOp → BState
  | .emitPackage b => { st with emitPackage := b }
  | .compileWkt b => { st with compileWkt := b }
  | _ => st

/-- `generate_server` / `generate_client` hand the fields as they are NOW, and the caller's
`proto_path`, to `server::generate_internal` / `client::generate_internal`. -/
def BState.emit (st : BState) : BOp → Option BOut
  | .genServer s p => some (.server (serviceNameConst s (st.opts p)) (serverArms s (st.opts p)))
  | .genClient s p => some (.client (clientCalls s (st.opts p)))
  | _ => none

/-- A history of calls on one builder value: everything it emitted, in order. -/
def BState.run (st : BState) : List BOp → List BOut
  | [] => []
  | op :: ops => (st.emit op).toList ++ (st.set op).run ops

/-- The builder value after a history. -/
def BState.after (st : BState) (ops : List BOp) : BState := ops.foldl BState.set st

end Codegen
