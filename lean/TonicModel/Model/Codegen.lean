import TonicModel.Basic.Bytes
/-
Model of the parts of tonic-build that decide where a generated client sends a call and what a
generated server dispatches on (C11), following the code that exists:
  * `lib.rs::format_service_name` / `format_method_path` (shared by both generators);
  * `client.rs::generate_methods` — `match (client_streaming, server_streaming)` choosing
    `generate_unary | generate_server_streaming | generate_client_streaming | generate_streaming`,
    each of which emits `PathAndQuery::from_static(path)`, `GrpcMethod::new(service_name, ident)`,
    one `self.inner.<call>(req, path, codec)` and a fixed request-argument / return shape;
  * `server.rs::generate_methods` — the *separately written* `match` over the same two flags
    choosing the server-side generator, each emitting the arm literal `path`, a
    `tonic::server::<Kind>Service<Req>` impl and one `grpc.<call>(method, req)`;
  * `server.rs::generate_named` — `SERVICE_NAME` and `NamedService::NAME`.
Type names and identifiers are opaque byte strings; token emission itself is compared by the
correspondence run, not modelled.
-/
namespace Codegen

/-- `tonic_build::Method` as far as the generators read it. -/
structure Method where
  /-- `name()`: Rust-side method name (`fn` ident) -/
  name : Bytes
  /-- `identifier()`: the proto method name, used in the route -/
  ident : Bytes
  clientStreaming : Bool
  serverStreaming : Bool
  /-- `request_response_name()` -/
  input : Bytes
  output : Bytes
deriving DecidableEq, Repr

/-- `tonic_build::Service` as far as the generators read it. -/
structure Service where
  /-- `name()`: Rust-side name (trait / struct / module idents) -/
  name : Bytes
  package : Bytes
  /-- `identifier()`: the proto service name, used in the route -/
  ident : Bytes
  methods : List Method
deriving DecidableEq, Repr

/-- Builder options that reach the two string functions.  (`use_arc_self`,
`generate_default_stubs`, `build_transport`, attributes and comments change other tokens
only; the correspondence run varies them.) -/
structure Opts where
  emitPackage : Bool
deriving DecidableEq, Repr

/-- Which `tonic::client::Grpc` / `tonic::server::Grpc` entry point a method goes through. -/
inductive Call | unary | serverStreaming | clientStreaming | streaming
deriving DecidableEq, Repr

def dot : UInt8 := 46
def slash : UInt8 := 47

/-- `format_service_name` -/
def formatServiceName (s : Service) (o : Opts) : Bytes :=
  let package := if o.emitPackage then s.package else []
  package ++ (if package.isEmpty then [] else [dot]) ++ s.ident

/-- `format_method_path` -/
def formatMethodPath (s : Service) (m : Method) (o : Opts) : Bytes :=
  [slash] ++ formatServiceName s o ++ [slash] ++ m.ident

/-- What one generated client method does. -/
structure ClientCall where
  fn : Bytes
  path : Bytes
  /-- `GrpcMethod::new(service, method)` extension -/
  gmService : Bytes
  gmMethod : Bytes
  call : Call
  /-- request argument is `impl IntoStreamingRequest<Message = Req>` (else `impl IntoRequest<Req>`) -/
  reqStream : Bool
  /-- return type is `Response<Streaming<Resp>>` (else `Response<Resp>`) -/
  respStream : Bool
  req : Bytes
  resp : Bytes
deriving DecidableEq, Repr

/-- `client.rs`: `generate_unary` … `generate_streaming`, selected by `generate_methods`. -/
def clientMethod (s : Service) (o : Opts) (m : Method) : ClientCall :=
  let base (c : Call) (rq rs : Bool) : ClientCall :=
    ⟨m.name, formatMethodPath s m o, formatServiceName s o, m.ident, c, rq, rs, m.input, m.output⟩
  match m.clientStreaming, m.serverStreaming with
  | false, false => base .unary false false
  | false, true => base .serverStreaming false true
  | true, false => base .clientStreaming true false
  | true, true => base .streaming true true

def clientCalls (s : Service) (o : Opts) : List ClientCall := s.methods.map (clientMethod s o)

/-- The `tonic::server::*Service` trait a generated arm implements. -/
inductive SvcTrait | unaryService | serverStreamingService | clientStreamingService | streamingService
deriving DecidableEq, Repr

/-- One arm of the generated `match req.uri().path()`. -/
structure ServerArm where
  literal : Bytes
  call : Call
  svcTrait : SvcTrait
  /-- `fn call(&mut self, request: Request<Streaming<Req>>)` (else `Request<Req>`) -/
  reqStream : Bool
  /-- the impl has a `type ResponseStream` -/
  respStream : Bool
  req : Bytes
  resp : Bytes
  /-- the trait method the arm forwards to: `<T as Trait>::fn` -/
  fn : Bytes
deriving DecidableEq, Repr

/-- `server.rs`: `generate_unary` … `generate_streaming`, selected by `generate_methods`. -/
def serverMethod (s : Service) (o : Opts) (m : Method) : ServerArm :=
  let base (c : Call) (t : SvcTrait) (rq rs : Bool) : ServerArm :=
    ⟨formatMethodPath s m o, c, t, rq, rs, m.input, m.output, m.name⟩
  match m.clientStreaming, m.serverStreaming with
  | false, false => base .unary .unaryService false false
  | false, true => base .serverStreaming .serverStreamingService false true
  | true, false => base .clientStreaming .clientStreamingService true false
  | true, true => base .streaming .streamingService true true

def serverArms (s : Service) (o : Opts) : List ServerArm := s.methods.map (serverMethod s o)

/-- `generate_named`: `pub const SERVICE_NAME` = `NamedService::NAME`. -/
def serviceNameConst (s : Service) (o : Opts) : Bytes := formatServiceName s o

/-- The generated `call`: first arm whose literal equals the path. -/
def serverCall (arms : List ServerArm) (path : Bytes) : Option ServerArm :=
  arms.find? (fun a => path == a.literal)

end Codegen
