import TonicModel.Basic.RichErrorTypes
import TonicModel.Basic.PbWire
/-
Model of tonic-types' richer-error support (`tonic-types/src/richer_error/**`):
`IntoAny` / `FromAnyRef` with the `TYPE_URL` dispatch, `gen_details_bytes`,
`StatusExt::with_error_details[_vec][_and_metadata]`, `check_error_details[_vec]`,
`get_error_details[_vec]`, the ten `get_details_*` getters, `RetryInfo::new` and the
`pb::RetryInfo ↔ RetryInfo` conversions.

prost appears twice: as a parameter (`Prost`, four functions; the property theorems are stated
for every `Prost` satisfying the round-trip laws) and as a concrete instance (`prost`, built on
`PbWire` with the schemas of `tonic-types/src/generated/google_rpc.rs`), which is what the driver
executes and for which the laws are proved in `Lemmas/`.
-/
namespace RichError
open PbWire

/-- `prost_types::Any` -/
structure Any where
  typeUrl : Bytes
  value : Bytes
  deriving DecidableEq, Repr

/-- `pb::Status` (google.rpc.Status) -/
structure PbStatus where
  code : Int
  message : Bytes
  details : List Any
  deriving DecidableEq, Repr

/-- what tonic-types uses of prost -/
structure Prost where
  /-- `pb::K::from(detail).encode_to_vec()` -/
  encDetail : ErrorDetail → Bytes
  /-- `pb::K::decode(value).map(Into::into)` for the kind `K` -/
  decDetail : Kind → Bytes → Option ErrorDetail
  /-- `pb::Status::encode` -/
  encStatus : PbStatus → Bytes
  /-- `pb::Status::decode` -/
  decStatus : Bytes → Option PbStatus

/-! ## tonic-types proper -/

def urlPrefix : Bytes := asciiBytes "type.googleapis.com/google.rpc."

def kindName : Kind → Bytes
  | .retryInfo => asciiBytes "RetryInfo"
  | .debugInfo => asciiBytes "DebugInfo"
  | .quotaFailure => asciiBytes "QuotaFailure"
  | .errorInfo => asciiBytes "ErrorInfo"
  | .preconditionFailure => asciiBytes "PreconditionFailure"
  | .badRequest => asciiBytes "BadRequest"
  | .requestInfo => asciiBytes "RequestInfo"
  | .resourceInfo => asciiBytes "ResourceInfo"
  | .help => asciiBytes "Help"
  | .localizedMessage => asciiBytes "LocalizedMessage"

/-- `K::TYPE_URL` -/
def typeUrl (k : Kind) : Bytes := urlPrefix ++ kindName k

/-- the `match any.type_url.as_str()` of `check_error_details[_vec]`, arms in source order -/
def kindOfUrl (u : Bytes) : Option Kind :=
  if u = typeUrl .retryInfo then some .retryInfo
  else if u = typeUrl .debugInfo then some .debugInfo
  else if u = typeUrl .quotaFailure then some .quotaFailure
  else if u = typeUrl .errorInfo then some .errorInfo
  else if u = typeUrl .preconditionFailure then some .preconditionFailure
  else if u = typeUrl .badRequest then some .badRequest
  else if u = typeUrl .requestInfo then some .requestInfo
  else if u = typeUrl .resourceInfo then some .resourceInfo
  else if u = typeUrl .help then some .help
  else if u = typeUrl .localizedMessage then some .localizedMessage
  else none

def maxRetryDelay : Dur := ⟨315576000000, 999999999⟩

/-- `Duration: Ord` -/
def Dur.gt (a b : Dur) : Bool := b.secs < a.secs || (a.secs == b.secs && b.nanos < a.nanos)

/-- `RetryInfo::new`: clamps to `MAX_RETRY_DELAY` -/
def RetryInfo.new (o : Option Dur) : RetryInfo :=
  ⟨o.map fun d => if d.gt maxRetryDelay then maxRetryDelay else d⟩

/-- the order in which `with_error_details_and_metadata` pushes the present details -/
def ErrorDetails.toList (s : ErrorDetails) : List ErrorDetail :=
  (s.retryInfo.map ErrorDetail.retryInfo).toList ++
  (s.debugInfo.map ErrorDetail.debugInfo).toList ++
  (s.quotaFailure.map ErrorDetail.quotaFailure).toList ++
  (s.errorInfo.map ErrorDetail.errorInfo).toList ++
  (s.preconditionFailure.map ErrorDetail.preconditionFailure).toList ++
  (s.badRequest.map ErrorDetail.badRequest).toList ++
  (s.requestInfo.map ErrorDetail.requestInfo).toList ++
  (s.resourceInfo.map ErrorDetail.resourceInfo).toList ++
  (s.help.map ErrorDetail.help).toList ++
  (s.localizedMessage.map ErrorDetail.localizedMessage).toList

/-- `details.<kind> = Some(detail)` -/
def ErrorDetails.put (s : ErrorDetails) : ErrorDetail → ErrorDetails
  | .retryInfo x => { s with retryInfo := some x }
  | .debugInfo x => { s with debugInfo := some x }
  | .quotaFailure x => { s with quotaFailure := some x }
  | .errorInfo x => { s with errorInfo := some x }
  | .preconditionFailure x => { s with preconditionFailure := some x }
  | .badRequest x => { s with badRequest := some x }
  | .requestInfo x => { s with requestInfo := some x }
  | .resourceInfo x => { s with resourceInfo := some x }
  | .help x => { s with help := some x }
  | .localizedMessage x => { s with localizedMessage := some x }

def ErrorDetails.get (s : ErrorDetails) : Kind → Option ErrorDetail
  | .retryInfo => s.retryInfo.map .retryInfo
  | .debugInfo => s.debugInfo.map .debugInfo
  | .quotaFailure => s.quotaFailure.map .quotaFailure
  | .errorInfo => s.errorInfo.map .errorInfo
  | .preconditionFailure => s.preconditionFailure.map .preconditionFailure
  | .badRequest => s.badRequest.map .badRequest
  | .requestInfo => s.requestInfo.map .requestInfo
  | .resourceInfo => s.resourceInfo.map .resourceInfo
  | .help => s.help.map .help
  | .localizedMessage => s.localizedMessage.map .localizedMessage

/-- `tonic::Status` as far as C20 is concerned; `code` is `Code as i32` (0..16), the metadata is
carried along untouched. -/
structure Status (M : Type) where
  code : Nat
  message : Bytes
  details : Bytes
  metadata : M

section
variable (P : Prost)

/-- `IntoAny::into_any` -/
def intoAny (d : ErrorDetail) : Any := ⟨typeUrl d.kind, P.encDetail d⟩

/-- `gen_details_bytes` -/
def genDetailsBytes (code : Nat) (message : Bytes) (details : List Any) : Bytes :=
  P.encStatus ⟨code, message, details⟩

/-- `Status::with_error_details_vec_and_metadata` -/
def withVec {M : Type} (code : Nat) (message : Bytes) (ds : List ErrorDetail) (metadata : M) :
    Status M :=
  ⟨code, message, genDetailsBytes P code message (ds.map (intoAny P)), metadata⟩

/-- `Status::with_error_details_and_metadata` -/
def withSet {M : Type} (code : Nat) (message : Bytes) (s : ErrorDetails) (metadata : M) :
    Status M :=
  ⟨code, message, genDetailsBytes P code message (s.toList.map (intoAny P)), metadata⟩

/-- `RpcStatusExt::check_error_details_vec` on the `Any` list: known urls are decoded in order,
the first undecodable one fails the whole call, foreign urls are passed over. -/
def checkVecAnys : List Any → Option (List ErrorDetail)
  | [] => some []
  | a :: rest =>
    match kindOfUrl a.typeUrl with
    | none => checkVecAnys rest
    | some k =>
      match P.decDetail k a.value with
      | none => none
      | some d => (checkVecAnys rest).map (d :: ·)

/-- `RpcStatusExt::check_error_details`: a later detail of a kind replaces an earlier one -/
def checkSetAnys : ErrorDetails → List Any → Option ErrorDetails
  | acc, [] => some acc
  | acc, a :: rest =>
    match kindOfUrl a.typeUrl with
    | none => checkSetAnys acc rest
    | some k =>
      match P.decDetail k a.value with
      | none => none
      | some d => checkSetAnys (acc.put d) rest

/-- `RpcStatusExt::get_details_<kind>`: the first entry with that url *that decodes* -/
def firstOfKindAnys (k : Kind) : List Any → Option ErrorDetail
  | [] => none
  | a :: rest =>
    if a.typeUrl = typeUrl k then
      match P.decDetail k a.value with
      | some d => some d
      | none => firstOfKindAnys k rest
    else firstOfKindAnys k rest

/-- `StatusExt::check_error_details_vec` (on `self.details()`) -/
def checkVec (details : Bytes) : Option (List ErrorDetail) :=
  match P.decStatus details with
  | none => none
  | some st => checkVecAnys P st.details

/-- `StatusExt::check_error_details` -/
def checkSet (details : Bytes) : Option ErrorDetails :=
  match P.decStatus details with
  | none => none
  | some st => checkSetAnys P {} st.details

/-- `StatusExt::get_details_<kind>` -/
def getFirst (k : Kind) (details : Bytes) : Option ErrorDetail :=
  match P.decStatus details with
  | none => none
  | some st => firstOfKindAnys P k st.details

/-- `StatusExt::get_error_details_vec` -/
def getVec (details : Bytes) : List ErrorDetail := (checkVec P details).getD []

/-- `StatusExt::get_error_details` -/
def getSet (details : Bytes) : ErrorDetails := (checkSet P details).getD {}

end

/-! ## prost, concretely -/

def nanosPerSec : Int := 1000000000
def i64Max : Int := 9223372036854775807
def i64Min : Int := -9223372036854775808

/-- `prost_types::Duration::normalize` on `(seconds : i64, nanos : i32)` -/
def normalize (s n : Int) : Int × Int :=
  let p : Int × Int :=
    if n ≤ -nanosPerSec ∨ nanosPerSec ≤ n then
      if i64Min ≤ s + n.tdiv nanosPerSec ∧ s + n.tdiv nanosPerSec ≤ i64Max then
        (s + n.tdiv nanosPerSec, n.tmod nanosPerSec)
      else if n < 0 then (i64Min, -999999999)
      else (i64Max, 999999999)
    else (s, n)
  if p.1 < 0 ∧ 0 < p.2 then
    (if p.1 + 1 ≤ i64Max then (p.1 + 1, p.2 - nanosPerSec) else (p.1, 999999999))
  else if 0 < p.1 ∧ p.2 < 0 then
    (if i64Min ≤ p.1 - 1 then (p.1 - 1, p.2 + nanosPerSec) else (p.1, -999999999))
  else p

/-- `From<RetryInfo> for pb::RetryInfo`, the duration: `prost_types::Duration::try_from`, or the
largest protobuf duration when the seconds do not fit an `i64` -/
def durToPb (d : Dur) : List SV :=
  if (d.secs : Int) ≤ i64Max then [.i (normalize d.secs d.nanos).1, .i (normalize d.secs d.nanos).2]
  else [.i 315576000000, .i 999999999]

/-- `From<pb::RetryInfo> for RetryInfo`, the duration (with fix-C20-retry-delay-i64-min applied):
normalize, negative becomes zero -/
def durOfPair (s n : Int) : Dur :=
  if (normalize s n).1 < 0 ∨ (normalize s n).2 < 0 then ⟨0, 0⟩
  else ⟨(normalize s n).1.toNat, (normalize s n).2.toNat⟩

/-- the same on the pinned tree: `time::Duration::try_from(d).unwrap_or(ZERO)`, whose error path
computes `(-d.seconds) as u64`; `none` is the panic of that negation when overflow checks are on -/
def durOfPairAsIs (s n : Int) : Option Dur :=
  if 0 ≤ (normalize s n).1 ∧ 0 ≤ (normalize s n).2 then
    some ⟨(normalize s n).1.toNat, (normalize s n).2.toNat⟩
  else if (normalize s n).1 = i64Min then none
  else some ⟨0, 0⟩

def svBytes : SV → Bytes
  | .b s => s
  | .i _ => []

def svInt : SV → Int
  | .i x => x
  | .b _ => 0

def durOfPb (v : List SV) : Dur := durOfPair (svInt (v.getD 0 (.i 0))) (svInt (v.getD 1 (.i 0)))

def flatStr (v : List SV) (i : Nat) : Bytes := svBytes (v.getD i (.b []))

def getStr (vs : List V2) (i : Nat) : Bytes :=
  match vs[i]? with
  | some (.sc (.b s)) => s
  | _ => []

def getInt (vs : List V2) (i : Nat) : Int :=
  match vs[i]? with
  | some (.sc (.i x)) => x
  | _ => 0

def getRepStr (vs : List V2) (i : Nat) : List Bytes :=
  match vs[i]? with
  | some (.repStr l) => l
  | _ => []

def getRepFlat (vs : List V2) (i : Nat) : List (List SV) :=
  match vs[i]? with
  | some (.repFlat l) => l
  | _ => []

def getOptFlat (vs : List V2) (i : Nat) : Option (List SV) :=
  match vs[i]? with
  | some (.optFlat o) => o
  | _ => none

def getMap (vs : List V2) (i : Nat) : List (Bytes × Bytes) :=
  match vs[i]? with
  | some (.map l) => l
  | _ => []

def vStr (s : Bytes) : V2 := .sc (.b s)

/-- field tables of `tonic-types/src/generated/google_rpc.rs` (`#[prost(…, tag = "n")]`) -/
def schemaOf : Kind → List F2
  | .retryInfo => [.optFlat [.i64, .i32]]
  | .debugInfo => [.repStr, .sc .str]
  | .quotaFailure => [.repFlat [.str, .str]]
  | .errorInfo => [.sc .str, .sc .str, .mapSS]
  | .preconditionFailure => [.repFlat [.str, .str, .str]]
  | .badRequest => [.repFlat [.str, .str]]
  | .requestInfo => [.sc .str, .sc .str]
  | .resourceInfo => [.sc .str, .sc .str, .sc .str, .sc .str]
  | .help => [.repFlat [.str, .str]]
  | .localizedMessage => [.sc .str, .sc .str]

/-- `From<K> for pb::K` -/
def toPb : ErrorDetail → List V2
  | .retryInfo x => [.optFlat (x.retryDelay.map durToPb)]
  | .debugInfo x => [.repStr x.stackEntries, vStr x.detail]
  | .quotaFailure x => [.repFlat (x.violations.map fun v => [.b v.subject, .b v.description])]
  | .errorInfo x => [vStr x.reason, vStr x.domain, .map x.metadata]
  | .preconditionFailure x =>
    [.repFlat (x.violations.map fun v => [.b v.type, .b v.subject, .b v.description])]
  | .badRequest x => [.repFlat (x.fieldViolations.map fun v => [.b v.field, .b v.description])]
  | .requestInfo x => [vStr x.requestId, vStr x.servingData]
  | .resourceInfo x => [vStr x.resourceType, vStr x.resourceName, vStr x.owner, vStr x.description]
  | .help x => [.repFlat (x.links.map fun v => [.b v.description, .b v.url])]
  | .localizedMessage x => [vStr x.locale, vStr x.message]

/-- `From<pb::K> for K` -/
def ofPb : Kind → List V2 → ErrorDetail
  | .retryInfo, vs => .retryInfo ⟨(getOptFlat vs 0).map durOfPb⟩
  | .debugInfo, vs => .debugInfo ⟨getRepStr vs 0, getStr vs 1⟩
  | .quotaFailure, vs => .quotaFailure ⟨(getRepFlat vs 0).map fun v => ⟨flatStr v 0, flatStr v 1⟩⟩
  | .errorInfo, vs => .errorInfo ⟨getStr vs 0, getStr vs 1, getMap vs 2⟩
  | .preconditionFailure, vs =>
    .preconditionFailure ⟨(getRepFlat vs 0).map fun v => ⟨flatStr v 0, flatStr v 1, flatStr v 2⟩⟩
  | .badRequest, vs => .badRequest ⟨(getRepFlat vs 0).map fun v => ⟨flatStr v 0, flatStr v 1⟩⟩
  | .requestInfo, vs => .requestInfo ⟨getStr vs 0, getStr vs 1⟩
  | .resourceInfo, vs => .resourceInfo ⟨getStr vs 0, getStr vs 1, getStr vs 2, getStr vs 3⟩
  | .help, vs => .help ⟨(getRepFlat vs 0).map fun v => ⟨flatStr v 0, flatStr v 1⟩⟩
  | .localizedMessage, vs => .localizedMessage ⟨getStr vs 0, getStr vs 1⟩

/-- google.rpc.Status: `int32 code = 1; string message = 2; repeated google.protobuf.Any details = 3`
with `Any { string type_url = 1; bytes value = 2 }` -/
def statusSchema : List F2 := [.sc .i32, .sc .str, .repFlat [.str, .bytes]]

def statusToPb (st : PbStatus) : List V2 :=
  [.sc (.i st.code), vStr st.message, .repFlat (st.details.map fun a => [.b a.typeUrl, .b a.value])]

def statusOfPb (vs : List V2) : PbStatus :=
  ⟨getInt vs 0, getStr vs 1, (getRepFlat vs 2).map fun v => ⟨flatStr v 0, flatStr v 1⟩⟩

/-- prost 0.13 on the generated `pb` types -/
def prost : Prost where
  encDetail d := encL2 (schemaOf d.kind) (toPb d)
  decDetail k b := (decodeL2 (schemaOf k) b).map (ofPb k)
  encStatus st := encL2 statusSchema (statusToPb st)
  decStatus b := (decodeL2 statusSchema b).map statusOfPb

/-- `decDetail` on the pinned tree (before the fix): only `RetryInfo` differs — `none` inside
`some` is the panic -/
def retryDelayAsIs (value : Bytes) : Option (Option (Option Dur)) :=
  match decodeL2 (schemaOf .retryInfo) value with
  | none => none
  | some vs =>
    match getOptFlat vs 0 with
    | none => some (some none)
    | some v =>
      match durOfPairAsIs (svInt (v.getD 0 (.i 0))) (svInt (v.getD 1 (.i 0))) with
      | none => some none
      | some d => some (some (some d))

end RichError
