import TonicModel.Basic.Bytes
import TonicModel.Basic.TrailerMap
import TonicModel.Model.WebServer
/-
Model of the grpc-web *client* layer: `GrpcWebCall::poll_frame` in client/Decode mode with
`find_trailers` and `decode_trailers_frame` (tonic-web/src/call.rs), and the request/response
wrapping of `GrpcWebClientService` (tonic-web/src/client.rs).

Two variants are kept:

* `AsIs.*`  — the code at the pinned commit, branch by branch (loop with fuel, because it can
  spin).  Only used for the `_fails` witnesses of DESIGN §5.8.
* `Fixed.*` — the code after the five `fix:` commits (known_findings.json "fixed: property=C17");
  this is what the correspondence run compares with and what the full theorems are about.

`decode_trailers_frame` exists in three states: at the pinned commit (`fixed = false`), after the
first-colon / repeated-name repair but still dropping the unterminated last line and what
follows a bare CR (`fixed = true, whole = false`: the code as the second review round found it),
and as it is now (`fixed = true, whole = true`).

Bodies and outputs are as in `Model/WebServer` (`BodyEv`, `Out`); `Pending` leaves all state
untouched in both variants (every `ready!` sits before any mutation), so it is skipped.
-/
namespace WebClient
open WebServer (BodyEv Out)
open TMap (Pair)

/-! ### `http::HeaderName::from_bytes` / `HeaderValue::from_bytes` -/

/-- `HEADER_CHARS`: valid header-name bytes, mapped to lower case. -/
def headerNameByte (b : UInt8) : Option UInt8 :=
  let n := b.toNat
  if 65 ≤ n ∧ n ≤ 90 then some (UInt8.ofNat (n + 32))
  else if (97 ≤ n ∧ n ≤ 122) ∨ (48 ≤ n ∧ n ≤ 57) then some b
  else if n = 33 ∨ n = 35 ∨ n = 36 ∨ n = 37 ∨ n = 38 ∨ n = 39 ∨ n = 42 ∨ n = 43 ∨ n = 45 ∨ n = 46
      ∨ n = 94 ∨ n = 95 ∨ n = 96 ∨ n = 124 ∨ n = 126 then some b
  else none

def mapOpt {α β : Type} (f : α → Option β) : List α → Option (List β)
  | [] => some []
  | x :: xs =>
    match f x, mapOpt f xs with
    | some y, some ys => some (y :: ys)
    | _, _ => none

/-- `HeaderName::from_bytes`: non-empty, < 64 KiB, valid bytes; normalised to lower case. -/
def parseName (k : Bytes) : Option Bytes :=
  if k.isEmpty || k.length > 65535 then none else mapOpt headerNameByte k

def valueByteOk (b : UInt8) : Bool := (b.toNat ≥ 32 && b.toNat != 127) || b.toNat == 9

/-- `HeaderValue::from_bytes`. -/
def parseValue (v : Bytes) : Option Bytes := if v.all valueByteOk then some v else none

/-! ### `find_trailers` -/

inductive FT where
  | trailer (len : Nat)
  | incomplete
  | done (len : Nat)
  | bad
  deriving DecidableEq, Repr

def FT.shift (k : Nat) : FT → FT
  | .trailer l => .trailer (l + k)
  | .done l => .done (l + k)
  | r => r

/-- the frame header at the front of a buffer: flag, announced length, what follows
(`None` when fewer than `GRPC_HEADER_SIZE` bytes are there) -/
def hdr5 : Bytes → Option (UInt8 × Nat × Bytes)
  | h :: a :: b :: c :: d :: rest => some (h, readU32 a b c d, rest)
  | _ => none

/-- `find_trailers` on `&buf[len..]`, result relative to that position (the code accumulates
`len` going forward; here it is added on the way back, and `len > buf.len()` is the same test
as `rest.length < msg_len`).  With `fixed`, a trailers frame is only reported once all of it
(header and block) is in the buffer.  Fuel bounds the number of frames walked over. -/
def scan (fixed : Bool) : Nat → Bytes → FT
  | 0, _ => .bad
  | f + 1, buf =>
    match hdr5 buf with
    | none => .done 0
    | some (h, n, rest) =>
      if h = 128 then
        if fixed && rest.length < n then .incomplete else .trailer 0
      else if !(h = 0 || h = 1) then .bad
      else if rest.length < n then .incomplete
      else (scan fixed f (rest.drop n)).shift (n + 5)

def findTrailers (fixed : Bool) (buf : Bytes) : FT := scan fixed (buf.length + 1) buf

/-! ### `decode_trailers_frame` -/

/-- the CRLF scan: segments that are terminated by CRLF.  With `whole`, what follows the last
CRLF (a last line without its CRLF) is one more line; without, it is ignored (as the code did). -/
def crlfLines (whole : Bool) (cur : Bytes) : Bytes → List Bytes
  | [] => if whole && !cur.isEmpty then [cur.reverse] else []
  | [x] => if whole then [(x :: cur).reverse] else []
  | a :: b :: rest =>
    if a = 13 ∧ b = 10 then cur.reverse :: crlfLines whole [] rest
    else crlfLines whole (a :: cur) (b :: rest)

/-- pieces of `l` separated by `sep` (`slice::split`): always at least one piece. -/
def splitOn (sep : UInt8) (cur : Bytes) : Bytes → List Bytes
  | [] => [cur.reverse]
  | b :: r => if b = sep then cur.reverse :: splitOn sep [] r else splitOn sep (b :: cur) r

/-- first piece and everything after the first separator (`splitn(2, …)`). -/
def splitFirst (sep : UInt8) (cur : Bytes) : Bytes → Bytes × Option Bytes
  | [] => (cur.reverse, none)
  | b :: r => if b = sep then (cur.reverse, some r) else splitFirst sep (b :: cur) r

def stripSpace (whole : Bool) (value : Bytes) : Bytes :=
  if whole then
    -- `value.strip_prefix(" ").unwrap_or(value)`
    match value with
    | 32 :: r => r
    | _ => value
  else
    -- `value.split('\r').next().strip_prefix(" ").unwrap_or(value)`
    match (splitOn 13 [] value).head? with
    | some (32 :: r) => r
    | _ => value

/-- key and raw value of one trailer line.  As-is: `split(':')`, second piece is the value.
Fixed: `splitn(2, ':')`. -/
def lineKV (fixed : Bool) (line : Bytes) : Option (Bytes × Bytes) :=
  if fixed then
    match splitFirst 58 [] line with
    | (k, some v) => some (k, v)
    | (_, none) => none
  else
    match splitOn 58 [] line with
    | k :: v :: _ => some (k, v)
    | _ => none

def parseLine (fixed : Bool) (line : Bytes) (whole : Bool := fixed) : Option Pair :=
  match lineKV fixed line with
  | none => none
  | some (k, v) =>
    match parseName k, parseValue (stripSpace whole v) with
    | some k', some v' => some (k', v')
    | _, _ => none

/-- `HeaderMap::insert`: replaces all values of the name. -/
def hmInsert (m : List Pair) (p : Pair) : List Pair := m.filter (fun q => !(q.1 == p.1)) ++ [p]

/-- `Ok(Some(map))` = `some (some map)`, `Ok(None)` = `some none`, `Err` = `none`.
`frame` includes the 5-byte header (whose length field the as-is code ignores). -/
def decodeTrailersFrame (fixed : Bool) (frame : Bytes) (whole : Bool := fixed) :
    Option (Option (List Pair)) :=
  if frame.length < 5 then some none
  else
    match mapOpt (fun l => parseLine fixed l whole) (crlfLines whole [] (frame.drop 5)) with
    | none => none
    | some ps => some (some (if fixed then ps else ps.foldl hmInsert []))

/-- `HeaderMap::extend(other)`: every name present in `other` gets `other`'s values. -/
def hmExtend (cur other : List Pair) : List Pair :=
  cur.filter (fun q => !(other.any (fun p => p.1 == q.1))) ++ other

def mergeTrailers (cur : Option (List Pair)) (t : List Pair) : Option (List Pair) :=
  match cur with
  | some c => some (hmExtend c t)
  | none => some t

structure St where
  decoded : Bytes := []
  trailers : Option (List Pair) := none
  deriving Repr

/-! ### the code at the pinned commit -/
namespace AsIs

/-- what one `poll_frame` call returns (or that it never returns) -/
inductive R where
  | out (o : Out)
  | busy
  deriving Repr

/-- One call of `poll_frame` (client, Decode).  `ended`: the inner body already returned
`None`; `ae` counts polls of the inner body after that (the harness body gives up at `limit`).
Fuel bounds the `loop`. -/
def poll (limit : Nat) : Nat → St → List BodyEv → Bool → Nat → R × St × List BodyEv × Bool × Nat
  | 0, st, evs, ended, ae => (.busy, st, evs, ended, ae)
  | f + 1, st, evs, ended, ae =>
    -- `find_trailers` and what follows, on the current buffer
    let after (st : St) (evs : List BodyEv) (ended : Bool) (ae : Nat) :=
      match findTrailers false st.decoded with
      | .bad => (R.out .err, st, evs, ended, ae)
      | .trailer len =>
        let msg := st.decoded.take len
        match decodeTrailersFrame false (st.decoded.drop len) with
        | none => (R.out .err, { st with decoded := [] }, evs, ended, ae)
        | some t? =>
          let tr := match t? with
            | some t => some t
            | none => st.trailers
          if !msg.isEmpty then (R.out (.data msg), { decoded := [], trailers := tr }, evs, ended, ae)
          else match tr with
            | some t => (R.out (.trailers t), { decoded := [], trailers := none }, evs, ended, ae)
            | none => (R.out .eos, { decoded := [], trailers := none }, evs, ended, ae)
      | .incomplete => poll limit f st evs ended ae
      | .done len =>
        if len = 0 then (R.out .eos, st, evs, ended, ae)
        else (R.out (.data (st.decoded.take len)), { st with decoded := st.decoded.drop len }, evs, ended, ae)
    match evs with
    | .pending :: r => poll limit f st r ended ae
    | .data b :: r => after { st with decoded := st.decoded ++ b } r ended ae
    | .trailers t :: r => poll limit f { st with trailers := mergeTrailers st.trailers t } r ended ae
    | .err :: r => (.out .err, st, r, ended, ae)
    | [] =>
      if ended then
        if ae + 1 > limit then (.busy, st, [], true, ae + 1)
        else after st [] true (ae + 1)
      else after st [] true ae

/-- The consumer: poll until `None`, an error, or forever. Returns the frames and `ae`. -/
def run (limit : Nat) : Nat → St → List BodyEv → Bool → Nat → List Out × Bool × Nat
  | 0, _, _, _, ae => ([], true, ae)
  | f + 1, st, evs, ended, ae =>
    match poll limit (limit + evs.length + 4) st evs ended ae with
    | (.busy, _, _, _, ae') => ([], true, ae')
    | (.out .eos, _, _, _, ae') => ([.eos], false, ae')
    | (.out .err, _, _, _, ae') => ([.err], false, ae')
    | (.out o, st', evs', ended', ae') =>
      let (os, busy, ae'') := run limit f st' evs' ended' ae'
      (o :: os, busy, ae'')

/-- frames, whether the run ended in a busy loop, and polls of the inner body past its end -/
def observe (limit : Nat) (evs : List BodyEv) : List Out × Bool × Nat :=
  run limit (WebServer.flat evs).length.succ.succ.succ (St.mk [] none) evs false 0
    |> fun r => r

end AsIs

/-! ### the code after the fixes -/
namespace Fixed

/-- what one pass through `find_trailers` and the `match` after it does -/
inductive Step where
  | emit (o : Out) (st : St)   -- a frame is returned; the next poll continues with `st`
  | again (st : St)            -- `continue`
  | stop (o : List Out)        -- a terminal result (`err`, or trailers/`None` at the end)
  deriving Repr

def mergeOpt (cur : Option (List Pair)) : Option (List Pair) → Option (List Pair)
  | some t => mergeTrailers cur t
  | none => cur

/-- `FindTrailers::Trailer(len)`: `copy_to_bytes(len)`, then exactly the trailers frame is
split off and decoded; the messages in front (if any) are returned, else `continue`. -/
def onTrailer (st : St) (len : Nat) : Step :=
  match hdr5 (st.decoded.drop len) with
  | none => .stop [.err]   -- unreachable: `Trailer` is only reported with ≥ 5 bytes there
  | some (_, n, _) =>
    match decodeTrailersFrame true ((st.decoded.drop len).take (5 + n)) with
    | none => .stop [.err]
    | some t? =>
      let st' : St := { decoded := (st.decoded.drop len).drop (5 + n),
                        trailers := mergeOpt st.trailers t? }
      if len > 0 then .emit (.data (st.decoded.take len)) st' else .again st'

/-- `FindTrailers::Done(0)`: nothing complete is buffered. -/
def onExhausted (eof : Bool) (st : St) : Step :=
  if !eof then .again st
  else if !st.decoded.isEmpty then .stop [.err]
  else match st.trailers with
    | some t => .emit (.trailers t) { st with trailers := none }
    | none => .stop [.eos]

/-- The `match find_trailers(..)` of the client loop; `eof` = the inner body has ended. -/
def afterPoll (eof : Bool) (st : St) : Step :=
  match findTrailers true st.decoded with
  | .bad => .stop [.err]
  | .trailer len => onTrailer st len
  | .incomplete => if eof then .stop [.err] else .again st
  | .done len =>
    if len = 0 then onExhausted eof st
    else .emit (.data (st.decoded.take len)) { st with decoded := st.decoded.drop len }

/-- After the inner body has ended (`inner_done`): the loop only works on what is buffered.
Fuel: every `emit`/`again` here consumes buffered bytes or the stored trailers; that the `0` case
is never reached with the fuel `run` passes is `WebClientLemmas.drain_drains` / `run_runs`
(Lemmas/WebClientFuel: `run` computes the fuel-free relation `Runs`). -/
def drain : Nat → St → List Out
  | 0, _ => [.err]
  | f + 1, st =>
    match afterPoll true st with
    | .stop os => os
    | .emit o st' => o :: drain f st'
    | .again st' => drain f st'

/-- The consumer's view: frames until the first `None` / error.  One inner event is taken per
pass of the loop (`poll_decode`), then one `afterPoll`; after the inner body has ended it is
never polled again. -/
def run (st : St) : List BodyEv → List Out
  | [] => drain (st.decoded.length + 3) st
  | .pending :: r => run st r
  | .err :: _ => [.err]
  | .trailers t :: r => run { st with trailers := mergeTrailers st.trailers t } r
  | .data b :: r =>
    match afterPoll false { st with decoded := st.decoded ++ b } with
    | .stop os => os
    | .emit o st' => o :: run st' r
    | .again st' => run st' r

def observe (evs : List BodyEv) : List Out := run {} evs

end Fixed

/-! ### the response head: `ResponseFuture::poll` of `GrpcWebClientService` (client.rs)

`Poll::Ready(res.map(|r| r.map(GrpcWebCall::client_response)))`: only the BODY of the inner
service's response is wrapped; `http::Response::map` keeps status, version, headers and extensions
as they are.  `client_response(body)` is `new_client(body, Direction::Decode, Encoding::None)`: the
response's `content-type` (or anything else of the head) is not consulted — the body is always
read as a binary grpc-web body, also when the response says `application/grpc-web-text`
(`Encoding::from_content_type` is only used by the SERVER layer, for requests), and nothing is
rewritten in the headers (in particular `content-type` is not turned into `application/grpc`). -/

/-- status, version and headers of an HTTP response -/
structure RespHead where
  status : Nat := 200
  version : WebServer.Ver := .h11
  headers : List Pair := []
  deriving DecidableEq, Repr

/-- the `content-type` the response carries (`HeaderMap::get`: its first value) -/
def RespHead.contentType (h : RespHead) : Option Bytes := WebServer.hget WebServer.CONTENT_TYPE h.headers

/-- The `Encoding` the response body is decoded with: `client_response` passes `Encoding::None`
whatever the response head says. -/
def responseEncoding (_head : RespHead) : WebServer.Enc := .none

/-- What the caller of the client layer gets for the inner service's response (`head`, body
events `evs`): the head as it is, and the frames of `GrpcWebCall` in client/Decode mode with
`Encoding::None` (`poll_decode` hands the inner frames on, `Fixed.run` is the loop around it). -/
def respond (head : RespHead) (evs : List BodyEv) : RespHead × List Out :=
  (head, Fixed.observe evs)

end WebClient
