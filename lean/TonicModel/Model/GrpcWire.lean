import TonicModel.Model.Interceptor
/-
Model of two spots of the gRPC request / response head that the dimension audit of C03 (builder aC03)
brought under the correspondence run:

  * `tonic/src/response.rs` `Response::into_http` + `tonic/src/server/grpc.rs` `map_response`, Ok arm:
    the head of a NORMAL (not trailers-only) response — built from the handler's own metadata;
  * `tonic/src/client/grpc.rs`: `client::Grpc<T>` as a VALUE that is used for a sequence of calls and
    cloned — `prepare_request` reads the configuration and nothing else.

Each comes with the counter-model of a plausible slip (mutants aC03-2 / aC03-3 of `reviews/muts`).
-/
namespace GrpcWire
open HMapLite HttpLite Interceptor

/-- `tonic::Response<T>::into_http`: `http::Response::new` (status 200), version HTTP/2, the metadata
with the reserved names removed, the extensions. -/
def responseIntoHttp {ρ} (metadata : Hdrs) (ext : Ext) (b : ρ) : Response ρ :=
  { status := 200, version := 2, headers := intoSanitizedHeaders metadata, ext := ext, body := b }

def nameGrpcEncoding : Bytes := str "grpc-encoding"

/-- `server::Grpc::map_response`, `Ok` arm, head only: content-type inserted, then `grpc-encoding` when a
response encoding was negotiated (the body — `EncodeBody::new_server` — is `Model/Framing`). -/
def mapResponseOk {ρ} (metadata : Hdrs) (ext : Ext) (enc : Option Bytes) (b : ρ) : Response ρ :=
  let r := responseIntoHttp metadata ext b
  let h := insert nameContentType (grpcContentType, false) r.headers
  let h := match enc with
    | some e => insert nameGrpcEncoding (e, false) h
    | none => h
  { r with headers := h }

/-- counter-model (mutant aC03-2): `into_http` takes the handler's metadata as it is -/
def mapResponseOkUnsanitized {ρ} (metadata : Hdrs) (ext : Ext) (enc : Option Bytes) (b : ρ) : Response ρ :=
  let h := insert nameContentType (grpcContentType, false) (metadataIntoHeaders metadata)
  let h := match enc with
    | some e => insert nameGrpcEncoding (e, false) h
    | none => h
  { status := 200, version := 2, headers := h, ext := ext, body := b }

/-! ### `client::Grpc` as a value with a history -/

/-- what `GrpcConfig` holds of the origin -/
structure Cfg where
  originPrefix : Bytes
  originPath : Bytes
  originHasQuery : Bool
deriving Repr, DecidableEq

/-- one call: `streaming` → `prepare_request(request, path)`; the value is read, never written -/
def callOnce {β} (c : Cfg) (path : Bytes) (t : TRequest β) : Cfg × Request β :=
  (c, prepareRequest c.originPrefix c.originPath c.originHasQuery path t)

/-- a history of calls on one value: the value afterwards, the requests sent -/
def run {β} (c : Cfg) : List (Bytes × TRequest β) → Cfg × List (Request β)
  | [] => (c, [])
  | (p, t) :: rest =>
    let (c1, r) := callOnce c p t
    let (c2, rs) := run c1 rest
    (c2, r :: rs)

/-- `Clone for Grpc<T>`: field by field -/
def clone (c : Cfg) : Cfg := { originPrefix := c.originPrefix, originPath := c.originPath, originHasQuery := c.originHasQuery }

/-- counter-model (mutant aC03-3): the value remembers the first URI it built (`OnceLock<Uri>`) -/
structure CachedSt where
  cfg : Cfg
  uri : Option Bytes
deriving Repr, DecidableEq

def callCached {β} (s : CachedSt) (path : Bytes) (t : TRequest β) : CachedSt × Request β :=
  let fresh := prepareRequest s.cfg.originPrefix s.cfg.originPath s.cfg.originHasQuery path t
  match s.uri with
  | some u => (s, { fresh with uri := u })
  | none => ({ s with uri := some fresh.uri }, fresh)

end GrpcWire
