import TonicModel.Basic.TlsVocab
/-
Model of tonic's TLS *decision logic* (C15), following the code branch by branch:

  tonic/src/transport/channel/tls.rs            ClientTlsConfig builder, into_tls_connector
  tonic/src/transport/channel/service/tls.rs    TlsConnector::new / connect
  tonic/src/transport/channel/service/connector.rs   Connector::call
  tonic/src/transport/channel/endpoint.rs       Endpoint::new / from_shared / tls_config
  tonic/src/transport/server/tls.rs             ServerTlsConfig builder, tls_acceptor
  tonic/src/transport/server/service/tls.rs     TlsAcceptor::new
  tonic/src/transport/server/conn.rs, service/io.rs, request.rs   TlsConnectInfo, extensions, peer_certs

rustls/webpki (certificate path validation, the handshake itself) is NOT modelled: it is the
parameter `hs`.  The model is of the tree WITH fixes/fix-C15-with-enabled-roots.patch applied;
the behaviour of the unchanged 0.13.0 tree is kept as `ClientOp.applyAsIs`.
-/
namespace Tls
variable {Root Chain : Type}

inductive CfgErr
  | invalidUri | nativeCertsNotFound | certParse | keyParse | identityRejected
  | invalidDnsName | noRootAnchors
  deriving DecidableEq, Repr

/-! ### `ClientTlsConfig` (channel/tls.rs) -/

structure ClientTlsConfig (Root Chain : Type) where
  domain : Option String := none
  certs : List (Pem Root) := []
  trustAnchors : List Root := []
  identity : Option (IdentityPem Chain) := none
  assumeHttp2 : Bool := false
  withNativeRoots : Bool := false
  withWebpkiRoots : Bool := false
  useKeyLog : Bool := false

/-- One builder call (fixed tree: `with_enabled_roots` keeps `self`). -/
def ClientOp.apply (c : ClientTlsConfig Root Chain) : ClientOp Root Chain → ClientTlsConfig Root Chain
  | .domainName d => { c with domain := some d }
  | .caCertificate p => { c with certs := c.certs ++ [p] }
  | .caCertificates ps => { c with certs := c.certs ++ ps }
  | .trustAnchor r => { c with trustAnchors := c.trustAnchors ++ [r] }
  | .trustAnchors rs => { c with trustAnchors := c.trustAnchors ++ rs }
  | .identity i => { c with identity := some i }
  | .assumeHttp2 b => { c with assumeHttp2 := b }
  | .useKeyLog => { c with useKeyLog := true }
  | .withNativeRoots => { c with withNativeRoots := true }
  | .withWebpkiRoots => { c with withWebpkiRoots := true }
  | .withEnabledRoots => { c with withNativeRoots := true, withWebpkiRoots := true }

/-- The unchanged 0.13.0 tree: `with_enabled_roots` starts from `ClientTlsConfig::new()` and
so forgets everything configured before it. -/
def ClientOp.applyAsIs (c : ClientTlsConfig Root Chain) : ClientOp Root Chain → ClientTlsConfig Root Chain
  | .withEnabledRoots => { withNativeRoots := true, withWebpkiRoots := true }
  | op => op.apply c

/-- `ClientTlsConfig::new()` followed by the builder calls in order. -/
def ClientTlsConfig.build (ops : List (ClientOp Root Chain)) : ClientTlsConfig Root Chain :=
  ops.foldl ClientOp.apply {}

def ClientTlsConfig.buildAsIs (ops : List (ClientOp Root Chain)) : ClientTlsConfig Root Chain :=
  ops.foldl ClientOp.applyAsIs {}

/-! ### `TlsConnector::new` (channel/service/tls.rs) -/

structure TlsConnector (Root Chain : Type) where
  roots : List Root
  identity : Option Chain
  domain : String
  assumeHttp2 : Bool

/-- `for cert in ca_certs { roots.add_parsable_certificates(convert(cert)?) }` -/
def addCaCerts (roots : List Root) : List (Pem Root) → Except CfgErr (List Root)
  | [] => .ok roots
  | none :: _ => .error .certParse
  | some rs :: rest => addCaCerts (roots ++ rs) rest

/-- `convert_identity_to_pki_types` then rustls' own check of the pair. -/
def IdentityPem.load (i : IdentityPem Chain) : Except CfgErr Chain :=
  match i.cert with
  | none => .error .certParse
  | some ch =>
    if !i.keyOk then .error .keyParse
    else if !i.accepted then .error .identityRejected
    else .ok ch

def loadOptIdentity : Option (IdentityPem Chain) → Except CfgErr (Option Chain)
  | none => .ok none
  | some i => match i.load with
    | .ok ch => .ok (some ch)
    | .error e => .error e

/-- `let mut roots = RootCertStore::from_iter(trust_anchors);` then, under
`#[cfg(feature = "tls-native-roots")] if with_native_roots { … }`: load the platform store,
fail if it is empty, add it. -/
def nativeStep (sys : Sys Root) (cfg : ClientTlsConfig Root Chain) : Except CfgErr (List Root) :=
  if sys.featNative && cfg.withNativeRoots then
    (if sys.nativeCerts.isEmpty then .error .nativeCertsNotFound
     else .ok (cfg.trustAnchors ++ sys.nativeCerts))
  else .ok cfg.trustAnchors

/-- `#[cfg(feature = "tls-webpki-roots")] if with_webpki_roots { roots.extend(…) }` -/
def webpkiStep (sys : Sys Root) (cfg : ClientTlsConfig Root Chain) (roots : List Root) : List Root :=
  if sys.featWebpki && cfg.withWebpkiRoots then roots ++ sys.webpkiRoots else roots

def TlsConnector.new (sys : Sys Root) (cfg : ClientTlsConfig Root Chain) (domain : String) :
    Except CfgErr (TlsConnector Root Chain) :=
  match nativeStep sys cfg with
  | .error e => .error e
  | .ok roots1 =>
    -- for cert in ca_certs { roots.add_parsable_certificates(convert(&cert)?) }
    match addCaCerts (webpkiStep sys cfg roots1) cfg.certs with
    | .error e => .error e
    | .ok roots3 =>
      -- identity: convert_identity_to_pki_types(&identity)?; with_client_auth_cert(..)?
      match loadOptIdentity cfg.identity with
      | .error e => .error e
      | .ok ident =>
        -- domain: Arc::new(ServerName::try_from(domain)?.to_owned())
        if sys.validServerName domain then
          .ok { roots := roots3, identity := ident, domain := domain, assumeHttp2 := cfg.assumeHttp2 }
        else .error .invalidDnsName

/-- `ClientTlsConfig::into_tls_connector(uri)` -/
def ClientTlsConfig.intoTlsConnector (sys : Sys Root) (cfg : ClientTlsConfig Root Chain) (uri : Uri) :
    Except CfgErr (TlsConnector Root Chain) :=
  match cfg.domain with
  | some d => TlsConnector.new sys cfg d
  | none => match uri.host with
    | some h => TlsConnector.new sys cfg h
    | none => .error .invalidUri

/-! ### `Endpoint` (channel/endpoint.rs) -/

structure Endpoint (Root Chain : Type) where
  uri : Uri
  tls : Option (TlsConnector Root Chain)
  /-- `Endpoint::origin(..)`: the URI `AddOrigin` writes into requests (`:scheme`, `:authority`).  It is read by
  `Connection::new` only; `tls_config`, `Endpoint::new` and the connector never look at it. -/
  origin : Option Uri := none

/-- `Endpoint::from_shared` / `from_static`: no TLS until `tls_config` is called. -/
def Endpoint.fromShared (uri : Uri) : Endpoint Root Chain := { uri := uri, tls := none }

/-- `Endpoint::tls_config` -/
def Endpoint.tlsConfig (sys : Sys Root) (ep : Endpoint Root Chain) (cfg : ClientTlsConfig Root Chain) :
    Except CfgErr (Endpoint Root Chain) :=
  match cfg.intoTlsConnector sys ep.uri with
  | .ok t => .ok { ep with tls := some t }
  | .error e => .error e

/-- `Endpoint::origin` -/
def Endpoint.setOrigin (ep : Endpoint Root Chain) (o : Uri) : Endpoint Root Chain := { ep with origin := some o }

/-- A variant that is NOT the code (seed C15f): `tls_config` derives the connector's server name from the
overridden origin when there is one ("the origin plays the role of SNI") — in rustls the SNI name is also the
name the certificate is verified against. -/
def Endpoint.tlsConfigOriginName (sys : Sys Root) (ep : Endpoint Root Chain) (cfg : ClientTlsConfig Root Chain) :
    Except CfgErr (Endpoint Root Chain) :=
  let uri := match ep.origin with
    | some o => if o.host.isSome then o else ep.uri
    | none => ep.uri
  match cfg.intoTlsConnector sys uri with
  | .ok t => .ok { ep with tls := some t }
  | .error e => .error e

/-- `Endpoint::new` (what generated `connect` calls): https ⇒ TLS with the enabled roots. -/
def Endpoint.new (sys : Sys Root) (uri : Uri) : Except CfgErr (Endpoint Root Chain) :=
  if uri.scheme = some .https then
    (Endpoint.fromShared uri).tlsConfig sys (ClientTlsConfig.build [.withEnabledRoots])
  else .ok (Endpoint.fromShared uri)

/-- `Endpoint::new(dst)` with `dst` an `Endpoint` value (`D: TryInto<Endpoint>` is satisfied by
`Endpoint` itself; generated `connect(dst)` functions pass `dst` on): an https endpoint that
carries NO TLS connector yet gets the default one; an endpoint the caller configured keeps its
connector (`me.tls.is_none() && …` — the tree with the `Endpoint::new` fix). -/
def Endpoint.newFrom (sys : Sys Root) (ep : Endpoint Root Chain) : Except CfgErr (Endpoint Root Chain) :=
  if ep.tls.isNone && ep.uri.scheme = some .https then
    ep.tlsConfig sys (ClientTlsConfig.build [.withEnabledRoots])
  else .ok ep

/-- The tree as found (0.13.0): `Endpoint::new` replaces whatever TLS configuration an https
endpoint carries by `ClientTlsConfig::new().with_enabled_roots()`. -/
def Endpoint.newFromAsIs (sys : Sys Root) (ep : Endpoint Root Chain) : Except CfgErr (Endpoint Root Chain) :=
  if ep.uri.scheme = some .https then
    ep.tlsConfig sys (ClientTlsConfig.build [.withEnabledRoots])
  else .ok ep

/-! ### one process, several configurations and endpoints

`ClientTlsConfig` is `#[derive(Clone)]` over plain owned fields (`Option<String>`, `Vec<_>`,
`bool`): a clone is a copy.  Every builder method takes `self` and returns the updated value;
`into_tls_connector(self, uri)` takes `self`, reads its fields and the URI, and returns a
connector: there is no state a configuration shares with its clones, with configurations derived
from it, or with the endpoints it was used for.  `Endpoint` likewise (`tls: Option<TlsConnector>`
is a field; `connect*(&self)` clones what it needs).  The process state is therefore nothing but
the values of the variables. -/

structure Proc (Root Chain : Type) where
  cfgs : List (ClientTlsConfig Root Chain) := []
  /-- the `Result`s of the endpoint-defining expressions -/
  eps : List (Except CfgErr (Endpoint Root Chain)) := []

/-- One statement. A statement that names a variable which does not exist is not a program
(it would not compile); it is skipped. -/
def Proc.exec (sys : Sys Root) (p : Proc Root Chain) : Stmt Root Chain → Proc Root Chain
  | .config none ops => { p with cfgs := p.cfgs ++ [ops.foldl ClientOp.apply {}] }
  | .config (some k) ops =>
    match p.cfgs[k]? with
    | some c => { p with cfgs := p.cfgs ++ [ops.foldl ClientOp.apply c] }
    | none => p
  | .endpoint uri => { p with eps := p.eps ++ [.ok (Endpoint.fromShared uri)] }
  | .endpointNew uri => { p with eps := p.eps ++ [Endpoint.new sys uri] }
  | .cloneEndpoint e =>
    match p.eps[e]? with
    | some r => { p with eps := p.eps ++ [r] }
    | none => p
  | .tlsConfig e c =>
    match p.eps[e]?, p.cfgs[c]? with
    | some (.ok ep), some cfg => { p with eps := p.eps ++ [ep.tlsConfig sys cfg] }
    | some (.error err), some _ => { p with eps := p.eps ++ [.error err] }   -- `eK?` already failed
    | _, _ => p
  -- `connect(&self)` / `connect_lazy(&self)` / `connect_with_connector(&self, ..)`
  | .connect _ => p
  | .endpointNewFrom e =>
    match p.eps[e]? with
    | some (.ok ep) => { p with eps := p.eps ++ [Endpoint.newFrom sys ep] }
    | some (.error err) => { p with eps := p.eps ++ [.error err] }   -- `eK?` already failed
    | none => p

def Proc.run (sys : Sys Root) (prog : List (Stmt Root Chain)) : Proc Root Chain :=
  prog.foldl (Proc.exec sys) {}

/-- `Endpoint::from_shared(uri)?.tls_config(cN.clone())` executed in process state `p`. -/
def Proc.useConfig (sys : Sys Root) (p : Proc Root Chain) (c : Nat) (uri : Uri) : Proc Root Chain :=
  (p.exec sys (.endpoint uri)).exec sys (.tlsConfig p.eps.length c)

/-! ### `TlsConnector::connect`, `Connector::call` -/

def TlsConnector.hello (t : TlsConnector Root Chain) : ClientHello Root Chain :=
  { roots := t.roots, domain := t.domain, identity := t.identity, alpn := [alpnH2] }

inductive ConnErr
  | dial | httpsWithoutTls | alpnAlert | badCert (f : CertFault) | tlsError | h2NotNegotiated
  deriving DecidableEq, Repr

/-- What the HTTP/2 client ends up writing onto. -/
inductive Io
  | plain
  | tls (alpn : Option String)
  deriving DecidableEq, Repr

def TlsConnector.connect (t : TlsConnector Root Chain) (hs : ClientHello Root Chain → ClientView) :
    Except ConnErr Io :=
  -- RustlsConnector::from(config).connect(domain, io).await?
  match hs t.hello with
  | .alert => .error .alpnAlert
  | .badCert f => .error (.badCert f)
  | .garbage => .error .tlsError
  | .done a =>
    -- if !(alpn_protocol == Some(ALPN_H2) || self.assume_http2) { return Err(H2NotNegotiated) }
    if a = some alpnH2 || t.assumeHttp2 then .ok (.tls a) else .error .h2NotNegotiated

def Connector.call (ep : Endpoint Root Chain) (dialOk : Bool)
    (hs : ClientHello Root Chain → ClientView) : Except ConnErr Io :=
  -- let io = connect.await?;
  if !dialOk then .error .dial
  else if ep.uri.scheme = some .https then
    match ep.tls with
    | some t => t.connect hs
    | none => .error .httpsWithoutTls
  else .ok .plain

/-- The decision for the endpoint a process defined last: the configuration error its defining
expression returned, or what `Connector::call` does with the endpoint. -/
def Proc.lastDecision (p : Proc Root Chain) (dialOk : Bool) (hs : ClientHello Root Chain → ClientView) :
    Option (Except CfgErr (Except ConnErr Io)) :=
  match p.eps.getLast? with
  | some (.ok ep) => some (.ok (Connector.call ep dialOk hs))
  | some (.error e) => some (.error e)
  | none => none

/-! ### `ServerTlsConfig`, `TlsAcceptor::new` -/

structure ServerTlsConfig (Root Chain : Type) where
  identity : Option (IdentityPem Chain) := none
  clientCaRoot : Option (Pem Root) := none
  clientAuthOptional : Bool := false
  ignoreClientOrder : Bool := false
  useKeyLog : Bool := false

def ServerOp.apply (c : ServerTlsConfig Root Chain) : ServerOp Root Chain → ServerTlsConfig Root Chain
  | .identity i => { c with identity := some i }
  | .clientCaRoot p => { c with clientCaRoot := some p }
  | .clientAuthOptional b => { c with clientAuthOptional := b }
  | .ignoreClientOrder b => { c with ignoreClientOrder := b }
  | .useKeyLog => { c with useKeyLog := true }

def ServerTlsConfig.build (ops : List (ServerOp Root Chain)) : ServerTlsConfig Root Chain :=
  ops.foldl ServerOp.apply {}

inductive Built (α : Type)
  | ok (a : α)
  | err (e : CfgErr)
  /-- `self.identity.as_ref().unwrap()` with no identity configured -/
  | panic
  deriving Repr

/-- The client-auth mode handed to rustls. -/
def clientAuthMode (ca : Option (Pem Root)) (optional : Bool) : Except CfgErr (ClientAuth Root) :=
  match ca with
  | none => .ok .off
  | some none => .error .certParse
  | some (some rs) =>
    -- WebPkiClientVerifier::builder(roots).build()? fails on an empty store
    if rs.isEmpty then .error .noRootAnchors
    else if optional then .ok (.optional rs) else .ok (.required rs)

/-- `ServerTlsConfig::tls_acceptor` = `TlsAcceptor::new(identity.unwrap(), …)`. -/
def ServerTlsConfig.tlsAcceptor (cfg : ServerTlsConfig Root Chain) : Built (ServerHello Root Chain) :=
  match cfg.identity with
  | none => .panic
  | some i =>
    match clientAuthMode cfg.clientCaRoot cfg.clientAuthOptional with
    | .error e => .err e
    | .ok mode =>
      match i.load with
      | .error e => .err e
      | .ok ch => .ok { chain := ch, clientAuth := mode, alpn := [alpnH2] }

/-! ### the `Server` builder (server/mod.rs): `tls_config`, `layer` -/

/-- The `Server<L>` builder calls the TLS wiring can see. -/
inductive ServerStep (Root Chain : Type)
  /-- `.tls_config(ServerTlsConfig::new().<ops>)?` -/
  | tlsConfig (ops : List (ServerOp Root Chain))
  /-- `.layer(l)`: builds a `Server<Stack<..>>` field by field, `tls: self.tls` among them -/
  | layer

/-- One step on the builder's `tls: Option<TlsAcceptor>` field.  `tls_config` REPLACES the
acceptor (`Server { tls: Some(..), ..self }`), `layer` carries it over. -/
def ServerStep.apply (tls : Option (ServerHello Root Chain)) :
    ServerStep Root Chain → Built (Option (ServerHello Root Chain))
  | .tlsConfig ops =>
    match (ServerTlsConfig.build ops).tlsAcceptor with
    | .ok s => .ok (some s)
    | .err e => .err e
    | .panic => .panic
  | .layer => .ok tls

/-- `Server::builder().<steps>` with `?` after every `tls_config`: the acceptor the serve loop
gets (`ServerIoStream::new(incoming, self.tls)`). -/
def ServerBuilder.runFrom (tls : Option (ServerHello Root Chain)) :
    List (ServerStep Root Chain) → Built (Option (ServerHello Root Chain))
  | [] => .ok tls
  | st :: rest =>
    match st.apply tls with
    | .ok tls' => ServerBuilder.runFrom tls' rest
    | .err e => .err e
    | .panic => .panic

def ServerBuilder.run (steps : List (ServerStep Root Chain)) : Built (Option (ServerHello Root Chain)) :=
  ServerBuilder.runFrom none steps

/-! ### connection info → request extensions → `Request::peer_certs` -/

structure TlsConnectInfo (Chain : Type) where
  inner : InnerInfo
  certs : Option Chain

/-- `impl Connected for TlsStream<T>`: certs = `session.peer_certificates()`. -/
def tlsStreamConnectInfo (inner : InnerInfo) (sessionPeer : Option Chain) : TlsConnectInfo Chain :=
  { inner := inner, certs := sessionPeer }

/-- The part of the request extensions the TLS wiring writes (`ConnectInfo::call`). -/
structure Extensions (Chain : Type) where
  tcp : Bool
  tls : Option (TlsConnectInfo Chain)

/-- `ServerIo::TlsIo` (tonic accepted TLS): inserts the inner info and the TLS info. -/
def extensionsTlsIo (i : TlsConnectInfo Chain) : Extensions Chain :=
  { tcp := i.inner = .tcp, tls := some i }

/-- `ServerIo::Io` over an IO type that is itself a `TlsStream<T>` (the user accepted TLS):
only that type's own connect info is inserted. -/
def extensionsUserTls (i : TlsConnectInfo Chain) : Extensions Chain :=
  { tcp := false, tls := some i }

/-- `ServerIo::Io` over a plain IO. -/
def extensionsPlain (inner : InnerInfo) : Extensions Chain :=
  { tcp := inner = .tcp, tls := none }

/-- `Request::peer_certs`: looks up `TlsConnectInfo<TcpConnectInfo>` only. -/
def Request.peerCerts (e : Extensions Chain) : Option Chain :=
  match e.tls with
  | some i => if i.inner = .tcp then i.certs else none
  | none => none

/-- `request.extensions().get::<TlsConnectInfo<T>>()` for the right `T`. -/
def Request.tlsInfoCerts (e : Extensions Chain) : Option (Option Chain) :=
  e.tls.map (·.certs)

/-! ### one call, end to end (composition used by the correspondence run) -/

inductive ServerKind (Root Chain : Type)
  /-- `Server::builder().tls_config(cfg)` -/
  | tonicTls (s : ServerHello Root Chain)
  /-- TLS accepted outside tonic, streams handed to a tonic server without `tls_config` -/
  | userTls (s : ServerHello Root Chain)
  /-- no TLS at all -/
  | plain

inductive Why
  | conn (e : ConnErr)
  /-- the client side went through but the server never served the connection -/
  | rejected
  deriving DecidableEq, Repr

structure Outcome (Chain : Type) where
  ok : Bool
  why : Option Why
  handlers : Nat
  /-- `Request::peer_certs()` as seen by the handler -/
  peer : Option (Option Chain)
  /-- certs in the `TlsConnectInfo` extension as seen by the handler (`none` = no such extension) -/
  ext : Option (Option (Option Chain))
  /-- request bytes went onto the wire unencrypted -/
  plaintext : Bool

def Outcome.failed (w : Why) (plaintext : Bool) : Outcome Chain :=
  { ok := false, why := some w, handlers := 0, peer := none, ext := none, plaintext := plaintext }

def Outcome.served (e : Extensions Chain) (plaintext : Bool) : Outcome Chain :=
  { ok := true, why := none, handlers := 1, peer := some (Request.peerCerts e),
    ext := some (Request.tlsInfoCerts e), plaintext := plaintext }

def serverHelloOf : ServerKind Root Chain → Option (ServerHello Root Chain)
  | .tonicTls s => some s
  | .userTls s => some s
  | .plain => none

/-- One unary call over a fresh channel to a fresh server. -/
def scenario (ep : Endpoint Root Chain) (srv : ServerKind Root Chain) (inner : InnerInfo)
    (hs : Handshake Root Chain) : Outcome Chain :=
  let clientView : ClientHello Root Chain → ClientView := fun h =>
    match serverHelloOf srv with
    | some s => (hs h s).client
    | none => .garbage
  match Connector.call ep true clientView with
  | .error e => .failed (.conn e) false
  | .ok .plain =>
    match srv with
    | .plain => .served (extensionsPlain inner) true
    | _ => .failed .rejected true          -- clear text into a TLS acceptor
  | .ok (.tls _) =>
    match ep.tls, srv with
    | some t, .tonicTls s =>
      match (hs t.hello s).server with
      | some peer => .served (extensionsTlsIo (tlsStreamConnectInfo inner peer)) false
      | none => .failed .rejected false
    | some t, .userTls s =>
      match (hs t.hello s).server with
      | some peer => .served (extensionsUserTls (tlsStreamConnectInfo inner peer)) false
      | none => .failed .rejected false
    | _, _ => .failed .rejected false

end Tls
