import TonicModel.Model.Framing
import TonicModel.Basic.LimitProg
/-
Model of the way the two size limits live in `server::Grpc<T>` (tonic/src/server/grpc.rs) and
`client::Grpc<T>` / `GrpcConfig` (tonic/src/client/grpc.rs), and of what one call makes of them.

  * the fields: `max_decoding_message_size`, `max_encoding_message_size : Option<usize>` (plus the
    two compression sets, of which the model keeps whether gzip was enabled); every builder method
    is `mut self -> Self` writing its own field; `apply_max_message_size_config` calls the two
    setters for the `Some` arguments; `Clone` copies field by field → `Cfg.step`;
  * the calls take `&mut self` and only READ the fields: every `Streaming::new_request` /
    `new_response` gets `max_decoding_message_size`, every `EncodeBody::new_server` / `new_client`
    gets `max_encoding_message_size` → `serverCall`, `clientCall` leave the configuration alone.

Messages are complete, valid frames given by their on-the-wire payload length (< 2^32), so the
codec's answers are the limit decisions of `Model/Framing.lean`: `Dec.decodeChunk` refuses a declared
length over `DecCfg.limit` (`recvAll`), `encodeErr` a payload over `EncCfg.maxSize` (`sendAll`).
-/
namespace LimitCfg
open Framing LimitProg

/-- the limit-related fields of a `Grpc` value -/
structure Cfg where
  dec : Option Nat := none
  enc : Option Nat := none
  acceptZ : Bool := false
  sendZ : Bool := false
deriving DecidableEq, Repr

def Cfg.step (c : Cfg) : Op → Cfg
  | .setDec l => { c with dec := some l }
  | .setEnc l => { c with enc := some l }
  | .apply d e =>
    let c1 := match d with | some l => { c with dec := some l } | none => c
    match e with | some l => { c1 with enc := some l } | none => c1
  | .acceptZ => { c with acceptZ := true }
  | .sendZ => { c with sendZ := true }
  | .clone => { dec := c.dec, enc := c.enc, acceptZ := c.acceptZ, sendZ := c.sendZ }

/-- `decode_chunk`'s limit test for a `Streaming` built with `max_message_size = d` -/
def decRefusesLen (d : Option Nat) (n : Nat) : Bool :=
  decide (n > ({ enc := none, maxSize := d, dir := .request } : DecCfg).limit)

/-- `finish_encoding`'s limit test for an `EncodeBody` built with `max_message_size = e`
(lengths are below 2^32: the RESOURCE_EXHAUSTED branch is out of reach) -/
def encRefusesLen (e : Option Nat) (n : Nat) : Bool :=
  match e with
  | some l => decide (n > l)
  | none => false

/-- What draining a `Streaming` (limit `d`) over complete valid frames of these lengths yields:
the number of messages, and whether it then fails with OUT_OF_RANGE (the first error is final). -/
def recvAll (d : Option Nat) : List Nat → Nat × Bool
  | [] => (0, false)
  | n :: r =>
    if decRefusesLen d n then (0, true)
    else ((recvAll d r).1 + 1, (recvAll d r).2)

/-- What an `EncodeBody` (limit `e`) over a ready stream of messages of these lengths delivers: the
number of frames ahead of the status, and whether that status is OUT_OF_RANGE. -/
def sendAll (e : Option Nat) : List Nat → Nat × Bool
  | [] => (0, false)
  | n :: r =>
    if encRefusesLen e n then (0, true)
    else ((sendAll e r).1 + 1, (sendAll e r).2)

/-- `map_response` over the handler's answer: `unary` / `client_streaming` wrap the one response
message in `tokio_stream::once`, the streaming shapes hand the handler's stream on. -/
def respond (c : Cfg) (k : Call) (m : Nat) : SrvObs :=
  let answer := if k.shape.oneResponse then k.rs.take 1 else k.rs
  let s := sendAll c.enc answer
  ⟨if s.2 then 11 else 0, 1, m, s.1⟩

/-- One call through `server::Grpc::{unary, server_streaming, client_streaming, streaming}` with the
harness's handlers (a streaming handler drains its request stream and passes an error it meets on
as its answer).  `unary` / `server_streaming` go through `map_request_unary`: the first message by
`try_next`, the rest of the body drained by `trailers()`, all before the handler runs. -/
def serverCall (c : Cfg) (k : Call) : SrvObs :=
  let q := recvAll c.dec k.qs
  if k.shape.oneRequest then
    if q.2 then ⟨11, 0, 0, 0⟩
    else if q.1 = 0 then ⟨13, 0, 0, 0⟩       -- "Missing request message."
    else respond c k 1
  else
    if q.2 then ⟨11, 1, q.1, 0⟩
    else respond c k q.1

/-- One call through `client::Grpc::{unary, server_streaming, client_streaming, streaming}` (all of
them `streaming` underneath; `unary` / `client_streaming` then take the first message by
`try_next` and drain the rest by `trailers()`).  The transport reads the request body to its end
and aborts the call when the body fails. -/
def clientCall (c : Cfg) (k : Call) : CliObs :=
  let sent := if k.shape.oneRequest then k.qs.take 1 else k.qs
  let s := sendAll c.enc sent
  if s.2 then ⟨s.1, 0, some 11⟩
  else
    let r := recvAll c.dec k.rs
    if k.shape.oneResponse then
      if r.2 then ⟨s.1, 0, some 11⟩
      else if r.1 = 0 then ⟨s.1, 0, some 13⟩  -- "Missing response message."
      else ⟨s.1, 1, none⟩
    else ⟨s.1, r.1, if r.2 then some 11 else none⟩

/-- the program on a server-side `Grpc`: statements re-bind the value, calls borrow it -/
def runServer (c : Cfg) : List Stmt → List SrvObs
  | [] => []
  | .op o :: rest => runServer (c.step o) rest
  | .call k :: rest => serverCall c k :: runServer c rest

def runClient (c : Cfg) : List Stmt → List CliObs
  | [] => []
  | .op o :: rest => runClient (c.step o) rest
  | .call k :: rest => clientCall c k :: runClient c rest

/-- `Grpc::new(codec)` / `Grpc::new(inner)` -/
def Cfg.init : Cfg := {}

end LimitCfg
