import TonicModel.Model.Shutdown
/-
C13, bursts: several connections ready on `incoming` at the same instant, and the shutdown signal
becoming ready BETWEEN two connections of that backlog — after the accept loop was handed the
j-th of them, before it comes back for the next.  On a single-threaded runtime nothing but the
accept itself can make that happen (an `incoming` stream that serves k connections and then stops
the server; a signal future that resolves once the k-th connection was yielded); on a
multi-threaded one any other thread can.

`tonic/src/transport/server/mod.rs`, `serve_internal`: one pass through `loop { select! { biased;
sig, incoming.next() } }` per connection — the signal is looked at again before every single
connection, however many are ready.  In the transition system that is just `step`: `loopAccept` is
enabled by `incomingBranch`, whatever was accepted before.  This file adds

  * `burstLabels base n j` — the schedule of such a burst as a label sequence (what the scenario
    step `K<n>:<j>` of the correspondence run is executed as);
  * `stepDrain` — a COUNTER-MODEL: an accept loop that, having taken one connection, goes on taking
    whatever `incoming` has ready without going back through `select!`, i.e. without looking at the
    signal between the connections of a backlog ("take the whole backlog in one go").  It is not
    tonic's loop; it is there to show that the burst theorem says something
    (`C13_burst_not_accepted_past_signal_fails_for_a_draining_loop`).
-/
namespace Shutdown

/-- n connections become ready on `incoming` at the same instant -/
def burstOffers (n : Nat) : List Label := List.replicate n .offer

/-- the accept loop is handed connections `base`, …, `base + j - 1`, in this order -/
def burstAccepts (base j : Nat) : List Label := (List.range j).map fun i => .loopAccept (base + i)

/-- A burst of `n` connections offered to a server that has `base` connections so far, the first
`j` of them handed to the accept loop, and THEN the shutdown signal becomes ready: connections
`base + j`, …, `base + n - 1` are still queued on `incoming` at that instant. -/
def burstLabels (base n j : Nat) : List Label :=
  burstOffers n ++ burstAccepts base j ++ [.sigFire]

-- ------------------------------------------------------------------ the counter-model

/-- Some connection is ready to be handed to the accept loop. -/
def readyConn (s : State) : Bool := s.conns.any fun cn => cn.pending && (!cn.tls || cn.tlsOk)

/-- The accept loop polls `incoming` WITHOUT having looked at the signal: the step of the loop whose
`select!` does not put the signal first — and the configuration is what it was. -/
def blindStep (s : State) (l : Label) : Option State :=
  (step { s with cfgBiased := false } l).map fun s' => { s' with cfgBiased := s.cfgBiased }

/-- State of the counter-model: the transition system's state, and whether the accept loop is
inside its inner "take what is ready" loop (it took a connection and has not been back to
`select!` since). -/
structure DrainState where
  st : State
  inDrain : Bool

/-- COUNTER-MODEL — not tonic's accept loop.  Like `step`, except that after a connection was
taken the loop polls `incoming` again on the spot (`blindStep`: the signal is not consulted) and
only returns to `select!` when nothing is ready, an accept error came, or `incoming` ended. -/
def stepDrain (d : DrainState) : Label → Option DrainState
  | .loopAccept c =>
    ((if d.inDrain then blindStep d.st (.loopAccept c) else step d.st (.loopAccept c))).map
      fun s' => { st := s', inDrain := true }
  | .loopErr =>
    ((if d.inDrain then blindStep d.st .loopErr else step d.st .loopErr)).map
      fun s' => { st := s', inDrain := false }
  | .loopEnd =>
    ((if d.inDrain then blindStep d.st .loopEnd else step d.st .loopEnd)).map
      fun s' => { st := s', inDrain := false }
  | .loopSig =>
    -- the signal branch belongs to `select!`: the loop only gets there once the inner loop has
    -- found nothing ready
    if d.inDrain && readyConn d.st then none
    else (step d.st .loopSig).map fun s' => { st := s', inDrain := false }
  | l =>
    -- everybody else's steps; an inner loop that finds nothing ready is over
    (step d.st l).map fun s' => { st := s', inDrain := d.inDrain && readyConn d.st }

def runDrain (d : DrainState) : List Label → Option DrainState
  | [] => some d
  | l :: ls => match stepDrain d l with
    | some d' => runDrain d' ls
    | none => none

end Shutdown
