import TonicModel.Basic.ReflDescriptor
/-
Model of `tonic-reflection/src/server/mod.rs` (Builder, `ReflectionServiceState::new`,
`process_file / process_message / process_enum / process_field / extract_name`, the three
look-ups) and of the request loop of `server/v1.rs` = `server/v1alpha.rs` (the two files differ
only in the protobuf package they import, so there is one model; the correspondence run compares
the two real services with each other).

Conventions:
  * the two `HashMap<String, Arc<FileDescriptorProto>>` are association lists with the newest
    entry first and first-match look-up, i.e. `insert` overwrites;
  * `process_*` return the symbols they insert, in insertion order, instead of mutating the map:
    all of them are inserted for the same `fd`, and an `Err` discards the whole state, so nothing
    else about the intermediate map is observable;
  * `FileDescriptorSet::decode` (prost) is not modelled: an encoded registration carries what
    prost made of it (`none` = `DecodeError`), as an environment event;
  * the reflection service's own descriptor set is a parameter (`own`), appended as the last
    encoded registration when `include_reflection_service` is on.

Not modelled (outside the property's quantifier): an error item on the *request* stream
(`let Ok(req) = req else { return }`: the call then ends without a status of its own), and the
`Status::internal("encoding error")` arm (prost's `encode` into a `Vec` cannot fail).  The bytes
of a descriptor answer are modelled in `Model/ReflectionWire`.
-/
namespace Reflection
open Refl

/-- The `name_type` argument of `extract_name`. -/
inductive Kind where
  | message | enum | enumValue | field | oneof | service | method
deriving Repr, DecidableEq

/-- `tonic_reflection::server::Error`. -/
inductive Err where
  | decode                      -- Error::DecodeError
  | missingFileName             -- InvalidFileDescriptorSet("missing name")
  | missing (k : Kind)          -- InvalidFileDescriptorSet("missing {k} name")
deriving Repr, DecidableEq

/-- `extract_name(prefix, name_type, maybe_name)`. -/
def extractName (pre : Name) (k : Kind) : Option Name → Except Err Name
  | none => .error (.missing k)
  | some n => .ok (if pre.isEmpty then n else pre ++ dot :: n)

/-- `for x in xs { let n = extract_name(pre, k, x.name)?; symbols.insert(n, fd) }` -/
def processNames (pre : Name) (k : Kind) : List (Option Name) → Except Err (List Name)
  | [] => .ok []
  | x :: xs =>
    match extractName pre k x with
    | .error e => .error e
    | .ok n =>
      match processNames pre k xs with
      | .error e => .error e
      | .ok ns => .ok (n :: ns)

/-- `process_enum` -/
def processEnum (pre : Name) (e : EnumD) : Except Err (List Name) :=
  match extractName pre .enum e.name with
  | .error err => .error err
  | .ok en =>
    match processNames en .enumValue e.values with
    | .error err => .error err
    | .ok vs => .ok (en :: vs)

/-- `for en in enums { self.process_enum(fd, prefix, en)? }` -/
def processEnums (pre : Name) : List EnumD → Except Err (List Name)
  | [] => .ok []
  | e :: es =>
    match processEnum pre e with
    | .error err => .error err
    | .ok a =>
      match processEnums pre es with
      | .error err => .error err
      | .ok b => .ok (a ++ b)

mutual
/-- `process_message`: own name, then nested types, enums, fields (`process_field`), oneofs. -/
def processMsg (pre : Name) : Msg → Except Err (List Name)
  | .mk name nested enums fields oneofs =>
    match extractName pre .message name with
    | .error e => .error e
    | .ok mn =>
      match processMsgs mn nested with
      | .error e => .error e
      | .ok a =>
        match processEnums mn enums with
        | .error e => .error e
        | .ok b =>
          match processNames mn .field fields with
          | .error e => .error e
          | .ok c =>
            match processNames mn .oneof oneofs with
            | .error e => .error e
            | .ok d => .ok (mn :: (a ++ (b ++ (c ++ d))))
/-- `for msg in msgs { self.process_message(fd, prefix, msg)? }` -/
def processMsgs (pre : Name) : MsgList → Except Err (List Name)
  | .nil => .ok []
  | .cons m ms =>
    match processMsg pre m with
    | .error e => .error e
    | .ok a =>
      match processMsgs pre ms with
      | .error e => .error e
      | .ok b => .ok (a ++ b)
end

/-- The service loop of `process_file`: returns (symbols inserted, service names in order). -/
def processServices (pre : Name) : List Service → Except Err (List Name × List Name)
  | [] => .ok ([], [])
  | s :: ss =>
    match extractName pre .service s.name with
    | .error e => .error e
    | .ok sn =>
      match processNames sn .method s.methods with
      | .error e => .error e
      | .ok ms =>
        match processServices pre ss with
        | .error e => .error e
        | .ok (syms, svcs) => .ok (sn :: (ms ++ syms), sn :: svcs)

/-- `process_file`: prefix = package or `""`; messages, enums, services.  Returns the symbols
inserted for this file and the names of its services. -/
def processFile (f : File) : Except Err (List Name × List Name) :=
  let pre := f.package.getD []
  match processMsgs pre f.messages with
  | .error e => .error e
  | .ok a =>
    match processEnums pre f.enums with
    | .error e => .error e
    | .ok b =>
      match processServices pre f.services with
      | .error e => .error e
      | .ok (c, svcs) => .ok (a ++ (b ++ c), svcs)

/-- `ReflectionServiceState` -/
structure State where
  serviceNames : List Name
  files : List (Name × File)
  symbols : List (Name × File)

/-- `HashMap::get` on the association-list representation. -/
def assoc (k : Name) : List (Name × File) → Option File
  | [] => none
  | (k', v) :: rest => if k = k' then some v else assoc k rest

/-- Inserting `ns` in order, all mapped to `fd`, into a newest-first association list. -/
def insertAll (fd : File) (ns : List Name) (m : List (Name × File)) : List (Name × File) :=
  (ns.map (fun n => (n, fd))).reverse ++ m

/-- The double loop `for fds in file_descriptor_sets { for fd in fds.file { … } }` of
`ReflectionServiceState::new`, over the flattened file list. -/
def addFiles (useAll : Bool) : List File → State → Except Err State
  | [], st => .ok st
  | f :: fs, st =>
    match f.name with
    | none => .error .missingFileName
    | some nm =>
      if (assoc nm st.files).isSome then addFiles useAll fs st      -- `continue`
      else
        match processFile f with
        | .error e => .error e
        | .ok (syms, svcs) =>
          addFiles useAll fs
            { serviceNames := if useAll then st.serviceNames ++ svcs else st.serviceNames
              files := (nm, f) :: st.files
              symbols := insertAll f syms st.symbols }

/-- One `register_*` call on the builder. -/
inductive Reg where
  | decoded (fs : List File)                 -- register_file_descriptor_set
  | encoded (r : Option (List File))         -- register_encoded_file_descriptor_set; what prost decodes

/-- `Builder` after all calls. `chosen = some l`: `with_service_name` was called, in order `l`. -/
structure Config where
  regs : List Reg
  chosen : Option (List Name)
  /-- `include_reflection_service` and the version's own descriptor set -/
  own : Option (List File)

def decodedSets : List Reg → List (List File)
  | [] => []
  | .decoded fs :: rs => fs :: decodedSets rs
  | .encoded _ :: rs => decodedSets rs

/-- `for encoded in encoded_file_descriptor_sets { push(FileDescriptorSet::decode(encoded)?) }` -/
def decodeAll : List Reg → Except Err (List (List File))
  | [] => .ok []
  | .decoded _ :: rs => decodeAll rs
  | .encoded none :: _ => .error .decode
  | .encoded (some fs) :: rs =>
    match decodeAll rs with
    | .error e => .error e
    | .ok r => .ok (fs :: r)

/-- All registrations, the own descriptor set last (it is pushed onto the encoded list by
`build_v1` / `build_v1alpha`). -/
def Config.allRegs (c : Config) : List Reg :=
  match c.own with
  | none => c.regs
  | some o => c.regs ++ [.encoded (some o)]

/-- `Builder::build_v1` / `build_v1alpha` → `ReflectionServiceState::new`: decoded sets first,
then the encoded ones in registration order. -/
def build (c : Config) : Except Err State :=
  match decodeAll c.allRegs with
  | .error e => .error e
  | .ok enc =>
    addFiles c.chosen.isNone ((decodedSets c.allRegs ++ enc).flatten)
      { serviceNames := c.chosen.getD [], files := [], symbols := [] }

/-- The files of one registration (`encoded none`: nothing could be decoded). -/
def Reg.files : Reg → List File
  | .decoded fs => fs
  | .encoded (some fs) => fs
  | .encoded none => []

def Reg.isDecoded : Reg → Bool
  | .decoded _ => true
  | .encoded _ => false

/-- Every registered descriptor in the order of the builder calls (own descriptor last). -/
def Config.files (c : Config) : List File := (c.allRegs.map Reg.files).flatten

/-- The same descriptors in the order `ReflectionServiceState::new` examines them: decoded
registrations first, then encoded ones. -/
def Config.procFiles (c : Config) : List File :=
  ((c.allRegs.filter Reg.isDecoded).map Reg.files).flatten
    ++ ((c.allRegs.filter (fun r => !r.isDecoded)).map Reg.files).flatten

def Reg.decodable : Reg → Bool
  | .encoded none => false
  | _ => true

/-- No registered byte string is rejected by prost. -/
def Config.decodable (c : Config) : Bool := c.allRegs.all Reg.decodable

/-! ### Look-ups and the request loop -/

/-- `MessageRequest` (`none`: the oneof is absent). -/
inductive Req where
  | none
  | fileByFilename (s : Name)
  | fileContainingSymbol (s : Name)
  | fileContainingExtension (containingType : Name) (extensionNumber : Int)
  | allExtensionNumbersOfType (s : Name)
  | listServices (s : Name)
deriving DecidableEq

/-- `ServerReflectionRequest` -/
structure Request where
  host : Name
  messageRequest : Req
deriving DecidableEq

/-- gRPC status codes the loop produces. -/
inductive Code where
  | invalidArgument | notFound
deriving Repr, DecidableEq

def Code.toNat : Code → Nat
  | .invalidArgument => 3
  | .notFound => 5

/-- `MessageResponse` -/
inductive Answer where
  | fileDescriptor (fd : File)         -- FileDescriptorResponse { file_descriptor_proto: vec![encode(fd)] }
  | extensionNumbers                   -- ExtensionNumberResponse::default()
  | services (l : List Name)           -- ListServiceResponse

/-- The `match req.message_request` of the request loop.  An error is the status *code* the
loop sends (`Status::invalid_argument` / `Status::not_found`); the human-readable message of a
status is not part of the model (DESIGN §3.3: errors are compared as code + class, and the class
is the kind of request that failed). -/
def respond (st : State) : Req → Except Code Answer
  | .none => .error .invalidArgument
  | .fileByFilename s =>
    match assoc s st.files with
    | none => .error .notFound
    | some fd => .ok (.fileDescriptor fd)
  | .fileContainingSymbol s =>
    match assoc s st.symbols with
    | none => .error .notFound
    | some fd => .ok (.fileDescriptor fd)
  | .fileContainingExtension _ _ => .error .notFound      -- "extensions are not supported"
  | .allExtensionNumbersOfType _ => .ok .extensionNumbers
  | .listServices _ => .ok (.services st.serviceNames)

/-- `ServerReflectionResponse` (of the `Ok` kind; an error status is not a message). -/
structure Response where
  validHost : Name
  originalRequest : Request
  answer : Answer

/-- The `while let Some(req) = req_rx.next().await` loop of one call: answers in order, each
echoing its request (`valid_host: req.host`, `original_request: Some(req)`); the first error
status is sent and ends the stream; otherwise the stream ends when the requests do. -/
def runStream (st : State) : List Request → List Response × Option Code
  | [] => ([], none)
  | r :: rs =>
    match respond st r.messageRequest with
    | .error e => ([], some e)
    | .ok a =>
      let (as, fin) := runStream st rs
      ({ validHost := r.host, originalRequest := r, answer := a } :: as, fin)

/-! ### The builder as a program of calls

`Builder` is consumed and returned by every call, so a configuration is a fold of calls over
`Builder::configure()`.  The two registration vectors of the real struct are kept as one list in
call order (`build` separates decoded from encoded registrations again, each kind in call order).
`build_v1` / `build_v1alpha` differ only in the own descriptor set they push last. -/

/-- One call on `Builder`. -/
inductive BuilderOp where
  | register (r : Reg)                      -- register_file_descriptor_set / register_encoded_file_descriptor_set
  | withServiceName (n : Name)              -- with_service_name
  | includeReflectionService (b : Bool)     -- include_reflection_service

/-- `struct Builder` -/
structure Builder where
  regs : List Reg
  serviceNames : List Name
  useAllServiceNames : Bool
  includeReflectionService : Bool

/-- `Builder::configure()` -/
def Builder.configure : Builder :=
  { regs := [], serviceNames := [], useAllServiceNames := true, includeReflectionService := true }

def Builder.step (b : Builder) : BuilderOp → Builder
  | .register r => { b with regs := b.regs ++ [r] }
  | .withServiceName n => { b with useAllServiceNames := false, serviceNames := b.serviceNames ++ [n] }
  | .includeReflectionService x => { b with includeReflectionService := x }

def Builder.run (ops : List BuilderOp) : Builder := ops.foldl Builder.step Builder.configure

/-- What `build_v1` / `build_v1alpha` hand to `ReflectionServiceState::new` (`own`: the version's
own descriptor set).  `service_names` is only non-empty when `use_all_service_names` is off. -/
def Builder.config (b : Builder) (own : List File) : Config :=
  { regs := b.regs
    chosen := if b.useAllServiceNames then none else some b.serviceNames
    own := if b.includeReflectionService then some own else none }

/-- `NamedService::NAME` of the generated `ServerReflectionServer`s (what `Routes` and
`transport::Server` route by): v1, v1alpha. -/
def serverNameV1 : Name := "grpc.reflection.v1.ServerReflection".toUTF8.toList
def serverNameV1alpha : Name := "grpc.reflection.v1alpha.ServerReflection".toUTF8.toList

end Reflection
